"""
Core of the check runner (see /verif/check and DESIGN.md section 2).
"""
import os, sys, json, time, re, subprocess, fcntl, hashlib, importlib, collections, contextlib

ROOT = os.path.dirname(os.path.dirname(os.path.abspath(__file__)))
LEAN = os.path.join(ROOT, "lean")
HARNESS = os.path.join(ROOT, "harness")
BUILD = os.path.join(ROOT, "build")
CARGO_TARGET = os.path.join(BUILD, "cargo")
DRIVER = os.path.join(LEAN, ".lake", "build", "bin", "kdriver")
KH = os.path.join(CARGO_TARGET, "debug", "kharness")
EVID = os.path.join(ROOT, "evidence")
REPLAYS = os.path.join(ROOT, "replays")
REPO = os.environ.get("KV_REPO", "/repo")   # KV_REPO: scratch worktree used when testing seeded changes

ALLOWED_AXIOMS = {"propext", "Classical.choice", "Quot.sound"}
FORBIDDEN = re.compile(r"\bsorry\b|\badmit\b|^\s*axiom\s|native_decide|bv_decide|implemented_by|\bunsafe\s|maxHeartbeats\s+0")

ENV = dict(os.environ)
ENV.update({"CARGO_NET_OFFLINE": "true", "CARGO_TARGET_DIR": CARGO_TARGET})

TRUSTED_BASE = [
    "Lean 4.33.0 kernel (theorems are about the Lean model, not about the Rust text)",
    "axioms allowed in property theorems: propext, Classical.choice, Quot.sound (audited with #print axioms on every run); no sorry/admit/native_decide/bv_decide/own axioms",
    "Spec/*.lean: hand-written reference semantics of std, validated against the real std on every run (spec vs oracle comparison), ultimately trusted",
    "correspondence check: hand-written model tied to /repo by differential execution (kharness + generated programs, rebuilt from /repo's working tree) against the compiled Lean driver that runs the same definitions the theorems are about",
    "rustc 1.95 / cargo; the Lean compiler for the driver executable",
    "second tie (DESIGN.md section 11): translator/ (rs2lean: rustc -Zunpretty=expanded + syn) regenerates Lean definitions of the listed functions from /repo on every run; Rs/Prelude.lean's reading of Rust integer, slice-pattern and raw-parts semantics; the equivalence theorems Extracted.f = Model.f are kernel-checked",
]


def log(*a):
    print(*a, file=sys.stderr, flush=True)


@contextlib.contextmanager
def build_lock():
    os.makedirs(BUILD, exist_ok=True)
    f = open(os.path.join(BUILD, ".lock"), "w")
    fcntl.flock(f, fcntl.LOCK_EX)
    try:
        yield
    finally:
        fcntl.flock(f, fcntl.LOCK_UN)
        f.close()


def run(cmd, cwd=None, env=None, timeout=None, inp=None):
    p = subprocess.run(cmd, cwd=cwd, env=env or ENV, stdout=subprocess.PIPE, stderr=subprocess.STDOUT,
                       timeout=timeout, input=inp, text=True)
    return p.returncode, p.stdout


# ---------------------------------------------------------------------------------------------
# 1. proof obligations
# ---------------------------------------------------------------------------------------------

def strip_comments(text):
    # remove /- ... -/ (nested) and -- comments
    out, i, depth = [], 0, 0
    n = len(text)
    while i < n:
        if text.startswith("/-", i):
            depth += 1; i += 2; continue
        if depth and text.startswith("-/", i):
            depth -= 1; i += 2; continue
        if depth:
            if text[i] == "\n":
                out.append("\n")
            i += 1; continue
        if text.startswith("--", i):
            while i < n and text[i] != "\n":
                i += 1
            continue
        out.append(text[i]); i += 1
    return "".join(out)


def forbidden_hits():
    hits = []
    for base in ("KonstVerif", "Driver"):
        for dp, _, fns in os.walk(os.path.join(LEAN, base)):
            for fn in fns:
                if not fn.endswith(".lean"):
                    continue
                p = os.path.join(dp, fn)
                for ln, line in enumerate(strip_comments(open(p).read()).split("\n"), 1):
                    if FORBIDDEN.search(line):
                        hits.append(f"{os.path.relpath(p, LEAN)}:{ln}: {line.strip()[:100]}")
    return hits


def read_obligations(pid):
    """lean/obligations/<pid>.txt: one fully qualified theorem name per line (# comments allowed);
    a line `import <Module>` adds a module to import for the audit.
    lean/obligations/<pid>.extracted.txt (optional, same format): the equivalence theorems
    `regenerated definition = model definition` of DESIGN.md section 11."""
    def rd(p):
        names, imports = [], []
        if os.path.exists(p):
            for line in open(p):
                line = line.split("#")[0].strip()
                if not line:
                    continue
                if line.startswith("import "):
                    if line[7:].strip() not in imports:
                        imports.append(line[7:].strip())
                elif line.startswith("use "):
                    i2, n2 = rd(os.path.join(LEAN, "obligations", "equiv", line[4:].strip() + ".txt"))
                    for x in i2:
                        if x not in imports:
                            imports.append(x)
                    for x in n2:
                        if x not in names:
                            names.append(x)
                else:
                    if line not in names:
                        names.append(line)
        return imports, names
    imports, names = rd(os.path.join(LEAN, "obligations", pid + ".txt"))
    ximports, xnames = rd(os.path.join(LEAN, "obligations", pid + ".extracted.txt"))
    return imports, names, ximports, xnames


GEN_DIR = os.path.join(LEAN, "KonstVerif", "Extracted", "Gen")
GEN_MANIFEST = os.path.join(ROOT, "translator", "gen.sha256.json")


def gen_digests():
    d = {}
    if os.path.isdir(GEN_DIR):
        for fn in sorted(os.listdir(GEN_DIR)):
            if fn.endswith(".lean"):
                d[fn] = hashlib.sha256(open(os.path.join(GEN_DIR, fn), "rb").read()).hexdigest()
    return d


_REGEN = {}


def regenerate_extracted():
    """DESIGN.md section 11: expand /repo's crates with rustc, translate the target functions into
    lean/KonstVerif/Extracted/Gen/*.lean, report translation failures and which files differ from the
    committed ones (translator/gen.sha256.json)."""
    if _REGEN:
        return _REGEN
    t0 = time.time()
    try:
        from vlib import bridge
        bridge.cleanup()     # a Bridge.lean of an earlier run speaks about an earlier regeneration
    except Exception:
        pass
    with build_lock():
        rc, out = run([os.path.join(ROOT, "translator", "run.sh")], timeout=1800)
    status = []
    try:
        status = json.load(open(os.path.join(GEN_DIR, "status.json")))
    except Exception:
        pass
    try:
        manifest = json.load(open(GEN_MANIFEST))
    except Exception:
        manifest = {}
    cur = gen_digests()
    changed = sorted(f for f in set(cur) | set(manifest) if cur.get(f) != manifest.get(f))
    _REGEN.update({"rc": rc, "seconds": round(time.time() - t0, 1),
                   "targets": len(status), "translated": sum(1 for s_ in status if s_.get("ok")),
                   "failed_targets": [s_ for s_ in status if not s_.get("ok")],
                   "changed_files": changed,
                   "log": "" if rc == 0 else out[-1500:]})
    return _REGEN


def audit_axioms(pid, tag, imports, names, res):
    audit = os.path.join(BUILD, f"audit_{pid}{tag}.lean")
    with open(audit, "w") as f:
        for m in imports:
            f.write(f"import {m}\n")
        for nme in names:
            f.write(f"#print axioms {nme}\n")
    rc, out = run(["lake", "env", "lean", audit], cwd=LEAN, timeout=1800)
    found = {}
    for m in re.finditer(r"'(\S+)' depends on axioms: \[([^\]]*)\]", out.replace("\n", " ")):
        found[m.group(1)] = {a.strip() for a in m.group(2).split(",") if a.strip()}
    for m in re.finditer(r"'(\S+)' does not depend on any axioms", out):
        found[m.group(1)] = set()
    ok = 0
    for nme in names:
        if nme not in found:
            res["failed"].append(f"{nme}: theorem missing or audit failed")
            continue
        extra = found[nme] - ALLOWED_AXIOMS
        res["axioms"][nme] = sorted(found[nme])
        if extra:
            res["failed"].append(f"{nme}: depends on disallowed axioms {sorted(extra)}")
        else:
            ok += 1
    return ok


def try_bridge(pid, gen, ximports, res):
    """the regenerated definitions broke an equivalence theorem: are they provably the committed definitions?
    (vlib/bridge.py)  True = yes, all of them, kernel-checked and axiom-audited; the generated files are then back at
    the committed text and the theorem modules are built against it.  False = no (the regenerated text is in place)."""
    from vlib import bridge
    rec = {"attempted": True, "ok": False}
    res["extracted"]["bridge"] = rec
    if gen["failed_targets"] or gen["rc"] != 0 or not gen["changed_files"]:
        rec["reason"] = "untranslatable targets or no changed generated file"
        return False
    info = None
    try:
        ok, why, info = bridge.plan(gen["changed_files"])
        if not ok:
            rec["reason"] = why
            return False
        names = bridge.write_bridge(info)
        rec["definitions"] = [f"{g}: {n}" for _, g, n in names]
        bridge.restore_committed(info)
        t0 = time.time()
        with build_lock():
            rc1, out1 = run(["lake", "build"] + list(ximports), cwd=LEAN, timeout=3600)
            rc2, out2 = (1, "") if rc1 != 0 else run(["lake", "build", "KonstVerif.Extracted.Bridge"], cwd=LEAN, timeout=600)
        rec["seconds"] = round(time.time() - t0, 1)
        if rc1 != 0:
            rec["reason"] = "the equivalence theorems do not build against the committed generated text: " + out1[-300:]
        elif rc2 != 0:
            errs = [l for l in out2.split("\n") if l.startswith("error:")][:3]
            rec["reason"] = "not every changed definition is provably the committed one: " + " | ".join(e[:200] for e in errs)
        else:
            tmp = {"failed": [], "axioms": {}}
            okb = audit_axioms(pid, "b", ["KonstVerif.Extracted.Bridge"], [n for n, _, _ in names], tmp)
            if okb == len(names):
                rec["ok"] = True
                rec["axioms"] = sorted({a for v in tmp["axioms"].values() for a in v})
                log(f"[{pid}] bridge: {len(names)} regenerated definitions proved equal to the committed ones ({rec['seconds']} s)")
                return True
            rec["reason"] = "bridge theorems failed the axiom audit: " + "; ".join(tmp["failed"][:3])
    except Exception as e:   # best effort: any failure here means 'not bridged'
        rec["reason"] = f"{type(e).__name__}: {e}"
    if info is not None:
        bridge.restore_regenerated(info)
    bridge.cleanup()
    return False


def proof_obligations(pid, tier):
    imports, names, ximports, xnames = read_obligations(pid)
    res = {"obligations": len(names) + len(xnames), "discharged": 0, "failed": [], "axioms": {},
           "names": names + xnames, "extracted": None, "extracted_broken": False}
    targets = list(imports) + ["kdriver"]
    with build_lock():
        t0 = time.time()
        rc, out = run(["lake", "build"] + targets, cwd=LEAN, timeout=3600)
        res["lake_build_s"] = round(time.time() - t0, 1)
    res["checker_cmd"] = "cd lean && lake build " + " ".join(targets) + " && lake env lean <#print axioms audit>"
    if rc != 0:
        res["failed"] = [f"lake build failed: {out[-1500:]}"]
        return res
    res["discharged"] += audit_axioms(pid, "", imports, names, res)
    # the second tie (DESIGN.md section 11): regenerate the definitions from /repo's source, re-check the
    # equivalence theorems `Extracted.f = Model.f` against the regenerated text
    if xnames:
        gen = regenerate_extracted()
        res["extracted"] = {k: gen[k] for k in ("targets", "translated", "changed_files", "seconds")}
        res["extracted"]["failed_targets"] = [f"{t_['rust']}: {t_.get('error', '')}"[:300] for t_ in gen["failed_targets"]]
        res["extracted"]["equivalence_theorems"] = len(xnames)
        with build_lock():
            t0 = time.time()
            rc, out = run(["lake", "build"] + list(ximports), cwd=LEAN, timeout=3600)
            res["extracted"]["lake_build_s"] = round(time.time() - t0, 1)
        res["checker_cmd"] += " ; translator/run.sh && lake build " + " ".join(ximports)
        if rc != 0 and try_bridge(pid, gen, ximports, res):
            # every regenerated definition that differs from the committed text is kernel-proved equal to it, and the
            # equivalence theorems have just been re-built against the committed text (DESIGN.md section 11, Bridge)
            ok = audit_axioms(pid, "x", ximports, xnames, res)
            res["discharged"] += ok
            if ok != len(xnames):
                res["extracted_broken"] = True
        elif rc != 0:
            errs = [l for l in out.split("\n") if l.startswith("error:")][:6]
            res["extracted_broken"] = True
            res["failed"].append("extracted: the definitions regenerated from /repo's source no longer satisfy the "
                                 "equivalence theorems (regenerated files that differ from the committed ones: "
                                 + (", ".join(gen["changed_files"]) or "none") + "; untranslatable targets: "
                                 + (", ".join(t_["rust"] for t_ in gen["failed_targets"]) or "none") + "): "
                                 + " | ".join(e[:300] for e in errs)
                                 + " || bridge to the committed definitions: "
                                 + str((res["extracted"].get("bridge") or {}).get("reason", "not attempted"))[:400])
        else:
            ok = audit_axioms(pid, "x", ximports, xnames, res)
            res["discharged"] += ok
            if ok != len(xnames):
                res["extracted_broken"] = True
    hits = forbidden_hits()
    if hits:
        res["failed"].append("forbidden tokens: " + "; ".join(hits[:5]))
        res["discharged"] = 0
    if tier == "thorough" and not res["failed"]:
        t0 = time.time()
        for m in list(imports) + list(ximports):
            rc, out = run(["lake", "env", "leanchecker", m], cwd=LEAN, timeout=3600)
            if rc != 0:
                res["failed"].append(f"leanchecker {m} failed: {out[-500:]}")
        res["leanchecker_s"] = round(time.time() - t0, 1)
        res["checker_cmd"] += " && lake env leanchecker " + " ".join(list(imports) + list(ximports))
    return res


# ---------------------------------------------------------------------------------------------
# 2-4. transcripts
# ---------------------------------------------------------------------------------------------

def build_harness(features=()):
    with build_lock():
        if not os.path.exists(os.path.join(HARNESS, "Cargo.lock")):
            subprocess.run(["cp", os.path.join(REPO, "Cargo.lock"), os.path.join(HARNESS, "Cargo.lock")])
        cmd = ["cargo", "build", "--offline", "--quiet"]
        if features:
            cmd += ["--features", ",".join(features)]
        t0 = time.time()
        rc, out = run(cmd, cwd=HARNESS, timeout=3600)
        return rc, out, round(time.time() - t0, 1)


def run_harness_family(fam, tier, seed, tag):
    """returns path of a 4-column tsv: request, impl, oracle, scope"""
    path = os.path.join(BUILD, f"t_{tag}_{fam}_{tier}.tsv")
    with open(path, "w") as f:
        p = subprocess.run([KH, fam, tier, str(seed)], stdout=f, stderr=subprocess.PIPE, text=True, timeout=7200)
    if p.returncode != 0:
        # localise: rerun flushing every line, so that the transcript ends at the last request that completed
        env2 = dict(os.environ); env2["KH_FLUSH"] = "1"
        with open(path, "w") as f:
            p = subprocess.run([KH, fam, tier, str(seed)], stdout=f, stderr=subprocess.PIPE, text=True, timeout=7200, env=env2)
    if p.returncode != 0:
        # the harness calls the real code in-process: a crash (abort, segfault, a panic that escaped
        # catch_unwind) is behaviour of the implementation under test, not of the machinery
        last = ""
        try:
            with open(path) as f:
                for line in f:
                    last = line.split("\t", 1)[0]
        except OSError:
            pass
        raise HarnessCrash(fam, p.returncode, last, p.stderr[-600:])
    return path


def run_driver(tsv_path):
    """pipes column 1 through the Lean driver; returns list of (model, spec)"""
    reqs = os.path.join(BUILD, os.path.basename(tsv_path) + ".req")
    with open(tsv_path) as f, open(reqs, "w") as g:
        for line in f:
            g.write(line.split("\t", 1)[0] + "\n")
    outp = tsv_path + ".model"
    with open(reqs) as fi, open(outp, "w") as fo:
        p = subprocess.run([DRIVER], stdin=fi, stdout=fo, stderr=subprocess.PIPE, text=True, timeout=7200)
    if p.returncode != 0:
        raise RuntimeError(f"kdriver exited {p.returncode}: {p.stderr[-800:]}")
    return outp


class HarnessCrash(Exception):
    def __init__(self, fam, rc, last, err):
        super().__init__(f"kharness {fam} exited {rc} after request '{last}': {err}")
        self.fam, self.rc, self.last, self.err = fam, rc, last, err


TRIVIAL = {"none", "v:_:0", "panic", "f", "[]", "err", "-", ""}


class Comparison:
    def __init__(self):
        self.evaluations = 0
        self.nontrivial = set()
        self.impl_ne_oracle = []      # in-scope: property violated on the implementation
        self.impl_ne_model = []       # in-scope: correspondence broken
        self.spec_ne_oracle = []      # machinery defect
        self.bad_op = []
        self.drift = []               # out-of-scope disagreements (informational)
        self.samples = []
        self.kinds = collections.Counter()
        self.ops = collections.Counter()
        self.in_scope = 0

    def feed(self, source, tsv_path, model_path, only=None):
        with open(tsv_path) as f, open(model_path) as g:
            for line, mline in zip(f, g):
                parts = line.rstrip("\n").split("\t")
                if len(parts) != 4:
                    self.bad_op.append((source, line.strip(), "malformed transcript line"))
                    continue
                req, imp, ora, scope = parts
                if only is not None and req not in only:
                    continue
                mp = mline.rstrip("\n").split("\t")
                model, spec = (mp + ["?", "?"])[:2]
                self.evaluations += 1
                self.ops[req.split(" ", 1)[0]] += 1
                rec = {"source": source, "req": req, "impl": imp, "oracle": ora, "model": model, "spec": spec}
                if model == "bad-op" or imp == "bad-op":
                    self.bad_op.append((source, req, "driver or harness could not parse"))
                    continue
                kind = re.sub(r"[0-9]+", "#", imp)[:24]
                self.kinds[kind] += 1
                if imp not in TRIVIAL:
                    self.nontrivial.add(req)
                if len(self.samples) < 6 and imp not in TRIVIAL and self.evaluations % 997 in (1, 2):
                    self.samples.append(rec)
                # scope: in = everything compared; m = only implementation vs model (std has no
                # counterpart, or a documented exception applies); out = nothing (drift notes only)
                ins = scope in ("in", "m")
                if scope == "m":
                    ora = "?"
                if ins:
                    self.in_scope += 1
                # the oracle column may be `-` when std has no counterpart (then only the model speaks)
                if ora != "?" and spec != "?" and spec != ora:
                    (self.spec_ne_oracle if ins else self.drift).append(rec)
                if ora != "?" and imp != ora:
                    (self.impl_ne_oracle if ins else self.drift).append(rec)
                if model != "?" and imp != model:
                    (self.impl_ne_model if ins else self.drift).append(rec)


# ---------------------------------------------------------------------------------------------
# known findings
# ---------------------------------------------------------------------------------------------

def load_known(pid):
    p = os.path.join(ROOT, "known_findings.jsonl")
    known = []
    if os.path.exists(p):
        for line in open(p):
            line = line.strip()
            if not line:
                continue
            e = json.loads(line)
            if e.get("property") == pid and e.get("status") == "known":
                known.append(e)
    return known


def match_known(known, rec):
    """a violation is suppressed only if its structural key matches a listed finding"""
    for e in known:
        m = e.get("match", {})
        if "req_regex" in m and not re.search(m["req_regex"], rec["req"]):
            continue
        if m.get("impl_equals_model") and rec["impl"] != rec["model"]:
            continue
        if "impl_regex" in m and not re.search(m["impl_regex"], rec["impl"]):
            continue
        return e
    return None


# ---------------------------------------------------------------------------------------------
# main
# ---------------------------------------------------------------------------------------------

def anchors_changed(pid):
    """staleness sentinel: which of the property's anchored source files differ from the digests committed
    with the model (anchors.sha256.json). A changed digest is never by itself a violation; it makes the
    quick tier explore with the thorough generators' bounds."""
    try:
        digests = json.load(open(os.path.join(ROOT, "anchors.sha256.json")))
        files = []
        for line in open(os.path.join(ROOT, "properties.jsonl")):
            pr = json.loads(line)
            if pr["id"] == pid:
                files = pr["anchors"]["files"]
        changed = []
        for f in files:
            fp = os.path.join(REPO, f)
            cur = hashlib.sha256(open(fp, "rb").read()).hexdigest() if os.path.exists(fp) else "missing"
            if digests.get(f) != cur:
                changed.append(f)
        return changed
    except Exception as e:
        return ["<sentinel unavailable: %s>" % e]


def write_replay(pid, tier, seed, kind, recs, note=""):
    os.makedirs(REPLAYS, exist_ok=True)
    name = f"{pid}-{kind}-{tier}-{seed}.json"
    p = os.path.join(REPLAYS, name)
    with open(p, "w") as f:
        json.dump({"property": pid, "tier": tier, "seed": seed, "kind": kind, "note": note,
                   "cases": recs[:50], "total_cases": len(recs),
                   "how_to_replay": f"./check {pid} --replay replays/{name}"}, f, indent=1)
    return os.path.relpath(p, ROOT)


def main(argv):
    from vlib.registry import PROPS
    if not argv or argv[0] not in PROPS:
        print("usage: ./check <Cxx> [--tier quick|thorough] [--replay file]; properties: " + " ".join(sorted(PROPS)))
        return 2
    pid = argv[0]
    tier = os.environ.get("VERIF_TIER", "quick")
    replay = None
    i = 1
    while i < len(argv):
        if argv[i] == "--tier":
            tier = argv[i + 1]; i += 2
        elif argv[i] == "--replay":
            replay = argv[i + 1]; i += 2
        else:
            i += 1
    if tier not in ("quick", "thorough"):
        tier = "quick"
    try:
        seed = int(os.environ.get("VERIF_SEED", "20260929"))
    except ValueError:
        seed = 20260929
    only = None
    if replay:
        rp = json.load(open(replay if os.path.isabs(replay) else os.path.join(ROOT, replay)))
        tier, seed = rp["tier"], rp["seed"]
        only = {c["req"] for c in rp["cases"] if "req" in c}
    P = PROPS[pid]
    t0 = time.time()
    violations = []      # (replay_path, suffix)
    known_lines = []
    broken = []
    os.makedirs(EVID, exist_ok=True)
    os.makedirs(BUILD, exist_ok=True)

    # 1. proof obligations
    po = proof_obligations(pid, tier)
    log(f"[{pid}] obligations {po['discharged']}/{po['obligations']} (lake {po.get('lake_build_s')} s)")

    # 2. rebuild the implementation side from /repo as it is now
    cmp_ = Comparison()
    extra = {}
    crashes = []
    rtier = tier          # the tier whose generators produced the transcript (recorded in replay files)
    harness_fail = None
    if not os.path.exists(DRIVER):
        broken.append("kdriver was not built")
    else:
        rc, out, secs = build_harness()
        log(f"[{pid}] harness build rc={rc} {secs} s")
        if rc != 0:
            harness_fail = out[-3000:]
        else:
            changed = anchors_changed(pid) if not replay else []
            gen_tier = tier
            if changed and tier == "quick" and os.environ.get("VERIF_NO_ESCALATE") != "1":
                gen_tier = "thorough"
                log(f"[{pid}] anchored sources changed ({', '.join(changed[:4])}): exploring with the thorough generators")
            if po.get("extracted_broken") and not replay:
                gen_tier = "thorough"
                log(f"[{pid}] an equivalence theorem about the regenerated definitions no longer checks: searching for a failing input with the thorough generators")
            if po.get("extracted"):
                extra["extracted"] = po["extracted"]
            extra["anchors_changed"] = changed
            extra["generator_tier"] = gen_tier
            rtier = gen_tier
            os.environ["KV_GEN_TIER"] = gen_tier
            ctx = {"tier": gen_tier, "seed": seed, "pid": pid, "only": only, "extra": extra}
            for kind, name in P["sources"]:
                try:
                    if kind == "harness":
                        tsv = run_harness_family(name, gen_tier, seed, pid)
                    else:
                        mod = importlib.import_module("vlib.progs." + name)
                        tsv = mod.generate(ctx)
                    model = run_driver(tsv)
                    cmp_.feed(name, tsv, model, only)
                except HarnessCrash as e:
                    crashes.append({"family": e.fam, "exit": e.rc, "last_request_before_crash": e.last, "stderr": e.err})
                except Exception as e:  # a source that cannot run is a broken check, not a violation
                    broken.append(f"source {name}: {type(e).__name__}: {str(e)[:1500]}")

    known = load_known(pid)

    # 5. verdicts
    if harness_fail is not None:
        # /repo no longer builds with the harness: the correspondence cannot be established
        p = write_replay(pid, rtier, seed, "build", [{"error": harness_fail}],
                         "the harness (path dependency on /repo/konst) no longer compiles against /repo")
        violations.append((p, " no-failing-input-found"))
    obligation_replay = None
    if po["failed"]:
        obligation_replay = write_replay(pid, rtier, seed, "obligation", [{"failed": po["failed"]}],
                                         "proof obligations that no longer check: " + "; ".join(po["failed"])[:800])

    if crashes:
        p = write_replay(pid, rtier, seed, "crash", crashes,
                         "the harness process running the real code crashed (abort / segfault / escaped panic); "
                         "the request after last_request_before_crash of that family is the failing input")
        violations.append((p, ""))
    new_viol = []
    for rec in cmp_.impl_ne_oracle:
        k = match_known(known, rec)
        if k:
            known_lines.append((k, rec))
        else:
            new_viol.append(rec)
    if new_viol:
        p = write_replay(pid, rtier, seed, "input", new_viol,
                         "implementation differs from std/the documented oracle on these inputs")
        violations.append((p, ""))
    xs = None
    if po.get("extracted_broken") and not replay and po.get("extracted", {}).get("changed_files"):
        # the regenerated definitions differ from the committed ones and no longer satisfy their theorems:
        # search regenerated-vs-committed in Lean, replay what is found on the implementation (vlib/xsearch.py)
        try:
            from vlib import xsearch
            xs = xsearch.search(pid, po["extracted"]["changed_files"], seed)
        except Exception as e:
            xs = {"note": f"search failed: {type(e).__name__}: {e}", "failing_inputs": []}
        extra["extracted_search"] = {k: xs.get(k) for k in ("groups", "lean_counterexamples", "note")}
        extra["extracted_search"]["replayed_on_implementation"] = len(xs.get("replayed", []))
        extra["extracted_search"]["failing_inputs"] = len(xs.get("failing_inputs", []))
        if xs.get("failing_inputs"):
            p = write_replay(pid, rtier, seed, "extracted-input", xs["failing_inputs"],
                             "found by comparing the regenerated definition with the committed one in Lean and replaying the "
                             "input on the real code: konst's public function and the std counterpart disagree on these inputs")
            violations.append((p, ""))
    if obligation_replay:
        # a broken proof obligation is reported with the failing input when the search found one
        if xs is not None:
            try:
                rp = json.load(open(os.path.join(ROOT, obligation_replay)))
                rp["search"] = xs
                json.dump(rp, open(os.path.join(ROOT, obligation_replay), "w"), indent=1)
            except Exception:
                pass
        found_input = bool(new_viol) or bool(crashes) or bool(xs and xs.get("failing_inputs"))
        violations.insert(0, (obligation_replay, "" if found_input else " no-failing-input-found"))
    corr = [r for r in cmp_.impl_ne_model]
    if corr and not new_viol:
        # correspondence broken and no failing input in the whole transcript
        p = write_replay(pid, rtier, seed, "correspondence", corr,
                         "model and implementation disagree (the theorems no longer speak about this code); "
                         "no input was found on which the implementation differs from the oracle. "
                         "Broken correspondence: " + ", ".join(sorted({r['req'].split(' ')[0] for r in corr})[:12]))
        violations.append((p, " no-failing-input-found"))
    elif corr:
        extra["correspondence_disagreements"] = len(corr)
    if cmp_.spec_ne_oracle:
        broken.append(f"spec != oracle on {len(cmp_.spec_ne_oracle)} requests (specification misdescribes std), first: {cmp_.spec_ne_oracle[0]}")
    if cmp_.bad_op:
        broken.append(f"bad-op on {len(cmp_.bad_op)} requests, first: {cmp_.bad_op[0]}")
    if not replay and cmp_.evaluations == 0 and not harness_fail and not crashes:
        broken.append("no requests were evaluated")

    # 6. evidence
    seen = set()
    for k, rec in known_lines:
        if k["id"] not in seen:
            seen.add(k["id"])
            print(f"KNOWN-FINDING: property={pid} {k['id']}: {k['what']} (e.g. {rec['req']} -> {rec['impl']}, std {rec['oracle']})")
    wall = round(time.time() - t0, 2)
    cov = {
        "obligations": po["obligations"], "discharged": po["discharged"],
        "checker_cmd": po.get("checker_cmd", ""), "trusted_base": TRUSTED_BASE + P.get("trusted_extra", []),
        "theorems": po["names"], "axioms_used": sorted({a for v in po["axioms"].values() for a in v}),
        "evaluations": cmp_.evaluations, "distinct_nontrivial": len(cmp_.nontrivial),
        "rule": P.get("rule", "") + " A case is non-trivial when the implementation's result is not one of none / empty view / false / panic; distinct = distinct request lines.",
        "samples": cmp_.samples[:6] or [{"note": "no samples"}],
        "traces_validated_against_impl": cmp_.in_scope,
        "disagreements_checked": len(cmp_.impl_ne_oracle) + len(cmp_.impl_ne_model) + len(cmp_.spec_ne_oracle),
        "impl_ne_oracle": len(cmp_.impl_ne_oracle), "impl_ne_model": len(cmp_.impl_ne_model),
        "spec_ne_oracle": len(cmp_.spec_ne_oracle), "out_of_scope_drift": len(cmp_.drift),
        "known_findings_matched": len(known_lines),
        "operation_mix": dict(cmp_.ops.most_common(60)),
        "result_kinds": dict(cmp_.kinds.most_common(25)),
        "exhaustive": bool(P.get("exhaustive", False)),
        "explanation": P.get("explanation", ""),
        "broken": broken,
    }
    cov.update(extra)
    ev = {"property_id": pid, "tier": tier, "seed": seed, "level": P["level"], "coverage": cov,
          "assumptions": P.get("assumptions", []), "wall_s": wall, "violations": len(violations)}
    if not replay:
        with open(os.path.join(EVID, pid + ".json"), "w") as f:
            json.dump(ev, f, indent=1)
    for p, suffix in violations:
        print(f"VIOLATION property={pid} replay={p}{suffix}")
    for b_ in broken:
        print(f"CHECK-BROKEN property={pid} {b_[:600]}")
    log(f"[{pid}] tier={tier} seed={seed} evaluations={cmp_.evaluations} impl!=oracle={len(cmp_.impl_ne_oracle)} "
        f"impl!=model={len(cmp_.impl_ne_model)} spec!=oracle={len(cmp_.spec_ne_oracle)} wall={wall}s")
    if violations:
        return 1
    if broken:
        return 2
    return 0
