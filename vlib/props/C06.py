"""registry entry of C06 (see vlib/registry.py)"""
PROP = {'level': 'proof',
 'claim': 'Proof: for every valid UTF-8 string and every valid delimiter (a &str or the encoding of a char, '
          'the empty string included) the model of Split, RSplit, SplitTerminator and RSplitTerminator, '
          'iterated with next until None, never panics, stops after at most |s|+2 pieces and yields exactly '
          "the pieces of str::split / rsplit / split_terminator and of konst's documented rsplit_terminator "
          '(rsplit without a final empty piece), each at its position in the input; after every step '
          'remainder() is the input minus the pieces and delimiters taken so far (suffix for the forward, '
          'prefix for the backward iterators, "" once finished); rev() / next_back yield the pieces of the '
          'r-counterpart; and for every non-empty delimiter that cannot overlap itself (every char '
          'delimiter) EVERY mixed front/back history on Split / RSplit refines the deque of split\'s pieces, '
          'remainders included (12 theorems by induction, no bound on lengths or history depth). For '
          'delimiters with a border ("aa", "aba") or the empty delimiter mixed histories are NOT a deque '
          '(shown by examples); only one-directional iteration is characterised there. The model is tied to '
          'the code by an exhaustive small-scope differential run through the public API.',
 'sources': [('harness', 'c06')],
 'exhaustive': True,
 'rule': 'Exhaustive: every string over {a, b, n-tilde} with at most 5 (thorough 6) characters x every &str '
         'delimiter over the same alphabet with 0..=3 characters (empty, self-overlapping, longer than the '
         'input included) and the char delimiters a, b, n-tilde x the six iterators split, rsplit, '
         'split.rev, rsplit.rev, split_terminator, rsplit_terminator driven to exhaustion (piece position '
         'and remainder() observed after every step); every string of at most 4 characters x the same '
         'delimiters x every front/back history of depth 5 (thorough 6; plus depth 5 on all 5-character '
         'strings) on split, rsplit, split.rev, rsplit.rev; every string of at most 4 (5) characters over '
         '{x, e-acute, euro, U+1F600, comma} x 10 str and 10 char delimiters of all four UTF-8 lengths; the '
         'inputs that failed before the byte-search repair 116b24e first (aaab/aab, aaabaab/aab, abbb/abb, '
         'aaa/aa ...); 2500 (20000) seeded random strings with planted delimiters, near misses and '
         'overlaps, each with a random history. Oracle: str::split / rsplit / split_terminator, for '
         "rsplit_terminator the documented rule computed from str::rsplit, remainders computed from std's "
         "pieces; histories: std's double-ended Split<char> / RSplit<char>, a deque of std's pieces for "
         'borderless &str delimiters, none (implementation vs model only) for empty and self-overlapping '
         'delimiters.',
 'explanation': 'Theorems (Props/C06.lean) state model = std specification for all valid strings, delimiters '
                'and histories; the transcript ties the model to konst::string::{split, rsplit, '
                'split_terminator, rsplit_terminator} incl. rev/next_back/copy/remainder (impl vs model) and '
                'the specification to the real std (spec vs oracle). Search is the C04 model of '
                'string::find/rfind (window-by-window matcher of 116b24e), cutting the C03 model of '
                'str_from/str_up_to/split_at with explicit panics.',
 'assumptions': ['usize is 64 bits wide',
                 'a &str argument is valid UTF-8 (a Rust invariant); a char delimiter is its UTF-8 encoding '
                 "(chr::encode_utf8, another property's model; the harness passes real chars)",
                 "konst's `debug` feature is off (__from_u8_subslice_of_str assertions not modelled)",
                 'the address of an empty &str is not observable (the model normalises it; the code yields '
                 'the literal "" in three places)']}
