"""registry entry of C17 (see vlib/registry.py)"""
PROP = {'level': 'translation_validation',
 'claim': 'Generated programs vs verdict model: every guard of destructure!, the iterator DSL '
          '(eval!/for_each!/collect_const!/string::from_iter!) and parser_method! x every syntactic shape '
          'the macro accepts is compiled alone against the konst rlib built from /repo now; every invalid '
          "program must be rejected (for compile_error! guards: with the guard's own message), its control "
          "(offending element removed) must compile, and both verdicts must equal the Lean model's "
          '(Model/Guards.lean). Proofs (17 theorems) only for the token-level decision logic: reversal guard '
          'fires iff >= 2 reversing methods (any chain length), exact set of 26 supported names, args guard, '
          'parser_method! default-branch normaliser and literal test; destructure! is a verdict table '
          '(paired_control, accepted_defects). Whether rustc rejects a program is observed, not proved.',
 'sources': [('programs', 'c17')],
 'exhaustive': False,
 'rule': 'Family: DSL — 4 macros (eval!, for_each!, collect_const!, string::from_iter!) x 3 sources x every '
         'ordered pair of reversing methods (rev, rfind, rposition, rfold) separated by 0..k adapters, every '
         'argument-less method (rev, enumerate, copied, flatten, count, next) given arguments at '
         'first/middle/last position, unsupported names (std methods and, thorough, two misspellings of each '
         'supported name), consumers inside adapter-only macros; parser_method! — 6 methods x {non-literal '
         'pattern kinds (const, variable, call, byte string, char, int, concat! of a const, `_` in an '
         'alternation; a const path, a non-concat/stringify macro call) x position — incl. every position '
         'of a `|` group that also holds an empty literal (`""`, `r""`, `concat!()`, `concat!("", "")`), in the '
         'first and in a later branch —, missing default (last branch with comma / block / neither), branches '
         'after the default}; destructure! — braced struct, tuple struct, tuple, array x path / '
         'field-pattern / module path / type form / generic / Self x type-annotated or not x const fn / fn x '
         '{Drop impl, Drop field (control), &, &mut, too few, too many, `..` at start/end, array rest '
         'patterns (control), empty patterns}. Each program is one rustc --emit=metadata run. A case counts '
         "as non-trivial when rustc's verdict is accept or reject (every compiled program; tool failures "
         'excluded); distinct = distinct (descriptor, kind) program.',
 'explanation': "Two rows per program: `prog` compares rustc's verdict + the guard messages found in stderr "
                "with the model's reasons; `prog.v` compares rustc's coarse verdict with what the property "
                'demands (invalid: reject, control: accept). A removed guard makes rustc accept a program '
                'the model rejects: the program source (path in the request, text in '
                'evidence.disagreeing_programs) is the replay.',
 'assumptions': ["rustc's accept/reject decision is observed per generated program, not proved",
                 'type-error wording is not compared, only compile_error! texts of /repo',
                 'the family is finite: shapes outside it (other field types, nested macro positions) are '
                 'not exercised']}
