"""registry entry of C16 (see vlib/registry.py)"""
PROP = {'level': 'proof',
 'claim': 'Proof: for every pair of values (no bound on lengths or magnitudes) the model of every eq_*/cmp_* '
          'function and of const_eq!/const_cmp!/const_eq_for!/const_cmp_for!/assertc_eq!/assertc_ne! never '
          'panics and equals the std specification: == is structural equality, cmp is Ord::cmp '
          '(lexicographic for slices/str by induction over the index loop with the U8Ordering code, None '
          'before Some, Less<Equal<Greater); cmp == Equal iff eq; the order laws (total, antisymmetric, '
          'transitive) are corollaries of cmp = lexicographic, never obligations of their own '
          '(Legacy/Cmp.lean proves the pre-fix length-first comparator satisfies all three laws and still '
          'differs from Ord::cmp on [2] vs [1,1]). One restriction is proved exactly: eq_rangeinc_* equals '
          '== iff the private `exhausted` flags agree (known finding F8). The model is tied to the code by '
          'an exhaustive small-scope differential run through every named function, '
          'CmpWrapper/coerce_to_cmp! dispatch and every comparator form of the *_for! macros, and by generated '
          'programs that use every macro as an expression (argument expressions with side effects: each evaluated '
          'once, left first, value = std on those values - as found assertc_*! evaluated the left argument twice, '
          'F10, fixed by e16d62f; non-tail positions under foreign return types).',
 'sources': [('harness', 'c16'), ('programs', 'c16')],
 'exhaustive': True,
 'rule': 'Exhaustive: all ordered pairs of slices over two 3-letter alphabets ({0,1,2} and {MIN,-1 or '
         'mid,MAX}) up to length 3 (thorough 4; bool: 2 letters up to length 4/6) for each of the 14 element '
         'types u8..u128,i8..i128,usize,isize,bool,char, through the named eq_slice_*/cmp_slice_* function, '
         'const_eq!/const_cmp!, and const_eq_for!/const_cmp_for!(slice;..) (default, key-closure, '
         'two-argument-closure and path comparators); all pairs of &[&str] / &[&[u8]] over {"","b","aa"} up '
         'to length 3; all pairs of strings over {a,b,n-tilde} up to length 3; all pairs of 7-9 boundary '
         'values (MIN,MIN+1,-2,-1,0,1,2,MAX/2,MAX/2+1,MAX-1,MAX) of every scalar and NonZero type; all pairs '
         'of Range/RangeInclusive over boundary bounds incl. start>end and iterator-exhausted inclusive '
         'ranges; Ordering; every None/Some combination through eq_option_*/cmp_option_*, '
         'const_eq!/const_cmp! on Options and const_*_for!(option;..); assertc_eq!/assertc_ne! under '
         'catch_unwind for scalars and str; the order laws evaluated on all triples of small scopes '
         '(cmp.laws); plus a seeded random stream of pairs of longer slices/strings sharing long common '
         'prefixes (1500-3000 per type quick, 20000-40000 thorough). A second seeded stream of LONG pairs '
         '(~8 600 / 86 000 requests): for every scalar element type 40 / 400 pairs of slices of 10..=40 '
         'elements sharing a long common prefix (one late change at index >= 8, often the last element; one '
         'a proper prefix of the other; a few more elements; equal) through eq/cmp fn/macro/for, a quarter '
         'also through forkey/forcl/forpath and a quarter as Some(..) through the Option functions; 300 / 3 '
         '000 pairs of strings of 10..=40 chars with many multi-byte characters differing late; 150 / 1 500 '
         'pairs each of &[&str] and &[&[u8]] of 10..=40 elements (short elements, and long elements that '
         'themselves share long prefixes). Generated programs (vlib/progs/c16.py, 376 units, 86 780 / 308 054 '
         'rows): every macro form (const_cmp!/const_eq! on u8, &[u8], &str, Option, Range, RangeInclusive; '
         'const_*_for!(slice|option|range|range_inclusive;..) with default, key, two-argument-closure and path '
         'comparators; assertc_eq!/assertc_ne!) (a) with argument expressions that advance a cursor or increment a '
         'counter, all ordered pairs of value streams of length 1-2 over 3-5 values plus seeded streams of length '
         '3-4, observing value, number of evaluations of each argument and their order against std ==/cmp/assert_eq! '
         'on the same expressions; (b) in the positions .reverse(), matches!(..,Less) in a const fn -> bool, == '
         'Ordering::Less, let + a second key with priority, if let in a const fn -> u8, match in a const fn -> i8, '
         'inside the caller\'s while loop, two lets, a closure returning String, const item initialisers (and !, if, '
         'match, loop, lets, closure, const items for the bool-valued macros), on all ordered pairs of 4-19 values per '
         'type; a position rustc rejects is the observation `reject`.',
 'explanation': 'Theorems (Props/C16.lean) state model = std spec for every pair; the transcript ties the '
                'model to the code (impl = model) and the spec to the real std (spec = oracle PartialEq::eq '
                '/ Ord::cmp) on every request.',
 'assumptions': ['values of integer types, bool (0/1) and char (scalar value) are modelled as mathematical '
                 'integers with the built-in ==, <, > being those of Int',
                 '&str is compared through its UTF-8 bytes (as_bytes)',
                 "assertc_*! on slices is not exercised (needs const_panic's non_basic feature, which konst "
                 'does not enable)']}
