"""registry entry of C11 (see vlib/registry.py)"""
PROP = {'level': 'proof',
 'claim': 'Proof (19 theorems, all closures as functions call-number x argument -> '
          'value|break|continue|return|panic, all lengths, all builder histories): the emitted loops of '
          'array::map!/from_fn! (by reference) and map_!/from_fn_! (ArrayConsumer+ArrayBuilder) equal '
          '<[T;N]>::map / core::array::from_fn for well-behaved closures; for ANY closure assume_init / '
          'build is reached only with every slot written by a closure value (the `ub` state of the model is '
          'unreachable), and the first early exit gives panic / divergence / return-from-caller, never an '
          "array; collect_const!'s length pass and fill pass agree and even with disagreeing passes the "
          'length==CAP assert excludes an unwritten slot; ArrayBuilder refines a bounded vector for every '
          'push/clone/clone_from/build/drop history, clone_from between two builders of any fill levels '
          'leaves the target an exact clone of the source and drops exactly the old target elements (the '
          'model is generic in the element type; zero-sized element types are exercised through the same '
          'model with count observations). That break/continue/return/panic have their Rust meaning inside '
          'the expansion is observed (generated programs), not proved. Part 2 (the macros as EXPRESSIONS, 17 '
          'theorems + generated programs): all four macros, with a closure literal or any other expression '
          "as closure argument, evaluate every argument expression once and in std's order (array first); a "
          'well-behaved closure is called once per element in index order with the element at that index; '
          'the expansions bind only mangled names (__konst_am_*, __konst_pc_*), so no caller variable, '
          'function, type, const, static or unit struct with an ordinary name can meet them (skeleton model '
          'of every identifier the expansions bind or declare, iff-theorems for every name); the expansions '
          'call their helpers by path, so no trait method of the caller can be picked. Findings made with '
          'this part and repaired in /repo: F11a (76ed0a3: method syntax let a caller `len` make '
          'map!/from_fn! return arrays with unwritten slots), F11b (5af8e6b: map_! evaluated a '
          'function-valued closure argument before the array), F11c (c6bef38: plain binder names clashed '
          'with caller consts); as-found definitions and witnesses in Legacy/ArrayEval.lean.',
 'sources': [('harness', 'c11'), ('programs', 'c11'), ('programs', 'c11x')],
 'exhaustive': True,
 'rule': 'Exhaustive: every ArrayBuilder history over {push, clone-keep-clone, clone-drop-clone} up to depth '
         '6 (quick) / 8 (thorough) ending in build or drop, capacities 0..=4 (+ fill/overfill runs on '
         'capacity 6), drop-logging elements; map!/from_fn!/map_!/from_fn_! x {Copy, drop-logging} x lengths '
         "0..=3 (quick) / 0..=4 (thorough) x {no exit, break, continue, continue-once, return, break 'outer, "
         "continue 'outer, panic} at every index, inside a fn (2 s cap) and as a const initialiser (lengths "
         '0,1,3; 8 s cap); collect_const! over 0..n (n<=4 quick / 5 thorough), with and without a filter, '
         'with break/continue/return/panic at every item. ZERO-SIZED elements (size_of::<[T;N]>() == 0, so '
         'only the element COUNT can protect build()): every builder history over the same alphabet up to '
         'depth 4 (quick) / 6 (thorough) with a zero-sized token observed as counts (created / dropped / '
         'moved tokens, lengths); map_!/from_fn_! with a zero-sized output token and every early exit at '
         'every index inside a fn, map!/from_fn! with the exits that cannot spin, and map_!/from_fn_! '
         'producing [(); N] as const initialisers (lengths 1,3); builder histories containing a clone whose '
         'element Clone panics on its j-th call (depth 4 / 5). Clone::clone_from between TWO builders '
         '(cur.clone_from(&t) and t.clone_from(&cur), t a second builder with m = 0..=N pushed values): '
         'every history over {push, the 2(N+1) clone_from forms} up to depth 3 (quick) / 4 (thorough) also '
         'mixed with plain clones, every (i pushes, clone_from with m = 0..=N+1, j pushes, build|drop) for '
         'capacities 0..=4 (selection on 6), with drop-logging and zero-sized elements and together with '
         'panicking-Clone clones; after each clone_from len / is_full / as_slice of the target and as_slice '
         'of the source; oracle: Vec with `a = b.clone()` (the documented meaning of clone_from). PART 2 '
         '(vlib/progs/c11x.py, 1 626 call sites; the 123 on which F11a/b/c showed are a regression corpus '
         'compiled and run FIRST in 4 chunks of their own, the others in 16 parallel chunks; a call site '
         'rustc rejects answers `reject`): (a) argument evaluation: map!/map_! x array-argument expressions '
         '{cursor call, counter block, the call inside if / match} x 21 closure forms (literal with / '
         'without parameter type, return type, mut, trailing comma, if / match bodies, tuple / struct / ref '
         'patterns over Copy and non-Copy elements, function path, module path, generic function, a function '
         'EXPRESSION with a side effect as call and as block, closure variable, move closure) x lengths '
         '0..=3 x 3 streams of arrays; from_fn!/from_fn_! x {no annotation, [u64; N] =>, [_; N] =>, _ =>, '
         '([u64; N]) =>} x 15 closure forms x lengths 0..=3; observed value | evaluations of the array and '
         'of the function expression | order of all events incl. every closure call (call number, argument); '
         'oracle: the same expressions handed to <[T;N]>::map / core::array::from_fn. (b) positions: '
         "indexed, summed, .len(), ==, as function argument, in a tuple, in a closure, in the caller's loop, "
         'in a generic const fn of another type, two invocations, nested as array argument, nested in the '
         'closure of each of the four macros, block / if / match as array argument, trailing comma, function '
         'paths, inferred lengths (let type, generic argument, ==), match bodies with `=>`, const / static '
         'initialisers (lengths 0, 1, 3); collect_const! as let / index / len / sum / const / &const / '
         'static / in const fn / in closure / twice / nested in itself / inside and around map! / in a '
         'generic fn. (c) names: the 12 plain identifiers the four expansions bound as found (array len out '
         'i input arr consumer builder elem mapped func __x) + 4 controls x {closure parameter, captured '
         'variable, array-argument variable, function called / passed as path / producing the array, const '
         'used / passed as path / in the length annotation, static, unit struct, type alias in the closure '
         'signature / annotation, module} x the four macros, and the 12 mangled binder names (__konst_am_*, '
         '__konst_pc_*; out of scope) x 7 forms; collect_const!: its 5 mangled items / generics, 9 bindings, '
         '6 controls x 8 declaration forms; verdict accept/reject and value. (d) methods: a caller trait '
         '(blanket or for arrays, &self or self receiver) with a method len (returning 0, 1, 2, 5) / next / '
         'push / build / infer_length_from_consumer / is_full / into_inner / to_right / reachability_hint x '
         'the four macros x lengths 0..=3, and as const initialisers; observed value (never-written slots '
         'shown as U, never read) | closure calls.',
 'explanation': 'Theorems (Props/C11.lean) are about the Lean model of the emitted loops; the transcripts '
                'tie the model to the code (real macros expanded by rustc, real ArrayBuilder) and the std '
                'reference to real std.',
 'assumptions': ['closure bodies are deterministic functions of (call number, argument); both const '
                 'evaluations of collect_const! see the same items (the two-stream theorem '
                 'collectConst_len_eq_fill does not need this)',
                 "rustc's handling of break/continue/return/panic inside the inlined closure body is "
                 'observed on generated programs, not modelled from the language definition',
                 "part 2: rustc's name resolution for macro_rules expansions (local variables and labels "
                 'hygienic; items, generic parameters, method names and traits in scope resolved at the call '
                 'site; the order of method probing) is encoded in the skeleton / probing model and tied to '
                 'rustc by the accept/reject and value transcripts, not derived from the language '
                 'definition']}
