"""registry entry of C11 (see vlib/registry.py)"""
PROP = {'level': 'proof',
 'claim': 'Proof (19 theorems, all closures as functions call-number x argument -> '
          'value|break|continue|return|panic, all lengths, all builder histories): the emitted loops of '
          'array::map!/from_fn! (by reference) and map_!/from_fn_! (ArrayConsumer+ArrayBuilder) equal '
          '<[T;N]>::map / core::array::from_fn for well-behaved closures; for ANY closure assume_init / '
          'build is reached only with every slot written by a closure value (the `ub` state of the model is '
          'unreachable), and the first early exit gives panic / divergence / return-from-caller, never an '
          "array; collect_const!'s length pass and fill pass agree and even with disagreeing passes the "
          'length==CAP assert excludes an unwritten slot; ArrayBuilder refines a bounded vector for every '
          'push/clone/clone_from/build/drop history, clone_from between two builders of any fill levels '
          'leaves the target an exact clone of the source and drops exactly the old target elements '
          '(the model is generic in the element type; zero-sized element types '
          'are exercised through the same model with count observations). That break/continue/return/panic '
          'have their Rust meaning inside the expansion is observed (generated programs), not proved.',
 'sources': [('harness', 'c11'), ('programs', 'c11')],
 'exhaustive': True,
 'rule': 'Exhaustive: every ArrayBuilder history over {push, clone-keep-clone, clone-drop-clone} up to depth '
         '6 (quick) / 8 (thorough) ending in build or drop, capacities 0..=4 (+ fill/overfill runs on '
         'capacity 6), drop-logging elements; map!/from_fn!/map_!/from_fn_! x {Copy, drop-logging} x lengths '
         "0..=3 (quick) / 0..=4 (thorough) x {no exit, break, continue, continue-once, return, break 'outer, "
         "continue 'outer, panic} at every index, inside a fn (2 s cap) and as a const initialiser (lengths "
         '0,1,3; 8 s cap); collect_const! over 0..n (n<=4 quick / 5 thorough), with and without a filter, '
         'with break/continue/return/panic at every item. ZERO-SIZED elements (size_of::<[T;N]>() == 0, so '
         'only the element COUNT can protect build()): every builder history over the same alphabet up to '
         'depth 4 (quick) / 6 (thorough) with a zero-sized token observed as counts (created / dropped / '
         'moved tokens, lengths); map_!/from_fn_! with a zero-sized output token and every early exit at '
         'every index inside a fn, map!/from_fn! with the exits that cannot spin, and map_!/from_fn_! '
         'producing [(); N] as const initialisers (lengths 1,3); builder histories containing a clone whose '
         'element Clone panics on its j-th call (depth 4 / 5). Clone::clone_from between TWO builders '
         '(cur.clone_from(&t) and t.clone_from(&cur), t a second builder with m = 0..=N pushed values): every '
         'history over {push, the 2(N+1) clone_from forms} up to depth 3 (quick) / 4 (thorough) also mixed '
         'with plain clones, every (i pushes, clone_from with m = 0..=N+1, j pushes, build|drop) for '
         'capacities 0..=4 (selection on 6), with drop-logging and zero-sized elements and together with '
         'panicking-Clone clones; after each clone_from len / is_full / as_slice of the target and as_slice '
         'of the source; oracle: Vec with `a = b.clone()` (the documented meaning of clone_from).',
 'explanation': 'Theorems (Props/C11.lean) are about the Lean model of the emitted loops; the transcripts '
                'tie the model to the code (real macros expanded by rustc, real ArrayBuilder) and the std '
                'reference to real std.',
 'assumptions': ['closure bodies are deterministic functions of (call number, argument); both const '
                 'evaluations of collect_const! see the same items (the two-stream theorem '
                 'collectConst_len_eq_fill does not need this)',
                 "rustc's handling of break/continue/return/panic inside the inlined closure body is "
                 'observed on generated programs, not modelled from the language definition']}
