"""registry entry of C07 (see vlib/registry.py)"""
PROP = {'level': 'proof',
 'claim': 'Proof: encode_utf8 (with its shifts, masks and `as u8` truncations) equals the RFC 3629 encoding '
          'for every char; string_to_usv inverts it for all four lengths; from_u32 succeeds exactly on '
          'scalar values; and for every valid string and EVERY front/back history Chars, CharIndices and '
          "their .rev() twins yield exactly the items of std's double-ended iterators (a deque of chars / "
          '(offset, char) pairs), never panic, and as_str is the encoding of what std has left, positioned '
          'at the first remaining character (10 theorems by induction via a generic deque refinement, no '
          'bound on string length or history depth). The model is tied to the code by complete enumeration '
          '(thorough) / dense sampling (quick) of chars and u32s and exhaustive small-scope string x history '
          'runs.',
 'sources': [('harness', 'c07')],
 'exhaustive': True,
 'rule': 'encode_utf8: every char (thorough: all 1 112 064; quick: every 17th code point plus the 12 range '
         'edges +-2); from_u32: every n in 0..0x120000 (thorough) / every 17th (quick) plus edges +-2 and '
         '0x110000, 0x1FFFFF, 0x200000, 2^31-1, 2^31, 2^32-2, 2^32-1. Iterators: every string over {a, '
         'n-tilde, euro sign, U+1F600} with at most 5 (quick) / 6 (thorough) characters x every front/back '
         'history of depth 7 / 8 (each step observed, so all shorter histories are covered) for chars and '
         'char_indices, reversed twins on strings one character shorter; every string of at most 2 / 3 '
         'characters over 9 extreme characters x all depth-4 histories x 4 iterator kinds; 2000 / 20000 '
         'seeded random strings (up to 11 random scalar values) with random histories of depth up to 15. '
         'Each step is taken on a .copy(); after each step the item and the position/length of as_str are '
         'observed. A second seeded stream (~5 500 / 55 000 requests): 260 / 2 600 strings of 10..=40 random '
         'scalar values from the whole range (edge scalars over-represented) x 4 iterator kinds under one '
         'random history of 12..=60 steps (usually longer than the string: exhaustion is crossed) with a '
         'random front/back bias; 2 000 / 20 000 from_u32 requests over the whole 32-bit range (uniform, '
         'surrogate neighbourhood, valid scalar + one high garbage bit, multiples of 0x110000 away from a '
         'scalar, top bit set); 2 500 / 25 000 random chars for encode_utf8.',
 'explanation': 'Theorems (Props/C07.lean) state model = RFC 3629 / deque spec for all chars, all u32, all '
                'valid strings and all histories; the transcript ties the model to konst::chr::{encode_utf8, '
                'from_u32}, konst::string::{chars, char_indices} and the spec to char::encode_utf8, '
                'char::from_u32, str::chars / char_indices (+ rev, as_str).',
 'assumptions': ['usize is 64 bits wide',
                 'a &str argument is valid UTF-8 (a Rust invariant)',
                 "konst's `debug` feature is off (string_to_usv's fall-through arm is proved unreachable on "
                 'valid strings)']}
