"""registry entry of C04 (see vlib/registry.py)"""
PROP = {'level': 'proof',
 'claim': 'Proof: for every haystack and every pattern (byte lists of any length) the model of __bytes_find '
          'returns the LEAST offset at which the pattern occurs and the model of __bytes_rfind (non-empty '
          'pattern) the GREATEST, None exactly when the pattern does not occur; an empty pattern is found at '
          '0; contains/rcontains, find_skip/find_keep/rfind_skip/rfind_keep and split_once/rsplit_once are '
          'the take/drop at that offset (views inside the haystack); split_once/rsplit_once never panic on '
          'valid UTF-8 arguments (15 theorems, by loop invariants + induction, no bound on lengths). The '
          'model (window-by-window search of commit 116b24e) is tied to the code by an exhaustive '
          'small-scope differential run through the public generic functions with all four pattern kinds; '
          "std's str::find/rfind/contains/split_once/rsplit_once and a naive windowed search are the oracle. "
          'Legacy/Find.lean keeps the pre-fix matcher with find_sound and the kernel-checked counterexample '
          '(no obligation).',
 'sources': [('harness', 'c04')],
 'exhaustive': True,
 'rule': 'Exhaustive: every haystack over {a,b} of length 0..=8 (thorough 0..=11) x every needle over {a,b} '
         'of length 0..=4 (thorough 0..=5; empty and longer-than-haystack included) x every pattern kind the '
         'needle can be passed as ([u8], [u8;N], str, char) x 8 byte-slice functions and 10 str functions; '
         'every str over {a, n-tilde} up to 5 (6) chars x str/char needles up to 3 chars and byte needles '
         'cutting characters apart; 3- and 4-byte chars as char/str needles; the inputs that failed before '
         '116b24e first (aaab/aab, aaabaab/aab, abbb/abb); then 3000 (20000) seeded random haystacks up to '
         '200 letters with planted needles and near misses. Reverse searches with an empty pattern are '
         'tagged out of scope. A second seeded stream of LARGE cases (240 / 2 400 cases, ~3 900 / 39 000 '
         'requests): haystacks of 20..=200 letters over {a,b}, {a,b,c,d}, all 256 byte values (byte-slice '
         'functions only), {a, n-tilde, euro, emoji} and random scalar values; needles of 5..=24 letters, '
         'random or periodic (unit of 1..3 letters repeated, optionally with a different last/first letter), '
         'planted 0..=3 times (very start, very end, anywhere, overlapping the previous copy by a multiple '
         'of the period) into a random or periodic filler, near misses at the ends, needles longer than the '
         'haystack; one-character needles (char kind) in long strings; array patterns up to [u8; 24].',
 'explanation': 'Theorems (Props/C04.lean) state model = least/greatest-offset specification for all inputs; '
                'the transcript ties the model to the code (impl vs model) and the specification to the real '
                'std (spec vs oracle); pattern normalisation (str/char/[u8]/[u8;N] -> bytes) is covered by '
                'calling the real generic functions with real values of each kind while the model works on '
                'the bytes.',
 'assumptions': ['usize is 64 bits wide',
                 'slice lengths do not exceed isize::MAX (a Rust invariant)',
                 "char patterns: the bytes of chr::encode_utf8 are those of std's encode_utf8 (checked on "
                 "every char request by the harness; the encoder itself is another property's model)",
                 'debug-feature assertions of __from_u8_subslice_of_str are not modelled']}
