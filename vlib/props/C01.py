"""registry entry of C01 (see vlib/registry.py)"""
PROP = {'level': 'proof',
 'claim': 'Proof (partial). PROVED, for all inputs (Props/C01.lean + the cited theorems of C02-C05, C07): '
          'the guards that make the unsafe blocks sound. For every valid UTF-8 haystack and every valid '
          'pattern (&str or char; no bound on lengths) each str-returning function of konst::string '
          '(find_skip/keep, rfind_skip/keep, strip_prefix/suffix, trim*, trim_*matches, split_once, '
          'rsplit_once, str_from/up_to/range, get_*, split_at) returns a view that lies inside the argument, '
          'starts and ends on char boundaries of the argument, and denotes valid UTF-8 (the safety comment of '
          'string.rs as a theorem); for all lengths and all indices < 2^64 every raw-parts view of the slice '
          'functions is in bounds, the ptr.offset(start as _) cast is lossless, split_at_mut halves are '
          'disjoint and cover, as_chunks arithmetic arrs_len*N + rem = len, try_into_array only when len = N; '
          'from_u32 transmutes only scalar values; encode_utf8 hands out a valid one-char string of len <= 4. '
          'The model is tied to the code by a differential run over every safe public slice/str-returning '
          'function. OBSERVED, not proved (support only): absence of UB in Rust\'s abstract machine - the same '
          'operations are evaluated by rustc\'s const evaluator inside generated const items (error[E0080] on '
          'out-of-bounds pointer arithmetic, invalid char/&str, uninitialised reads) and, thorough tier, the '
          'harness family is re-run under Miri. NOT COVERED: provenance/aliasing of the &mut results beyond '
          'what Miri sees on the sampled inputs, the repr(C) cast in ArrayBuilder::build, union transmutes, '
          'the cstr pointer walk (relies on CStr\'s invariant), ptr::is_null/nonnull on dangling pointers, drop '
          'glue; array macros / ArrayBuilder / ArrayConsumer init counters are C11/C15\'s theorems.',
 'sources': [('harness', 'c01'), ('programs', 'c01'), ('harness', 'c15'), ('programs', 'c15'), ('harness', 'c11'), ('programs', 'c11')],
 'exhaustive': True,
 'rule': 'Also runs the C15 drop-ledger histories of ArrayConsumer/ArrayBuilder (a double drop or a drop of a never-written slot is UB) and the C11 array-macro rows (closures that break/continue/return/panic at every index: an array handed back after fewer than N writes is a read of uninitialised memory; added after seeded change C01-r4-1). Exhaustive small scopes: every slice length 0..=L (L=6 quick, 10 thorough) x every index / index '
         'pair from 0..=len+2 plus isize::MAX, isize::MAX+1, usize::MAX-1, usize::MAX x every slice function '
         '(shared and _mut, as_chunks/as_rchunks/array_chunks/try_into_array with N in 0..=4) x element types '
         'u8, u32, (), String; every string over {a, n-tilde, euro, emoji} (1-4 byte chars) with <= 4 chars '
         '(5 thorough) x every needle with <= 2 chars x pattern kinds str and char x every str pattern '
         'function and the four split iterators (items and remainders); every index / index pair as above '
         'for the slicing functions; byte-slice pattern functions with whole and PARTIAL characters as '
         'needles through all four kinds (str, char, [u8], [u8;N]); ASCII trimming over words of '
         'whitespace/non-whitespace/multi-byte letters; chars/char_indices/rev under all-front, all-back and '
         'alternating histories; encode_utf8/from_u32 at all range boundaries plus a seeded sample; '
         'cstr::to_bytes/to_bytes_with_nul/to_str and from_utf8 over all byte words <= 4 over {a, c3 b1, ff, 00}. '
         'Programs: one generated program of const items per group (see ub.const rows), each must compile.',
 'explanation': 'Each harness row records the views the real function returned (relative to its argument; '
                'v:OUTSIDE if a non-empty result is not inside it) and the flags in/utf8/bnd/sc measured with '
                'std (pointer range, core::str::from_utf8, str::is_char_boundary, char::from_u32). The oracle '
                'is the same payload with every flag true (the property); the model column is the view the '
                'Lean model predicts plus the flags the model\'s own definitions give (proved true). '
                'ub.const rows: rustc\'s verdict on a generated program of const items (expected accept); '
                'ub.miri rows (thorough): verdict of Miri on the harness family (expected clean).',
 'assumptions': ['usize is 64 bits wide', 'slice lengths do not exceed isize::MAX (a Rust invariant)',
                 '&str arguments are valid UTF-8 (a Rust invariant): theorems quantify over encs cs for scalar cs',
                 'absence of UB in the abstract machine is observed under interpreters on the sampled inputs, not proved',
                 'konst built with features rust_1_83, debug off (the debug-only assertions of __from_u8_subslice_of_str are not modelled)'],
 'trusted_extra': ['rustc const evaluator and nightly Miri as implementation-side observers (support, not proof)']}
