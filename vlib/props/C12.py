"""registry entry of C12 (see vlib/registry.py)"""
PROP = {'level': 'proof',
 'claim': 'Proof: for every integer type of at least 4 bits (so u8..u128, usize, i8..i128, isize at once), '
          "both signednesses and every byte string of any length, the model of parse_integer! (optional '-', "
          'first digit, overflowing_mul(10) | overflowing_add(digit) in the unsigned twin with wrap-around '
          'modulo 2^bits, MAX_POS/MAX_NEG comparison, wrapping_neg) equals the reference: whole-string '
          "parsing = str::parse on strings without a leading '+', prefix parsing = optional '-' (signed "
          'only) + longest ASCII digit run with the exact value in range, returning the unconsumed rest; the '
          'overflow flags fire exactly when the exact value exceeds 2^bits-1; a failed parse reports the '
          'unchanged parser (nothing consumed); parse_bool = str::parse::<bool> (12 theorems, induction over '
          'the byte list). The model is tied to the code by a differential run over all 13 types: every '
          'value of the 8/16-bit types, all short strings over an 8-letter alphabet, MIN/MAX/wrap-point '
          'neighbourhoods with extra digits, leading zeros and suffixes, and a seeded random stream.',
 'sources': [('harness', 'c12')],
 'exhaustive': True,
 'rule': 'Exhaustive: every string of at most 4 letters (5 for u8/i8; thorough: 5, and 6 for u8/i8/i64/u128) '
         'over {0,1,9,-,+,a,space,U+0663} for all 12 integer types, whole-string and prefix form (and with '
         'start offsets 0/7 and both initial directions up to 3 (thorough 4) letters); every value of '
         'u16/i16 and 300 beyond each end printed plainly (leading zeros: every third value quick, all '
         'thorough) and -400..=400 in four forms for all types; for every type 22 centres (0, +-2^bits, '
         '+-2^(bits-1), 2*2^bits, +-10*2^bits, +-MAX/10, powers of ten) x delta -2..=2 x 16-20 forms (plain, '
         "1/3/40 leading zeros, one extra digit behind (0-9) or in front (1,9), negated, '+', '-+', '--') x "
         'suffixes from 14; bool: all words of at most 3 (thorough 4) letters over '
         '{true,false,t,e,T,1,space,e-acute} and every single-byte insertion/replacement/deletion/swap of '
         'true/false/truefalse/falsetrue; then 40 000 (thorough 400 000) seeded random digit strings, '
         "multiples of 2^bits plus a small rest, and mixed-alphabet strings. Strings with a leading '+' are "
         'emitted out of scope for the whole-string form. A second seeded stream of LONG / RARE numerals (~5 '
         "500 / 55 000 requests, every integer type): digit strings of 1..=45 digits with and without '-', "
         '0..=30 leading zeros, narrow bands (+-3) around 10^k for k up to 44, bands (+-2 and +-20) around '
         "MAX/10, MAX/10*10, MIN/10, MIN/10*10, MAX, MIN and the unsigned twin's, each whole and with a "
         'random suffix (pparse; every 6th pparse_at, every 9th pwith).',
 'explanation': 'Theorems (Props/C12.lean) state model = reference for every byte list and every bit width '
                '>= 4; the transcript ties the model to the real konst functions (primitive::parse_*, '
                'Parser::parse_*, StdParser::parse_with, parse_with!) and the reference to the real '
                'str::parse (for the prefix form: str::parse applied to the piece the documented rule '
                'consumes, cross-checked in the harness against a checked-u128 computation).',
 'assumptions': ['usize/isize are 64 bits wide',
                 'Parser start_offset + string length stays below 2^32 (offsets are u32 in the code, '
                 'naturals in the model)',
                 'integer types have at least 4 bits (the digit cast `as $uns` is lossless); kernel-checked '
                 'counterexample for 3 bits in Props/C12.lean']}
