"""registry entry of C19 (see vlib/registry.py)"""
PROP = {'level': 'proof',
 'claim': 'Proof: for every Option/Result value and every closure argument (arbitrary total functions) the '
          'model of each option::/result:: macro arm returns the value of the std method of the same name '
          "and leaves the call counter where std's number of calls puts it (fallback evaluated iff None/Err, "
          'mapper iff Some/Ok, eager `(e, v)` forms exactly once); try_!/try_opt! followed by any '
          'continuation equal `?`; the token-level tuple walker of try_rebind!/rebind_if_ok! emits, for '
          'every pattern list of length 1..=6 over place / let / typed let / `_`, exactly one assignment per '
          'component, in order (a single pattern takes the whole payload), rejects 0 and more than 6 '
          'patterns, and the macros then equal `let (..) = r?` / `if let Ok((..)) = r`; '
          'min!/max!/min_by!/max_by!/min_by_key! equal std::cmp for every comparator, max_by_key! for every '
          'antisymmetric key comparison, ties included; the emitted assignments come in component order and, '
          'run on any store with any place resolution, equal the sequence `p0 = t.0; p1 = t.1; ...` '
          '(38 theorems). The model is tied to the code by '
          'generated Rust programs that expand the real macros: every macro x argument form x both variants '
          "x boundary payloads, rebind patterns of every arity with rustc's accept/reject verdict, all key "
          'pairs for min/max.',
 'sources': [('programs', 'c19')],
 'exhaustive': True,
 'rule': 'Exhaustive over the stated grid: every option::/result:: macro x every accepted argument form '
         '(closure literal, function path, closure variable; eager value) x {None/Some, Ok/Err} x payloads '
         '{0,-1,1,5,i32::MAX,i32::MIN} (+26 more values thorough), with a call counter; try_! (plain, '
         'map_err=|e|, map_err=| |) and try_opt!; try_rebind!/rebind_if_ok! with ALL 4^k kind vectors over '
         '{place, let, typed let, _} for k<=4 (k<=5 thorough) and a seeded sample covering every kind at '
         'every position for larger k up to 6 (32 each for k=5,6 quick; 400 for k=6 thorough; per macro), '
         'two Ok payloads + Err, plus expression places, typed `_`, typed places, bare single patterns, '
         'trailing commas, rebind_if_ok! without code, order-observing pattern lists for every arity 2..=6 '
         '(places that index through / repeat / shadow a variable another component assigns: 12 conflict kinds '
         'at rotating position pairs, triples and chains; 237 units quick, 910 thorough) compared with the '
         'hand-written assignment sequence, and the out-of-scope shapes (0 or 7 patterns, '
         "more/fewer patterns than components) with rustc's verdict; min!/max!/_by/_by_key in every closure "
         'form x all ordered pairs of keys from {i64::MIN,-1,0,1,i64::MAX} (+17 keys thorough) with '
         'distinguishable identity.',
 'explanation': 'Theorems (Props/C19.lean) state model = std spec for all values and all closures; the '
                "generated programs expand the real macros of /repo's working tree next to the std method / "
                'a hand-written match / `?` in the same program, and the compiled Lean driver evaluates the '
                "same model and spec definitions on every printed request. rustc's accept/reject verdict per "
                "rebind unit is compared with the model's (walker expands and type-checks).",
 'assumptions': ['closure arguments are modelled as total functions whose only observable effect is being '
                 'called (a call counter); evaluation ORDER of several side-effecting arguments is not '
                 'modelled (max_by_key! evaluates its second argument and its key first)',
                 "rustc's macro matching and type checking of the emitted statements is a verdict table in "
                 'the model (stmtOk), validated by compiling each rebind shape',
                 'max_by_key! equals std only for key types whose comparison is antisymmetric (every Ord / '
                 'ConstCmp implementation that is lawful)']}
