"""registry entry of C19 (see vlib/registry.py)"""
PROP = {'level': 'proof',
 'claim': 'Proof: for every Option/Result value and every closure argument (arbitrary total functions) the '
          'model of each option::/result:: macro arm returns the value of the std method of the same name '
          "and leaves the call counter where std's number of calls puts it (fallback evaluated iff None/Err, "
          'mapper iff Some/Ok, eager `(e, v)` forms exactly once); try_!/try_opt! followed by any '
          'continuation equal `?`; the token-level tuple walker of try_rebind!/rebind_if_ok! emits, for '
          'every pattern list of length 1..=6 over place / let / typed let / `_`, exactly one assignment per '
          'component, in order (a single pattern takes the whole payload), rejects 0 and more than 6 '
          'patterns, and the macros then equal `let (..) = r?` / `if let Ok((..)) = r`; '
          'min!/max!/min_by!/max_by!/min_by_key! equal std::cmp for every comparator, max_by_key! for every '
          'antisymmetric key comparison, ties included; the emitted assignments come in component order and, '
          'run on any store with any place resolution, equal the sequence `p0 = t.0; p1 = t.1; ...` '
          '(38 theorems). As functions of their argument EXPRESSIONS (computations with arbitrary side effects): '
          "the Option/Result expression and the eager second argument are evaluated exactly once, in std's order; "
          'with a closure literal / path / variable every macro equals the std method call including when the '
          'closure body runs; try_!/try_opt!/the rebind macros evaluate their argument once; min!/max!(_by(_key)) '
          'evaluate each argument once (33 theorems, Props/C19Eval.lean). The model is tied to the code by '
          'generated Rust programs that expand the real macros: every macro x argument form x both variants '
          "x boundary payloads, rebind patterns of every arity with rustc's accept/reject verdict, all key "
          'pairs for min/max.',
 'sources': [('programs', 'c19')],
 'exhaustive': True,
 'rule': 'Exhaustive over the stated grid: every option::/result:: macro x every accepted argument form '
         '(closure literal, function path, closure variable; eager value) x {None/Some, Ok/Err} x payloads '
         '{0,-1,1,5,i32::MAX,i32::MIN} (+26 more values thorough), with a call counter; try_! (plain, '
         'map_err=|e|, map_err=| |) and try_opt!; try_rebind!/rebind_if_ok! with ALL 4^k kind vectors over '
         '{place, let, typed let, _} for k<=4 (k<=5 thorough) and a seeded sample covering every kind at '
         'every position for larger k up to 6 (32 each for k=5,6 quick; 400 for k=6 thorough; per macro), '
         'two Ok payloads + Err, plus expression places, typed `_`, typed places, bare single patterns, '
         'trailing commas, rebind_if_ok! without code, order-observing pattern lists for every arity 2..=6 '
         '(places that index through / repeat / shadow a variable another component assigns: 12 conflict kinds '
         'at rotating position pairs, triples and chains; 237 units quick, 910 thorough) compared with the '
         'hand-written assignment sequence, and the out-of-scope shapes (0 or 7 patterns, '
         "more/fewer patterns than components) with rustc's verdict; min!/max!/_by/_by_key in every closure "
         'form x all ordered pairs of keys from {i64::MIN,-1,0,1,i64::MAX} (+17 keys thorough) with '
         'distinguishable identity. Argument-evaluation programs (ev.*): every macro form with side-effecting '
         'argument expressions (`pop(&mut cursor)` and `{ k += 1; v[k-1] }`), all value streams of length 1-2 over 3-4 '
         'values (+2 longer) x default streams [7], [7,8]; closure literals that capture and mutate; function-valued '
         'argument expressions with an effect; observed value | evaluation counts (in scope) and order (out of scope) '
         'against the std expression given the same argument expressions (116 units, 1956+1956 requests). Position / '
         'name programs (hy.*): every option::/result:: form with a trailing comma, and rotating over the forms (all of '
         'them in the thorough tier): block / if / match arguments, operator / function-argument / match-scrutinee '
         "position, inside the caller's loop, inside a closure, nested in other macros, in a const fn of another "
         'return type, in const items; caller variables, closure parameters, function variables and function items '
         'named like every identifier the expansion binds; caller const / static / unit struct of those names; '
         'generic / associated / module-path function arguments; the same for try_!, try_opt!, the rebind macros and the '
         'six min/max macros (508 units quick, 775 thorough); the two call sites of F19 are regression rows that come first.',
 'explanation': 'Theorems (Props/C19.lean) state model = std spec for all values and all closures; the '
                "generated programs expand the real macros of /repo's working tree next to the std method / "
                'a hand-written match / `?` in the same program, and the compiled Lean driver evaluates the '
                "same model and spec definitions on every printed request. rustc's accept/reject verdict per "
                "rebind unit is compared with the model's (walker expands and type-checks).",
 'assumptions': ['in the value theorems closure arguments are total functions whose only observable effect is being '
                 'called (a call counter); the evaluation theorems (Props/C19Eval.lean) take arbitrary logging '
                 'computations. Evaluation ORDER and the evaluation of a function-VALUED argument expression are '
                 "modelled and compared but OUT of the property's scope: max_by_key! evaluates its second argument "
                 'first, min_by_key! keys its first argument first (std 1.95 the second), a function argument of '
                 'min_by!/max_by!/min_by_key!/max_by_key! is evaluated before the two values, and a function-valued '
                 'expression given to unwrap_or_else!/ok_or_else!/result::* is evaluated only in the arm that calls it',
                 'a caller const / static / unit struct named like an identifier pattern of an expansion (x, value, '
                 'param, e, tuple, _e, left, right, left_key, right_key, __konst_pc_func, __konst_pc_x, __konst_pc_y) is '
                 'a compile error and as such out of scope (as in C20); such a program that COMPILES is in scope and must '
                 'equal std (F19, fixed by a6790b3: option::filter! and rebind_if_ok! now match exhaustively)',
                 "rustc's macro matching and type checking of the emitted statements is a verdict table in "
                 'the model (stmtOk), validated by compiling each rebind shape',
                 'max_by_key! equals std only for key types whose comparison is antisymmetric (every Ord / '
                 'ConstCmp implementation that is lawful)']}
