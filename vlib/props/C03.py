"""registry entry of C03 (see vlib/registry.py)"""
PROP = {'level': 'proof',
 'claim': 'Proof: for every valid UTF-8 string (bytes = encoding of any list of scalar values) and every '
          'index / index pair (any natural number, start > end and beyond-the-length included) the model of '
          'is_char_boundary, get_from/get_up_to/get_range, str_from/str_up_to/str_range and split_at equals '
          "std's str::is_char_boundary / str::get / clamped indexing, panics exactly when an in-range index "
          'is inside a character, and every returned view lies inside the argument and is valid UTF-8 (14 '
          'theorems over the RFC 3629 reference, no bound on length). The model is tied to the code by an '
          'exhaustive small-scope differential run.',
 'sources': [('harness', 'c03')],
 'exhaustive': True,
 'rule': 'Exhaustive: every string over {a, n-tilde, euro sign, U+1F600} with at most 4 (quick) / 6 '
         '(thorough) characters and every string over 9 characters with extreme lead/continuation bytes '
         '(U+7F, U+80, U+7FF, U+800, U+D7FF, U+E000, U+FFFF, U+10000, U+10FFFF) with at most 2 / 3 '
         'characters x every index and every index pair from 0..=len+2 plus usize::MAX (start > end '
         'included) x all 8 functions; plus 300 / 3000 seeded random strings of up to 8 / 13 random scalar '
         'values with the same index sets. A second seeded stream (28 / 280 strings, ~6 000 / 60 000 '
         'requests): strings of 10..=60 random scalar values of all four encoded lengths (edge scalars and '
         'continuation bytes 80/BF over-represented), each with 9 indices (char boundaries, positions inside '
         'characters, late positions, len, len+1..3, and a huge one: usize::MAX, isize::MAX(+1), random >= '
         '2^62) and all 81 index pairs.',
 'explanation': 'Theorems (Props/C03.lean) state model = std spec for every valid string and every index; '
                'the transcript ties the model to the code (konst::string::*) and the spec to the real std '
                '(str::get, is_char_boundary, indexing and split_at with panics caught).',
 'assumptions': ['usize is 64 bits wide',
                 'string lengths do not exceed isize::MAX (a Rust invariant)',
                 'a &str argument is valid UTF-8 (a Rust invariant)',
                 "konst's `debug` feature is off (with it on, __from_u8_subslice_of_str adds assertions that "
                 'never fire on these inputs)']}
