"""registry entry of C14 (see vlib/registry.py)"""
PROP = {'level': 'proof',
 'claim': 'Proof: for every parser state and argument, a successful Parser operation leaves the remainder that '
          'the free function it delegates to (string::strip_*, trim*, trim_*matches, find_skip, rfind_skip, '
          'split_once, rsplit_once, find_keep, the integer/bool prefix parsers) computes from the previous '
          'remainder (op_remainder_eq_fn, all 17 operations that have a free counterpart), fails exactly when '
          'that function finds nothing resp. when the one-shot flag / empty-remainder rule says so '
          '(op_fails_iff_fn_none), and on failure returns an error built from the untouched parser and no new '
          'parser (fail_returns_no_parser). Protocols, for every &str remainder and every non-empty &str/char '
          'delimiter, by induction on the length: iterating split / rsplit yields exactly the pieces of '
          'str::split / str::rsplit (splitSpec / rsplitSpec) followed by SplitExhausted; iterating '
          'split_terminator / rsplit_terminator yields each piece that is followed / preceded by a delimiter '
          '(all but the last) and then fails; flag_interaction / flag_history: operations outside the split '
          'family never change the flag, the flag is only ever set together with an empty remainder, and once '
          'set all five split methods report SplitExhausted (9 theorems). What the free functions themselves '
          'compute is proved in C04/C05/C12. The model is tied to the code on the same histories as C13; the '
          'oracle is the chain of the real free functions konst::string::* (and str::parse / '
          'str::is_char_boundary for parse_*/skip*) applied to the previous remainder, and str::split / '
          'str::rsplit for the protocols.',
 'sources': [('harness', 'c14')],
 'exhaustive': True,
 'rule': 'Histories: the same generator as C13 (every single operation out of 86 x every string of at most 5 '
         '(thorough 6) letters over {space, comma, a, U+00F1, 1} x bases {0,7}; every ordered pair of operations x '
         'every string of at most 3 (thorough 4) letters; sampled triples (thorough: and quadruples) for strings '
         'of at most 4 (thorough 5) letters; 25 000 (thorough 120 000) seeded random histories of length 12 '
         '(thorough 30) over a richer alphabet with 8 further patterns and all 12 integer types); per step the '
         'view of the new remainder inside the previous one, the returned value (piece view / integer / bool) or '
         'the ErrorKind. Protocols: every string of at most 6 (thorough 8) letters over {comma, a, U+00F1, space} '
         'x delimiters {",", comma as char, U+00F1 as char, "a,", ",,", "ab", ",a,"} x the four split methods '
         'iterated to the error, plus 8 000 (thorough 60 000) random string/delimiter pairs.',
 'explanation': 'Theorems (Props/C14.lean) relate every Parser method of the model to the modelled free function '
                'it calls and prove the four protocols against splitSpec/rsplitSpec for all inputs; the '
                'transcript ties the model to the real Parser methods and the reference '
                '(Spec/ParserRef.lean: std-level specifications of the free functions chained over the '
                'remainder, Spec/ParserSplit.lean) to the real konst::string functions and to str::split / '
                'str::rsplit.',
 'assumptions': ['the original string and all patterns are &str/char values, i.e. valid UTF-8 (a Rust invariant)',
                 'protocol theorems: non-empty delimiter (with an empty delimiter split never terminates; such '
                 'calls are still covered step by step in the histories)',
                 'what the free functions compute (first/last occurrence, std strip/trim, prefix parse) is the '
                 'subject of C04/C05/C12, whose theorems these build on',
                 'usize is 64 bits wide']}
