"""registry entry of C20 (see vlib/registry.py)"""
PROP = {'level': 'proof',
 'claim': 'Proof: for every list of strs/chars and every str/char separator the model of '
          'str_concat!/str_join!/string::from_iter!/slice_concat! (length pass, then index-checked fill of a '
          '[0; LEN] buffer, then from_utf8) returns exactly List.flatten / List.intercalate of the pieces, '
          "with no out-of-bounds write, no filler byte left and valid UTF-8; the CStr constructors' model "
          'succeeds exactly when the first nul is (until_nul: exists / with_nul: the last byte) and returns '
          'the same CStr as std; the pointer walk of to_bytes_with_nul stays inside the CStr. All by '
          'induction, no bound on lengths. The model is tied to the code by generated constant programs (all '
          'lists of 0..=4 pieces) and a complete small-scope CStr run.',
 'sources': [('harness', 'c20'), ('programs', 'c20')],
 'exhaustive': True,
 'rule': "CStr: every byte string over {0x00,'a',0xFF} up to length 7 (11 thorough), every word of up to 4 "
         '(5) letters over 9 whole/broken UTF-8 sequences incl. nul, plus 3000 (20000) seeded random strings '
         'up to length 39; x 6 operations. Macros: every list of 0..=4 (5 thorough) pieces over {a, n-tilde, '
         'emoji, empty} (chars: {a, n-tilde, emoji, euro}, plus the boundary scalar values of every encoded '
         'length) for str_concat!, every list of 0..=4 pieces x 6 str + 4 char separators for str_join! '
         '(4-piece lists x 3 separators in quick, all in thorough), argument forms const slice / const array '
         'ref / inline literal / non-promotable fn call / by-ref separator / literal [] arm, slice_concat! '
         'over every shape of 0..=3 (4) pieces of length 0..=3 for u8 (u16, i64, (), &str smaller), '
         'string::from_iter! over 14 iterator chains on every list of 0..=3 (4) items plus char ranges '
         'crossing every encoded-length boundary and the surrogate gap. Additionally the phase functions '
         '(concat_sum_lengths, concat_strs::<N>, join_sum_lengths, join_strs::<N>, slice concat_sum_lengths, '
         'concat_slices::<u8,N>) are called directly with N in {LEN-1, LEN, LEN+1, LEN+2, 0} (model-only '
         'comparison), and the error kind of from_bytes_with_nul is compared with the model (in scope) and '
         'with std (out of scope). Long inputs: 61 (261 thorough) byte lengths in 40..=300 covering every '
         'residue mod 16 around 64/128/256 for pieces, str separators, u8/u32/&str element lists and char '
         'lists, ASCII and densely multi-byte texts. Name hygiene: 40 identifiers (every name the four '
         'expansions declare or bind, plus controls incl. the former plain names LEN, CONC, STR) as the name of a caller const/static/fn/type alias '
         'mentioned in each macro fragment (29 templates): value rows plus accept/reject verdict rows '
         'compared with std (accept) and with the Lean model of the expansion scopes (Hyg.transparent).',
 'explanation': 'Theorems (Props/C20.lean) state model = std spec for every argument list; the transcript '
                'ties the model to the real macros (const-evaluated by rustc) and the real konst::ffi::cstr '
                'functions, and the spec to the real std.',
 'assumptions': ['usize is 64 bits wide',
                 'the summed byte length of the pieces is below 2^64 (otherwise the length pass overflows, '
                 'which the model reports as a panic)',
                 'macro arguments are valid &str / char values (a Rust invariant)',
                 'the error KIND of from_bytes_with_nul is outside the property (compared as drift): konst '
                 'reports NotNulTerminated where std reports InteriorNul when an interior nul is followed by '
                 'a non-nul last byte',
                 'name hygiene: identifiers the library mangles on purpose (..81608BFNA5, .._KO9Y329U2U, '
                 '__func_zxe7hgbnjs) and caller consts/statics with the lower-case name of a local variable of '
                 'the from_iter! expansion are outside the property (drift; still compared with the model)']}
