"""registry entry of C09 (see vlib/registry.py)"""
PROP = {'level': 'proof',
 'claim': 'Proof: for every MIN < MAX (hence all twelve integer widths at once), all bounds a, b of the type '
          '(empty and inverted ranges included), both the forward iterator and its .rev(), and every '
          'front/back history of any length, the model of RangeIter/RangeInclusiveIter (increment/decrement '
          'flags, the (MAX, MIN) exhausted encoding) never panics and answers exactly like the std deque '
          'over the values a..b / a..=b; the same for char (scalar values, ranges crossing the surrogate '
          'gap); RangeFromIter yields a, a+1, ... while below MAX, then (debug assertions on, like std with '
          'overflow checks) panics on the step that would have to go beyond MAX, and never ends - for any '
          'number of steps and through take/zip/nth/find loops (take(k) tests its countdown before the source '
          'is pulled, so it pulls exactly k items and equals std for every k, k = MAX - a included; zip pulls '
          'k+1 like std); the macro loop (next until None) collects '
          'exactly these values (30 theorems, by one-step facts + the generic deque refinement, induction '
          'over the history). The model is tied to the code by a differential run that is complete for all '
          '65 536 bound pairs of u8 and of i8.',
 'sources': [('harness', 'c09'), ('programs', 'c09_cc')],
 'exhaustive': True,
 'rule': 'Exhaustive: all 65 536 (start,end) pairs of u8 and of i8 x {a..b, a..=b}: complete forward walk, '
         'complete backward walk (len+2 calls each), .rev() walks for short ranges, 3 (quick) / 12 '
         '(thorough) fixed mixed histories of 12 steps; every history of depth 6 (quick) / 8 (thorough) on '
         'every pair from the boundary neighbourhoods {MIN..MIN+2, -2..2, MAX-2..MAX} of each of the 12 '
         'integer types and {0..2, 0xD7FD..0xD7FF, 0xE000..0xE002, 0x10FFFD..0x10FFFF} of char, forward '
         'iterator and .rev(); char pairs (0xD7FF-i, 0xE000+j), i,j<10, walked completely from either end '
         'and alternately; whole iteration through for_each! (by value), iter::eval! (by reference), with '
         "the macro's rev() and with into_iter!().rev(), collect_const! const items (separate programs "
         'compiled against the konst rlib, vlib/progs/c09_cc.py) with 11-14 (quick) / 16-19 (thorough) fixed '
         'boundary bound pairs x 6 forms for each of the 13 types; a.. for k<=6 items from every '
         'neighbourhood value (all u8/i8 values for k in {1,3,8}); a.. from each of MAX-4..=MAX (thorough: '
         'MAX-7..=MAX) of every type and from both sides of the char surrogate gap, k = 0..=7 (thorough: 11) '
         'items wanted, observed step by step (v:<x> / panic / end) through next, for_each!+break, take(k) by '
         'value and by reference, zip on either side, eval! nth / next / find, and as collect_const!(.., '
         'take(k)) const items (17 per type); plus a seeded random stream (600/6000 per '
         'type) of bounds anywhere in the type with random histories up to 48 steps.',
 'explanation': 'Theorems (Props/C09.lean) state model = std spec for every bound pair and every history; '
                'the transcript ties the model to the real konst iterators (direct next/next_back and '
                'through the iteration macros) and the spec to the real core::ops::{Range, RangeInclusive, '
                "RangeFrom}. RangeFrom driven to the type's MAX is compared step by step with std's "
                'RangeFrom under catch_unwind in the same program (same build profile: values below MAX, then a '
                'panic; `end` where std yields a value or panics is a violation), take(k) with k = MAX - a '
                'included (konst, like std, stops without pulling a (k+1)-th item); out of scope only: the older '
                'rg.rangefrom[.fe|.ev] prefix requests that ask for items beyond MAX-1 (std itself overflows).',
 'assumptions': ['usize/isize are 64 bits wide',
                 'konst is built with debug assertions (debug_assert!(!overflowed) active), as in const '
                 'evaluation of a debug build; a.. at MAX: the oracle is what std does in the same profile (overflow '
                 'checks on); a release profile (both wrap around) is not exercised',
                 'char values are Unicode scalar values (a Rust type invariant)']}
