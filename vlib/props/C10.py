"""registry entry of C10 (see vlib/registry.py)"""
PROP = {'level': 'proof',
 'claim': 'Proof (partial, with the exact characterisation): for EVERY adapter chain (any depth, any nesting '
          'of flat_map/flatten), every closure (arbitrary pure function), every consumer and every finite '
          'source, the model of the code the macros emit equals the std chain on the fragment without '
          'reversing methods (konst_forward_eq_std) and on the fragment where only '
          'map/filter/filter_map/copied/flat_map/flatten precede the reversal (konst_eq_std_commuting, '
          'konst_rconsumer_eq_std), plus the two documented exceptions as theorems; konst_eq_std_normalised '
          'characterises every remaining chain exactly. The full statement is false of model and code alike '
          'for take/skip/zip before a reversal (kernel-checked witnesses) = known finding F7. The model is '
          'tied to the real macros by generated programs: all type-correct chains up to depth 2 '
          'plus a seeded sample of deeper ones, each with for_each!, eval! consumers and collect_const!, '
          'over all inputs over {0..3} up to length 4.',
 'sources': [('programs', 'c10')],
 'exhaustive': False,
 'rule': 'Programs: every type-correct chain of depth <= 2 over 40 adapter instances '
         '+ seeded sample of depth 3-5 (400 quick / 2500 thorough); consumers: for_each on every chain, all 14 eval! consumers on chains '
         'of depth <= 1 and 3 sampled ones on deeper chains, collect_const! on 4 constant inputs; inputs: '
         'all arrays over {0,1,2,3} up to length 4 for depth <= 1, 41 inputs for deeper chains.',
 'explanation': 'impl = value computed by the real konst macros; oracle = identical std chain compiled in '
                'the same program (scope m where std has no such chain or a documented exception applies); '
                'model = Lean konstEval run by the driver; spec = Lean stdEval/docResult.',
 'assumptions': ['closures are pure and total; sources are finite (order/number of closure evaluations and '
                 'infinite/overflowing sources are not modelled)',
                 'per-source-item output list then consumer prefix consumption models the nested loop with '
                 'the consumer innermost (equivalent for pure closures; validated by the correspondence)']}
