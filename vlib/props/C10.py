"""registry entry of C10 (see vlib/registry.py)"""
PROP = {'level': 'proof',
 'claim': 'Proof (partial, with the exact characterisation): for EVERY adapter chain (any depth, any nesting '
          'of flat_map/flatten), every closure (arbitrary pure function), every consumer and every finite '
          'source, the model of the code the macros emit equals the std chain on the fragment without '
          'reversing methods (konst_forward_eq_std) and on the fragment where only '
          'map/filter/filter_map/copied/flat_map/flatten precede the reversal (konst_eq_std_commuting, '
          'konst_rconsumer_eq_std), plus the two documented exceptions as theorems; konst_eq_std_normalised '
          'characterises every remaining chain exactly. The full statement is false of model and code alike '
          'for take/skip/zip before a reversal (kernel-checked witnesses) = known finding F7. The model is '
          'tied to the real macros by generated programs: all type-correct chains up to depth 2 '
          'plus a seeded sample of deeper ones, each with for_each!, eval! consumers and collect_const!, '
          'over all inputs over {0..3} up to length 4. CLOSURE CALLS (which closure is evaluated on which '
          'argument, how often, in which order) are an output of the model too (konstEvalL, the loop nest with its '
          'call log and the take guards at every loop top; calls_erase: same values): on the forward fragment '
          'value and calls are exactly those of the std chain (konst_forward_calls, konst_forward_calls_eq_std), '
          'also with closures that panic on a given call (hostile_forward_eq_std). Two defects found this way '
          'were repaired (F21: a closure-taking method before a take ran on one more item, 9827f8a; F22: '
          'take(0) after flat_map, 7ecb606); their shapes are a pinned regression corpus that runs first. Tied to the '
          'real macros by logging closures (identical text in the macro and in the std chain) on all chains '
          'of depth <= 2 and a sample of deeper ones, plus the same programs with one call poisoned.',
 'sources': [('programs', 'c10')],
 'exhaustive': False,
 'rule': 'Programs: every type-correct chain of depth <= 2 over 40 adapter instances '
         '+ seeded sample of depth 3-5 (400 quick / 2500 thorough); consumers: for_each on every chain, all 14 eval! consumers on chains '
         'of depth <= 1 and 3 sampled ones on deeper chains, collect_const! on 4 constant inputs; inputs: '
         'all arrays over {0,1,2,3} up to length 4 for depth <= 1, 41 inputs for deeper chains. '
         'Closure calls: all chains of depth <= 2 + 160 (quick) / 1000 (thorough) deeper ones, for_each + all 14 '
         'consumers (depth <= 1) or 2 sampled ones; per run up to 3 poisoned-call variants; first of all the 15 '
         'regression chains of F21/F22 with their pinned poisoned calls.',
 'explanation': 'impl = value computed by the real konst macros; oracle = identical std chain compiled in '
                'the same program (scope m where std has no such chain or a documented exception applies); '
                'model = Lean konstEval run by the driver; spec = Lean stdEval/docResult. calls/hostile '
                'requests: value|[method position:argument;..] of the logging closures, resp. panic|[calls so '
                'far]; model = konstEvalL, spec = stdEvalE/consumeCalls (chains without a reversing method).',
 'assumptions': ['closures are pure functions of their argument apart from being observed (call log) or panicking '
                 'on a given call; sources are finite (infinite/overflowing sources are not modelled)',
                 'the std oracle of the closure calls is the generic, documented adapter code: the source of the '
                 'std chain is a forwarding wrapper of the slice iterator that does not opt into std\'s internal '
                 'TrustedRandomAccess shortcut, which elides closure calls irregularly (an exhausted zip: '
                 'documented as advancing its first iterator "at most one time"; map(f).skip(1).take(2).fold on '
                 'a one-element source)',
                 'per-source-item output list then consumer prefix consumption models the nested loop with '
                 'the consumer innermost (equivalent for pure closures; validated by the correspondence)']}
