"""registry entry of C02 (see vlib/registry.py)"""
PROP = {'level': 'proof',
 'claim': 'Proof: for every list (any element type), every index/index pair below 2^64 and every chunk size, '
          'the model of each indexing/splitting function equals the std specification (15 theorems, by case '
          'analysis on the overflowing_sub guard + list lemmas, no bound on length). The model is tied to '
          'the code by an exhaustive small-scope differential run over all functions, _mut twins, four '
          'element types.',
 'sources': [('harness', 'c02'), ('programs', 'c02_const')],
 'exhaustive': True,
 'rule': 'Exhaustive: every slice length 0..=L (L=8 quick, 16 thorough) x every index / index pair from '
         '0..=len+2 plus isize::MAX, isize::MAX+1, usize::MAX-1, usize::MAX x every function (shared and '
         '_mut) x element types u8, (), String, [u16;3]; chunk/array sizes N in 0..=5.',
 'explanation': 'Theorems (Props/C02.lean) state model = std spec for every list and every index; the '
                'transcript ties the model to the code and the spec to the real std.',
 'assumptions': ['usize is 64 bits wide', 'slice lengths do not exceed isize::MAX (a Rust invariant)']}
