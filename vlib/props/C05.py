"""registry entry of C05 (see vlib/registry.py)"""
PROP = {'level': 'proof',
 'claim': 'Proof: for every input and pattern (byte lists of any length) the models of '
          "strip_prefix/strip_suffix/starts_with/ends_with equal std's (isPrefixOf/isSuffixOf + drop/take), "
          'trim_start_matches/trim_end_matches (two-level loop with at_start rollback) remove exactly the '
          'maximal run of whole repetitions (= str::trim_start_matches/trim_end_matches; empty pattern '
          'removes nothing), trim_matches = start then end, and bytes_trim/_start/_end = '
          'trim_ascii/_start/_end with the byte set {9,10,12,13,32} (15 theorems, by induction + mirror '
          'lemmas for the back-consuming loops, no bound on lengths); every returned view lies inside the '
          'input. The model is tied to the code by an exhaustive small-scope differential run through the '
          'public generic functions with all four pattern kinds.',
 'sources': [('harness', 'c05')],
 'exhaustive': True,
 'rule': 'Exhaustive: every haystack over {a,b} of length 0..=8 (thorough 0..=11) x every needle over {a,b} '
         'of length 0..=4 (0..=5), every pattern kind, 7 byte-slice and 7 str pattern functions; every str '
         'over {a, n-tilde} up to 5 (6) chars x str/char/byte needles up to 3; whitespace trimming: every '
         'byte value 0..=255 at both ends in 9 shapes, every char up to U+00FF and several Unicode spaces at '
         'both ends of a str, every string over {space,tab,LF,VT,FF,CR,x} up to length 4 (5), form-feed '
         'inputs that failed before cebbc85 first; then 3000 (20000) seeded random inputs built from needle '
         'repetitions with partial repetitions next to them, and random whitespace padding. A second seeded '
         'stream of LARGE cases (150 / 1 500 pattern cases + 400 / 4 000 whitespace cases, ~4 800 / 48 000 '
         'requests): needles of 3..=12 letters (random or with internal periodicity) over the five C04 '
         'alphabets, haystack = needle^k1 + partial repetition + middle + partial repetition + needle^k2 '
         'with k up to 12, array patterns up to [u8; 24]; whitespace runs of 10..=40 bytes at both ends '
         'mixing the five ASCII whitespace bytes with every byte of 00..=20, 7F, 85, A0 (also as the chars '
         'U+0085/U+00A0).',
 'explanation': 'Theorems (Props/C05.lean) state model = std specification for all inputs; the transcript '
                'ties the model to the code and the specification to the real std '
                '(<[u8]>::strip_prefix/strip_suffix/starts_with/ends_with/trim_ascii*, '
                'str::trim_start_matches/trim_end_matches; for trim_matches with a &str pattern std has no '
                "method: the documented start-then-end composition of std's two methods is the oracle, "
                "cross-checked against std's trim_matches for char patterns).",
 'assumptions': ['usize is 64 bits wide',
                 'slice lengths do not exceed isize::MAX (a Rust invariant)',
                 "char patterns: the bytes of chr::encode_utf8 are those of std's encode_utf8 (checked on "
                 'every char request by the harness)',
                 'debug-feature assertions of __from_u8_subslice_of_str are not modelled']}
