"""registry entry of C15 (see vlib/registry.py)"""
PROP = {'level': 'proof',
 'claim': 'Proof for ArrayConsumer / ArrayBuilder / by-value map_! (13 theorems): every history of '
          'front/back takes, clones, and drop / forget / assert_is_empty on a consumer owning xs behaves '
          'like a deque; elements handed out from the front ++ elements dropped or leaked at the end ++ '
          'reverse(elements handed out from the back) = xs (each exactly once, in order); forget leaks '
          'exactly what was not taken (nothing after exhaustion); clones own fresh copies and obey the same '
          'law; a clone whose element Clone PANICS on any call drops exactly the copies made so far (never '
          'an unwritten slot) and leaves the original intact (ArrayConsumer and ArrayBuilder); the builder '
          'hands out or drops exactly the accepted pushes; map_! hands each input to the closure once in '
          'order and returns each output once; with early exits every input is closure-consumed, dropped or '
          '(only on the panicking break path) leaked exactly once. destructure! is exploration-backed: the '
          'theorem (reads are a bijection onto the fields given the guard) is thin, the behaviour is '
          'observed on generated programs against native destructuring.',
 'sources': [('harness', 'c15'), ('programs', 'c15')],
 'exhaustive': True,
 'rule': 'Exhaustive: every ArrayConsumer history over {next, next_back, clone-keep-clone, clone-drop-clone} '
         'up to depth 6 (quick) / 8 (thorough) ending in drop / mem::forget / assert_is_empty, lengths '
         '0..=4, from new() and (depth 4) from empty(); every ArrayBuilder history as in C11 (incl. '
         'Clone::clone_from between two builders of every pair of fill levels: the old elements of the '
         'target are dropped exactly once, the target owns fresh clones of the source); '
         'map_!/from_fn_! over drop-logging elements, lengths 0..=4, each early exit at each index; '
         'destructure! on tuples (1..16 fields), tuple/braced/packed/generic structs with E, u32, (), (E,E), '
         '[E;2], nested-struct fields under all-bind / all-wild / alternating / first-wild / last-wild '
         'patterns and all prefix/rest/suffix array patterns over {bind, _, r @ .., ..} for lengths 0..=3 '
         '(quick) / 0..=4 (thorough); rejected forms compiled one by one. Histories with a clone whose '
         'element Clone panics on its j-th call (j = 0..3, caught; depth 4 quick / 5 thorough, mixed with '
         'takes and clones) for ArrayConsumer and ArrayBuilder. destructure! on #[repr(packed)] / #[repr(C, '
         'packed)] / #[repr(packed(2))] tuple and braced structs whose u16/u32/u64/String/E fields sit at '
         'MISALIGNED offsets (u8 fields interleaved), at run time and evaluated at COMPILE TIME in const '
         'items and const fns (108 const cases; the const evaluator checks the alignment of every read; '
         'verdict accept + values equal); thorough tier: the run-time packed cases as one program under '
         'cargo +nightly miri run with -Zmiri-symbolic-alignment-check (UB report = violation).',
 'explanation': 'Ledgers `[id:m|id:d|id:c]` of a drop-logging element with unique ids are compared three '
                'ways (real konst code, std VecDeque/Vec/native-let oracle, Lean model and reference).',
 'assumptions': ['ptr::read / read_unaligned preserve bits and ManuallyDrop suppresses the drop: facts about '
                 'Rust, observed (payload check of every element; alignment of the reads observed by const '
                 'evaluation of packed structs and, thorough tier, Miri), not proved',
                 "destructure!: rustc's acceptance of the guard patterns is a verdict table checked by "
                 'compiling programs']}
