"""registry entry of C13 (see vlib/registry.py)"""
PROP = {'level': 'proof',
 'claim': 'Proof: for every original &str, every base offset and EVERY history of Parser operations (all 19 '
          'methods: split family, strip_*, trim*, find_skip/rfind_skip, skip/skip_back, parse_<int>/parse_bool; '
          'every &str/char pattern, every count, any length, failing steps included) starting from '
          'Parser::new / with_start_offset, the model never panics and the parser held satisfies the invariant '
          '(remainder = original[start-base .. end-base], both char boundaries, base <= start): inv_new, '
          'inv_with_start_offset, inv_step, inv_history (induction over operation lists); a failing operation '
          'reports the start (operations from the start) resp. end (operations from the end) offset of the parser '
          'it was called on and that direction (error_offset_dir); all offsets fit u32 under base+len < 2^32 '
          '(13 theorems). The model (Model/Parser.lean: try_parsing!/parsing!/throw!/enable_if_start! and every '
          'method, delegating to the C04/C05/C12 models of the free functions) is tied to the code by a '
          'differential run over exhaustive operation sequences to depth 2, sampled depth 3/4 and long random '
          'histories; the oracle is the invariant itself evaluated on the implementation\'s answers.',
 'sources': [('harness', 'c13')],
 'exhaustive': True,
 'rule': 'Exhaustive: every single operation out of 86 (12 pattern methods x patterns {" ", ",", U+00F1 as char, '
         '"ab", "", "a,"}; trim, trim_start, trim_end; skip/skip_back x {0,1,2,9}; parse_u8, parse_i16, parse_bool) '
         'x every string of at most 5 (thorough 6) letters over {space, comma, a, U+00F1, 1} x bases {0,7}; every '
         'ordered PAIR of operations x every string of at most 3 (thorough 4) letters (base alternating 0/7 with '
         'the string; thorough: both); a seeded sample of 260 (thorough 1500) operation triples (thorough: also '
         'quadruples) for every string of at most 4 (thorough 5) letters; 25 000 (thorough 120 000) seeded random '
         'histories of length 12 (thorough 30) over a richer alphabet (digits, -, true/false, tab, 3- and 4-byte '
         'chars) with 8 further patterns, all 12 integer types and bases {0,1,7,4000000}. In scope per step: '
         'start_offset, end_offset, position of remainder() in the original, offset() and error_direction() of '
         'errors. The parse_direction stored by successful steps and into_error().offset() are emitted out of '
         'scope (pardir lines, drift only).',
 'explanation': 'Theorems (Props/C13.lean) prove the invariant for every history of the model; the transcript '
                'ties the model to the real Parser (impl = model on every step of every generated history) and '
                'evaluates the invariant on the implementation itself: the original is sliced with str::get at '
                'the REPORTED offsets minus the base and must be the very remainder (same bytes, same address); '
                'an error must carry the start/end offset of the parser it was called on.',
 'assumptions': ['Parser start_offset + string length stays below 2^32 (offsets are u32 in the code, naturals in '
                 'the model; theorem offsets_fit_u32 shows nothing wraps under this hypothesis)',
                 'the original string and all patterns are &str/char values, i.e. valid UTF-8 (a Rust invariant)',
                 'usize is 64 bits wide']}
