"""
Failing-input search for a broken equivalence obligation (DESIGN.md section 11).

1. `translator/gen_search.py search` + `lake build KonstVerif.Extracted.Search`: a Lean program that compares the
   regenerated definitions (Extracted.f, from /repo now) with the committed ones (Extracted0.f, Frozen/) on
   generated inputs; `lake env lean --run` it for the groups whose generated file changed.
2. Every counterexample whose function has an entry in translator/replay_map.py is replayed on the REAL
   implementation: a Rust program calls konst's public API and the std counterpart on that input (compiled
   against the konst rlib built from /repo now). `konst != std` there is a concrete failing input of the property.
Everything here is search (support for the replay), never part of a proof.
"""
import os, re, sys, json, subprocess, importlib.util
from vlib import core


def _load_map():
    p = os.path.join(core.ROOT, "translator", "replay_map.py")
    spec = importlib.util.spec_from_file_location("replay_map", p)
    m = importlib.util.module_from_spec(spec)
    spec.loader.exec_module(m)
    return m


def lean_search(groups, seed, samples=1500, timeout=900):
    """returns (counterexamples, note); counterexample = dict(fn, args=[repr…], new, old)"""
    rc, out = core.run([sys.executable, os.path.join(core.ROOT, "translator", "gen_search.py"), "search"], timeout=300)
    if rc != 0:
        return [], "gen_search failed: " + out[-400:]
    with core.build_lock():
        rc, out = core.run(["lake", "build", "KonstVerif.Extracted.Search"], cwd=core.LEAN, timeout=1800)
    if rc != 0:
        errs = [l for l in out.split("\n") if l.startswith("error:")][:3]
        return [], "the regenerated definitions do not compile, so they cannot be run: " + " | ".join(e[:200] for e in errs)
    try:
        p = subprocess.run(["lake", "env", "lean", "--run", "KonstVerif/Extracted/Search.lean", str(seed), str(samples)] + list(groups),
                           cwd=core.LEAN, env=core.ENV, stdout=subprocess.PIPE, stderr=subprocess.STDOUT, text=True, timeout=timeout)
        out = p.stdout
    except subprocess.TimeoutExpired as e:
        out = (e.stdout or b"").decode() if isinstance(e.stdout, bytes) else (e.stdout or "")
    cex = []
    for line in out.split("\n"):
        if not line.startswith("CEX\t"):
            continue
        parts = line.split("\t")
        fn = parts[1]
        rest = parts[2:]
        new = next((x[4:] for x in rest if x.startswith("new=")), "")
        old = next((x[4:] for x in rest if x.startswith("old=")), "")
        args = [x for x in rest if not x.startswith("new=") and not x.startswith("old=") and not re.match(r"^\w+=\d+$", x)]
        cex.append({"fn": fn, "args": args, "new": new[:300], "old": old[:300]})
    return cex, ""


def _nat_list(s):
    m = re.fullmatch(r"\s*\[([0-9,\s]*)\]\s*", s)
    if not m:
        return None
    body = m.group(1).strip()
    return [int(x) for x in body.split(",")] if body else []


def _valid_utf8(bs):
    try:
        bytes(bs).decode("utf-8")
        return True
    except Exception:
        return False


def rust_binding(kind, i, text):
    """Rust `let a<i> = …;` for a Lean repr, or None when the value is outside the public API's domain"""
    if kind in ("bytes", "str", "chars"):
        src = text
        if kind == "chars":
            m = re.search(r"this_\s*:=\s*(\[[0-9,\s]*\])", text)
            if not m:
                return None
            src = m.group(1)
        l = _nat_list(src)
        if l is None or any(b > 255 for b in l):
            return None
        lit = "[" + ", ".join(f"{b}u8" for b in l) + "]"
        if kind == "bytes":
            return f"let a{i}: &[u8] = &{lit};"
        if not _valid_utf8(l):
            return None
        return f"let a{i}_b: &[u8] = &{lit}; let a{i}: &str = std::str::from_utf8(a{i}_b).unwrap();"
    if kind in ("usize", "u32", "u8", "char"):
        try:
            v = int(text.strip())
        except ValueError:
            return None
        lim = {"usize": 2**64, "u32": 2**32, "u8": 256, "char": 0x110000}[kind]
        if v >= lim:
            return None
        if kind == "char":
            if 0xD800 <= v <= 0xDFFF:
                return None
            return f"let a{i}: char = char::from_u32({v}u32).unwrap();"
        return f"let a{i}: {kind} = {v}{kind};"
    return None


def replay_on_implementation(cex, workdir):
    """-> list of dicts: the counterexamples replayed on the real code with konst and std results"""
    from vlib.progs import common
    m = _load_map()
    blocks, kept = [], []
    for c in cex:
        ent = m.REPLAY.get(c["fn"])
        if not ent:
            continue
        kinds, konst_e, std_e = ent[0], ent[1], ent[2]
        skip = ent[3] if len(ent) > 3 else None
        if len(kinds) != len(c["args"]):
            continue
        binds = [rust_binding(k, i, a) for i, (k, a) in enumerate(zip(kinds, c["args"]))]
        if any(b is None for b in binds):
            continue
        idx = len(kept)
        guard = f"if !({skip}) " if skip else ""
        blocks.append("{ " + " ".join(binds) + f" {guard}{{ let k = show(catch_unwind(AssertUnwindSafe(|| {konst_e}))); "
                      f"let s = show(catch_unwind(AssertUnwindSafe(|| {std_e}))); println!(\"REPLAY\\t{idx}\\t{{}}\\t{{}}\", k, s); }} }}")
        kept.append(dict(c, konst_expr=konst_e, std_expr=std_e))
    if not kept:
        return []
    os.makedirs(workdir, exist_ok=True)
    src = os.path.join(workdir, "xreplay.rs")
    with open(src, "w") as f:
        f.write(m.PRELUDE + "\nfn main() {\n    std::panic::set_hook(Box::new(|_| {}));\n" + "\n".join("    " + b for b in blocks) + "\n}\n")
    exe = os.path.join(workdir, "xreplay")
    rc, err = common.compile_one(src, exe)
    if rc != 0:
        return [{"error": "replay program did not compile: " + err[-600:]}]
    rc, out, err = common.run_bin(exe, timeout=120)
    res = []
    for line in out.split("\n"):
        if line.startswith("REPLAY\t"):
            _, idx, k, s = line.split("\t", 3)
            c = kept[int(idx)]
            res.append({"fn": c["fn"], "args": c["args"], "konst_call": c["konst_expr"], "std_call": c["std_expr"],
                        "konst": k[:300], "std": s[:300], "differs": k != s,
                        "extracted_now": c["new"], "extracted_committed": c["old"]})
    return res


def search(pid, changed_files, seed):
    groups = [f[:-5] for f in changed_files if f.endswith(".lean")]
    cex, note = lean_search(groups, seed)
    out = {"groups": groups, "lean_counterexamples": len(cex), "note": note, "samples": cex[:12], "replayed": [], "failing_inputs": []}
    if cex:
        try:
            rep = replay_on_implementation(cex, os.path.join(core.BUILD, "xsearch_" + pid))
        except Exception as e:  # the search is best effort
            rep = [{"error": f"{type(e).__name__}: {e}"}]
        out["replayed"] = rep[:40]
        out["failing_inputs"] = [r for r in rep if r.get("differs")][:20]
    return out
