"""
Failing-input search for a broken equivalence obligation (DESIGN.md section 11).

1. `translator/gen_search.py search` + `lake build KonstVerif.Extracted.Search`: a Lean program that compares the
   regenerated definitions (Extracted.f, from /repo now) with the committed ones (Extracted0.f, Frozen/) on
   generated inputs; `lake env lean --run` it for the groups whose generated file changed.
2. Every counterexample whose function has an entry in translator/replay_map.py is replayed on the REAL
   implementation: a Rust program calls konst's public API and the std counterpart on that input (compiled
   against the konst rlib built from /repo now). `konst != std` there is a concrete failing input of the property.
Everything here is search (support for the replay), never part of a proof.
"""
import os, re, sys, json, subprocess, importlib.util
from vlib import core


def _load_map():
    p = os.path.join(core.ROOT, "translator", "replay_map.py")
    spec = importlib.util.spec_from_file_location("replay_map", p)
    m = importlib.util.module_from_spec(spec)
    spec.loader.exec_module(m)
    return m


def lean_search(groups, seed, samples=1500, timeout=900):
    """returns (counterexamples, note); counterexample = dict(fn, args=[repr…], new, old)"""
    rc, out = core.run([sys.executable, os.path.join(core.ROOT, "translator", "gen_search.py"), "search"], timeout=300)
    if rc != 0:
        return [], "gen_search failed: " + out[-400:]
    with core.build_lock():
        rc, out = core.run(["lake", "build", "KonstVerif.Extracted.Search"], cwd=core.LEAN, timeout=1800)
    if rc != 0:
        errs = [l for l in out.split("\n") if l.startswith("error:")][:3]
        return [], "the regenerated definitions do not compile, so they cannot be run: " + " | ".join(e[:200] for e in errs)
    try:
        p = subprocess.run(["lake", "env", "lean", "--run", "KonstVerif/Extracted/Search.lean", str(seed), str(samples)] + list(groups),
                           cwd=core.LEAN, env=core.ENV, stdout=subprocess.PIPE, stderr=subprocess.STDOUT, text=True, timeout=timeout)
        out = p.stdout
    except subprocess.TimeoutExpired as e:
        out = (e.stdout or b"").decode() if isinstance(e.stdout, bytes) else (e.stdout or "")
    cex = []
    for line in out.split("\n"):
        if not line.startswith("CEX\t"):
            continue
        parts = line.split("\t")
        fn = parts[1]
        rest = parts[2:]
        new = next((x[4:] for x in rest if x.startswith("new=")), "")
        old = next((x[4:] for x in rest if x.startswith("old=")), "")
        args = [x for x in rest if x != "" and not x.startswith("new=") and not x.startswith("old=") and not re.match(r"^\w+=\d+$", x)]
        consts = {x.split("=")[0]: int(x.split("=")[1]) for x in rest if re.match(r"^[A-Z]\w*=\d+$", x)}   # const generics: N=3
        cex.append({"fn": fn, "args": args, "consts": consts, "new": new[:300], "old": old[:300]})
    return cex, ""


def _nat_list(s):
    m = re.fullmatch(r"\s*\[([0-9,\s]*)\]\s*", s)
    if not m:
        return None
    body = m.group(1).strip()
    return [int(x) for x in body.split(",")] if body else []


def _valid_utf8(bs):
    try:
        bytes(bs).decode("utf-8")
        return True
    except Exception:
        return False


# ---------------------------------------------------------------------------------------------
# Lean `repr` text -> Python value.  nat -> int; `none` -> ("none",); `some x` -> ("some", x); `Except.ok x` /
# `Except.error e` -> ("ok", x) / ("err", e); `[a, b]` -> list; `(a, b)` -> tuple; `{ f := v, … }` -> dict;
# `true`/`false` -> bool; any other (dotted) name, e.g. `Extracted.ParseDirection.FromStart` -> ("ctor", name)

class _P:
    def __init__(self, s):
        self.s, self.i = s, 0

    def ws(self):
        while self.i < len(self.s) and self.s[self.i] in " \n\t":
            self.i += 1

    def peek(self):
        self.ws()
        return self.s[self.i] if self.i < len(self.s) else ""

    def eat(self, ch):
        if self.peek() != ch:
            raise ValueError(f"expected {ch!r} at {self.i} in {self.s[:80]!r}")
        self.i += 1

    def word(self):
        self.ws()
        m = re.compile(r"[A-Za-z_][A-Za-z_0-9.']*").match(self.s, self.i)
        if not m:
            return None
        self.i = m.end()
        return m.group(0)

    def atom(self):
        c = self.peek()
        if c == "(":
            self.i += 1
            if self.peek() == ")":
                self.i += 1
                return ()
            xs = [self.value()]
            while self.peek() == ",":
                self.i += 1
                xs.append(self.value())
            self.eat(")")
            return xs[0] if len(xs) == 1 else tuple(xs)
        if c == "[":
            self.i += 1
            xs = []
            if self.peek() != "]":
                xs.append(self.value())
                while self.peek() == ",":
                    self.i += 1
                    xs.append(self.value())
            self.eat("]")
            return xs
        if c == "{":
            self.i += 1
            d = {}
            while self.peek() != "}":
                k = self.word()
                self.ws()
                if not self.s.startswith(":=", self.i):
                    raise ValueError("expected :=")
                self.i += 2
                d[k] = self.value()
                if self.peek() == ",":
                    self.i += 1
            self.eat("}")
            return d
        if c.isdigit() or (c == "-" and self.s[self.i + 1:self.i + 2].isdigit()):
            m = re.compile(r"-?[0-9]+").match(self.s, self.i)
            self.i = m.end()
            return int(m.group(0))
        w = self.word()
        if w is None:
            raise ValueError(f"unexpected {c!r} at {self.i}")
        return {"true": True, "false": False, "none": ("none",)}.get(w, ("ctor", w))

    def value(self):
        """an application `some x` / `Except.ok x` or an atom"""
        v = self.atom()
        if isinstance(v, tuple) and len(v) == 2 and v[0] == "ctor" and v[1] in ("some", "Except.ok", "Except.error"):
            arg = self.atom()
            return ({"some": "some", "Except.ok": "ok", "Except.error": "err"}[v[1]], arg)
        return v


def parse_repr(text):
    p = _P(text)
    v = p.value()
    if p.peek() != "":
        raise ValueError("trailing text")
    return v


# kinds of replay_map.py that are built from a type: name -> type term
#   int types | ("opt", t) | ("res", ok, err) | ("slice", t) | ("array", t) | ("array_ref", t) | ("tuple", t…)
STRUCTURED = {
    "opt_u32": ("opt", "u32"), "opt_u8": ("opt", "u8"), "opt_opt_u32": ("opt", ("opt", "u32")),
    "res_u32_u8": ("res", "u32", "u8"),
    "u32s": ("slice", "u32"), "u32ss": ("slice", ("slice", "u32")),
    "pair_u32": ("tuple", "u32", "u32"),
    "arr_u32": ("array", "u32"), "arr_ref_u32": ("array_ref", "u32"),
}
_LIM = {"usize": 2**64, "u64": 2**64, "u32": 2**32, "u16": 2**16, "u8": 256}


_RANGE = {**{f"u{b}": (0, 2**b - 1) for b in (8, 16, 32, 64, 128)}, **{f"i{b}": (-2**(b - 1), 2**(b - 1) - 1) for b in (8, 16, 32, 64, 128)},
          "usize": (0, 2**64 - 1), "isize": (-2**63, 2**63 - 1)}
_ORD = {"Ordering.lt": "Less", "Ordering.eq": "Equal", "Ordering.gt": "Greater"}


def _char_lit(v):
    return None if not isinstance(v, int) or isinstance(v, bool) or v >= 0x110000 or 0xD800 <= v <= 0xDFFF or v < 0 else f"'\\u{{{v:x}}}'"


def rust_value(ty, v, nested=False):
    """(Rust type, Rust expression) of the parsed Lean value `v` at type term `ty`; None outside the Rust type.
    Every expression is a constant expression wherever a reference to it is taken (literals only), so that
    `&[…]` / `Some(&[…])` are promoted to 'static and no temporary is dropped while borrowed."""
    if isinstance(ty, str):
        if ty == "bool":
            return ("bool", "true" if v else "false") if isinstance(v, bool) else None
        if ty == "char":
            c = _char_lit(v)
            return c and ("char", c)
        if ty == "str":       # the bytes of a `&str`: a string literal
            if not isinstance(v, list) or not all(isinstance(b, int) and 0 <= b < 256 for b in v) or not _valid_utf8(v):
                return None
            return "&str", '"' + "".join(f"\\u{{{ord(ch):x}}}" for ch in bytes(v).decode("utf-8")) + '"'
        if ty == "Ordering":
            if isinstance(v, tuple) and len(v) == 2 and v[0] == "ctor" and v[1] in _ORD:
                return "core::cmp::Ordering", "core::cmp::Ordering::" + _ORD[v[1]]
            return None
        if ty in ("PhantomData", "PhantomPinned"):
            return ("core::marker::PhantomData<u8>", "core::marker::PhantomData::<u8>") if ty == "PhantomData" else \
                   ("core::marker::PhantomPinned", "core::marker::PhantomPinned")
        lo, hi = _RANGE[ty] if ty in _RANGE else (0, _LIM[ty] - 1)
        if not isinstance(v, int) or isinstance(v, bool) or not lo <= v <= hi:
            return None
        return ty, f"{v}{ty}" if v >= 0 else f"({v}{ty})"
    k = ty[0]
    if k == "nz":          # NonZero*: read as its integer value by the translator; 0 is not a value of the type
        r = rust_value(ty[1], v)
        if r is None or v == 0:
            return None
        name = "core::num::NonZero" + ty[1][0].upper() + ty[1][1:]
        return name, f"{name}::new({r[1]}).unwrap()"
    if k == "range":       # core::ops::Range<T>, taken by reference
        if not isinstance(v, tuple) or len(v) != 2:
            return None
        a, b = rust_value(ty[1], v[0]), rust_value(ty[1], v[1])
        return a and b and (f"&core::ops::Range<{ty[1]}>", f"&({a[1]}..{b[1]})")
    if k == "rangeinc":    # core::ops::RangeInclusive<T>: only the not-exhausted state can be written as `a..=b`
        if not isinstance(v, tuple) or len(v) != 3 or v[2] is not False:
            return None
        a, b = rust_value(ty[1], v[0]), rust_value(ty[1], v[1])
        return a and b and (f"&core::ops::RangeInclusive<{ty[1]}>", f"&({a[1]}..={b[1]})")
    if k == "opt":
        if v == ("none",):
            inner = rust_type(ty[1])
            return f"Option<{inner}>", f"None::<{inner}>"
        if isinstance(v, tuple) and len(v) == 2 and v[0] == "some":
            r = rust_value(ty[1], v[1])
            return r and (f"Option<{r[0]}>", f"Some({r[1]})")
        return None
    if k == "res":
        tt = f"Result<{rust_type(ty[1])}, {rust_type(ty[2])}>"
        if isinstance(v, tuple) and len(v) == 2 and v[0] in ("ok", "err"):
            r = rust_value(ty[1] if v[0] == "ok" else ty[2], v[1])
            return r and (tt, f"{'Ok' if v[0] == 'ok' else 'Err'}::<{rust_type(ty[1])}, {rust_type(ty[2])}>({r[1]})")
        return None
    if k in ("slice", "array", "array_ref"):
        if not isinstance(v, list):
            return None
        es = [rust_value(ty[1], x, nested=True) for x in v]
        if any(e is None for e in es):
            return None
        inner = rust_type(ty[1])
        lit = "[" + ", ".join(e[1] for e in es) + "]"
        if k == "array":
            return f"[{inner}; {len(v)}]", lit
        if k == "array_ref":
            return f"&[{inner}; {len(v)}]", "&" + lit
        return f"&[{inner}]", f"(&{lit} as &[{inner}])"
    if k == "tuple":
        if not isinstance(v, tuple) or len(v) != len(ty) - 1:
            return None
        es = [rust_value(t_, x) for t_, x in zip(ty[1:], v)]
        if any(e is None for e in es):
            return None
        return "(" + ", ".join(e[0] for e in es) + ")", "(" + ", ".join(e[1] for e in es) + ")"
    return None


def rust_type(ty):
    if isinstance(ty, str):
        return {"str": "&str", "Ordering": "core::cmp::Ordering"}.get(ty, ty)
    if ty[0] == "nz":
        return "core::num::NonZero" + ty[1][0].upper() + ty[1][1:]
    k = ty[0]
    if k == "opt":
        return f"Option<{rust_type(ty[1])}>"
    if k == "res":
        return f"Result<{rust_type(ty[1])}, {rust_type(ty[2])}>"
    if k == "slice":
        return f"&[{rust_type(ty[1])}]"
    if k == "tuple":
        return "(" + ", ".join(rust_type(x) for x in ty[1:]) + ")"
    raise ValueError(ty)


def parser_binding(i, text, probe=True, force_back=False):
    """`{ parse_direction := …, yielded_last_split := …, start_offset := n, str := [bytes] }` ->
    `Parser::with_start_offset(str, n)`; only the state that constructor builds (direction FromStart, the split flag
    unset), a UTF-8 remainder, and `start_offset + len < 2^32` (the bound of the equivalence theorems: past it the
    u32 offset arithmetic overflows in the macro and in the method chain alike)"""
    v = parse_repr(text)
    if not isinstance(v, dict):
        return None
    d = v.get("parse_direction")
    if not (isinstance(d, tuple) and d[0] == "ctor" and "ParseDirection." in d[1]):
        return None
    if probe and (not d[1].endswith("ParseDirection.FromStart") or v.get("yielded_last_split") is not False):
        return None
    # functions of the Parser groups (not probes): the search is for *some* failing input of the real code, so a state
    # the public API cannot build is moved to the nearest one it can build — direction FromEnd through `.skip_back(0)`
    # (sets the direction, changes nothing else), FromBoth and a set split flag fall back to the constructor's state;
    # the std side of those entries is written for exactly the parser that is built here
    back = (not probe) and (force_back or d[1].endswith("ParseDirection.FromEnd"))
    bs, off = v.get("str"), v.get("start_offset")
    if not isinstance(bs, list) or not all(isinstance(b, int) and b < 256 for b in bs) or not _valid_utf8(bs):
        return None
    if not isinstance(off, int) or off + len(bs) >= 2**32:
        return None
    lit = "[" + ", ".join(f"{b}u8" for b in bs) + "]"
    return (f"let a{i}_b: &[u8] = &{lit}; let a{i}_s: &str = std::str::from_utf8(a{i}_b).unwrap(); let a{i}_off: usize = {off}usize; "
            f"let a{i}: konst::Parser<'_> = konst::Parser::with_start_offset(a{i}_s, a{i}_off){'.skip_back(0)' if back else ''};")


def _array_len(text):
    try:
        v = parse_repr(text)
    except ValueError:
        return None
    return len(v) if isinstance(v, list) else None


def rust_binding(kind, i, text):
    """Rust `let a<i> = …;` for a Lean repr, or None when the value is outside the public API's domain"""
    if isinstance(kind, tuple) and kind[0] == "typed":
        try:
            r = rust_value(kind[1], parse_repr(text))
        except ValueError:
            return None
        return r and f"let a{i}: {r[0]} = {r[1]};"
    if kind in STRUCTURED:
        try:
            r = rust_value(STRUCTURED[kind], parse_repr(text))
        except ValueError:
            return None
        return r and f"let a{i}: {r[0]} = {r[1]};"
    if kind == "errkind":      # `Extracted.ErrorKind.Strip` -> konst::parsing::ErrorKind::Strip
        m = re.fullmatch(r"\s*(?:Extracted0?\.)?ErrorKind\.(\w+)\s*", text)
        return m and f"let a{i}: konst::parsing::ErrorKind = konst::parsing::ErrorKind::{m.group(1)};"
    if kind in ("parser", "parser_any", "parser_any_back"):
        try:
            return parser_binding(i, text, probe=(kind == "parser"), force_back=(kind == "parser_any_back"))
        except ValueError:
            return None
    if kind in ("bytes", "bytes_mut", "str", "chars"):
        src = text
        if kind == "chars":
            m = re.search(r"this_\s*:=\s*(\[[0-9,\s]*\])", text)
            if not m:
                return None
            src = m.group(1)
        l = _nat_list(src)
        if l is None or any(b > 255 for b in l):
            return None
        lit = "[" + ", ".join(f"{b}u8" for b in l) + "]"
        if kind == "bytes":
            return f"let a{i}: &[u8] = &{lit};"
        if kind == "bytes_mut":
            return f"let a{i}: Vec<u8> = vec!{lit};"
        if not _valid_utf8(l):
            return None
        return f"let a{i}_b: &[u8] = &{lit}; let a{i}: &str = std::str::from_utf8(a{i}_b).unwrap();"
    if kind in ("usize", "u32", "u8", "char"):
        try:
            v = int(text.strip())
        except ValueError:
            return None
        lim = {"usize": 2**64, "u32": 2**32, "u8": 256, "char": 0x110000}[kind]
        if v >= lim:
            return None
        if kind == "char":
            if 0xD800 <= v <= 0xDFFF:
                return None
            return f"let a{i}: char = char::from_u32({v}u32).unwrap();"
        return f"let a{i}: {kind} = {v}{kind};"
    return None


# ---------------------------------------------------------------------------------------------
# comparison functions (groups Cmp2 … Cmp7, C16): the replay entry is built from the regenerated signature —
# `<path>(a0, a1)` against `a0 == a1` / `a0.cmp(&a1)`

CMP_GROUPS = {"Cmp", "Cmp2", "Cmp3", "Cmp4", "Cmp5", "Cmp6", "Cmp7"}


def sig_type_term(s, fname=""):
    """type term of a parameter type as rs2lean prints it in signatures.json; None when it has no Rust literal form"""
    s = s.strip()
    if s == "()":
        return "PhantomData" if "phantomdata" in fname else "PhantomPinned" if "phantompinned" in fname else None
    if s in _RANGE or s in ("bool", "char", "str", "Ordering"):
        return s
    m = re.fullmatch(r"NonZero<(\w+)>", s)
    if m:
        return ("nz", m.group(1)) if m.group(1) in _RANGE else None
    if s.startswith("Option<") and s.endswith(">"):
        t = sig_type_term(s[7:-1])
        return t and ("opt", t)
    if s.startswith("[") and s.endswith("]"):
        t = sig_type_term(s[1:-1])
        return t and ("slice", t)
    m = re.fullmatch(r"\((\w+),(\w+),\)", s)
    if m and m.group(1) == m.group(2) and (m.group(1) in _RANGE or m.group(1) == "char"):
        return ("range", m.group(1))
    m = re.fullmatch(r"\((\w+),(\w+),bool,\)", s)
    if m and m.group(1) == m.group(2) and (m.group(1) in _RANGE or m.group(1) == "char"):
        return ("rangeinc", m.group(1))
    return None


def cmp_auto_entries():
    """{lean name: (kinds, konst expression, std expression)} for the public `eq_*` / `cmp_*` functions"""
    try:
        sigs = json.load(open(os.path.join(core.ROOT, "lean", "KonstVerif", "Extracted", "Gen", "signatures.json")))
    except Exception:
        return {}
    out = {}
    for x in sigs:
        if x.get("kind") != "fn" or x.get("group") not in CMP_GROUPS or len(x.get("params", [])) != 2:
            continue
        name = x["lean"]
        if not re.fullmatch(r"(eq|cmp)_[a-z0-9_]+", name) or name.endswith("_inner") or "::cmp_inner" in x["rust"]:
            continue
        terms = [sig_type_term(p["rust"], name) for p in x["params"]]
        if any(t is None for t in terms):
            continue
        std = "a0 == a1" if name.startswith("eq_") else "a0.cmp(&a1)"
        out[name] = ([("typed", t) for t in terms], f"{x['rust']}(a0, a1)", std)
    # `CmpWrapper<&[T]>::const_eq / const_cmp` (group Cmp6): the method behind `const_eq!` / `const_cmp!` on slices
    for x in sigs:
        m = re.fullmatch(r"CmpWrapper_slice_\w+\.(const_eq|const_cmp)", x.get("lean", "")) if x.get("kind") == "fn" else None
        if m and len(x["params"]) == 2:
            terms = [sig_type_term(p["rust"]) for p in x["params"]]
            if all(terms):
                out[x["lean"]] = ([("typed", t) for t in terms], f"konst::cmp::CmpWrapper(a0).{m.group(1)}(a1)",
                                  "a0 == a1" if m.group(1) == "const_eq" else "a0.cmp(&a1)")
    return out


def replay_on_implementation(cex, workdir):
    """-> list of dicts: the counterexamples replayed on the real code with konst and std results"""
    from vlib.progs import common
    m = _load_map()
    blocks, kept = [], []
    auto = cmp_auto_entries()
    cex = list(cex)
    for c in cex:
        ent = m.REPLAY.get(c["fn"]) or auto.get(c["fn"])
        if not ent:
            continue
        kinds, konst_e, std_e = ent[0], ent[1], ent[2]
        skip = ent[3] if len(ent) > 3 else None
        if len(kinds) != len(c["args"]):
            continue
        if "parser_any" in kinds and not c.get("_variant"):
            # the same input once more with the parser working from the end (`.skip_back(0)`): the Lean state's direction
            # is only a hint, both directions are real runs of the real code
            cex.append(dict(c, _variant="back"))
        if c.get("_variant") == "back":
            kinds = ["parser_any_back" if k == "parser_any" else k for k in kinds]
        binds = [rust_binding(k, i, a) for i, (k, a) in enumerate(zip(kinds, c["args"]))]
        if any(b is None for b in binds):
            continue
        if any(STRUCTURED.get(k, ("",))[0] in ("array", "array_ref") and _array_len(a) != c.get("consts", {}).get("N")
               for k, a in zip(kinds, c["args"])):
            continue    # `[T; N]` with another number of elements is not a value of the Rust type
        idx = len(kept)
        guard = f"if !({skip}) " if skip else ""
        # const generics of the counterexample (N=3) are constants of the block: `[usize; N]` in the expressions
        binds = [f"const {n}: usize = {v};" for n, v in sorted(c.get("consts", {}).items()) if v < 2**64] + binds
        blocks.append(f"fn r{idx}() {{ " + " ".join(binds) + f" {guard}{{ let k = show(catch_unwind(AssertUnwindSafe(|| {konst_e}))); "
                      f"let s = show(catch_unwind(AssertUnwindSafe(|| {std_e}))); println!(\"REPLAY\\t{idx}\\t{{}}\\t{{}}\", k, s); }} }}")
        kept.append(dict(c, konst_expr=konst_e, std_expr=std_e))
    if not kept:
        return []
    os.makedirs(workdir, exist_ok=True)
    src = os.path.join(workdir, "xreplay.rs")
    with open(src, "w") as f:
        # one function per replayed input (rustc's time is superlinear in the size of a single function body)
        f.write(m.PRELUDE + "\n" + "\n".join(blocks) + "\nfn main() {\n    std::panic::set_hook(Box::new(|_| {}));\n"
                + "\n".join(f"    r{i}();" for i in range(len(blocks))) + "\n}\n")
    exe = os.path.join(workdir, "xreplay")
    rc, err = common.compile_one(src, exe)
    if rc != 0:
        return [{"error": "replay program did not compile: " + err[-600:]}]
    rc, out, err = common.run_bin(exe, timeout=120)
    res = []
    for line in out.split("\n"):
        if line.startswith("REPLAY\t"):
            _, idx, k, s = line.split("\t", 3)
            c = kept[int(idx)]
            res.append({"fn": c["fn"], "args": c["args"], **({"const_generics": c["consts"]} if c.get("consts") else {}),
                        "konst_call": c["konst_expr"], "std_call": c["std_expr"],
                        "konst": k[:300], "std": s[:300], "differs": k != s,
                        "extracted_now": c["new"], "extracted_committed": c["old"]})
    return res


def search(pid, changed_files, seed):
    groups = [f[:-5] for f in changed_files if f.endswith(".lean")]
    cex, note = lean_search(groups, seed)
    out = {"groups": groups, "lean_counterexamples": len(cex), "note": note, "samples": cex[:12], "replayed": [], "failing_inputs": []}
    if cex:
        try:
            rep = replay_on_implementation(cex, os.path.join(core.BUILD, "xsearch_" + pid))
        except Exception as e:  # the search is best effort
            rep = [{"error": f"{type(e).__name__}: {e}"}]
        out["replayed"] = rep[:40]
        out["failing_inputs"] = [r for r in rep if r.get("differs")][:20]
    return out
