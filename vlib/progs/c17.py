"""
C17 — misused macros are rejected at compile time.

Generates the family of programs (each guard x each syntactic shape the macro accepts), every invalid
program paired with its control (the same program with the offending element removed), compiles each
program ALONE (`rustc --emit=metadata`) against the konst rlib cargo has just built from /repo, and
writes two transcript rows per program:

  prog   <src> <guard> <descriptor> <invalid|control|probe> \t accept|reject[:<guard ids>] \t ?              \t in
  prog.v <src> <guard> <descriptor> <invalid|control|probe> \t accept|reject               \t <expectation>  \t in

`<src>` is the path (relative to the framework root) of the generated source, so a replay names the
program text.  `<descriptor>` is what the Lean driver evaluates (Model/Guards.lean).  The implementation
verdict is rustc's exit status; for `compile_error!`-based guards the guard's own message text (read from
the macro sources, table GUARD_MSGS) must additionally appear in / be absent from rustc's stderr.  rustc's
wording of type errors is never compared.  The expectation of the `prog.v` rows is the property statement
itself: invalid programs must be rejected, controls must compile (`probe` programs: `?`).
"""
import os, hashlib, itertools, subprocess, json
from vlib import core
from vlib.progs import common

PID = "C17"

# guard id -> substring of the compile_error! text in /repo (order = Reason.all in Model/Guards.lean)
GUARD_MSGS = [
    ("noparens", "method call expected arguments: "),                                   # __cim_assert_has_args
    ("tworev", "cannot call two iterator-reversing methods in `konst::iter` macros"),   # __assert_first_rev
    ("unknown", "unsupported iterator method: "),                                       # __cim_preprocess_methods
    ("args", "` does not take arguments, passed: "),                                    # __cim_error_on_args
    ("notinmacro", "` method cannot be called in this macro"),                          # __cim_method_not_found_err
    ("nodefault", "expected more branches, ending with a `_ => <expression>` branch"),  # __priv_tokens_after_middle_branch
    ("afterdefault", "expected no branches after the first `_ => <expression>` branch"),  # __priv_no_tokens_after_last_branch
    ("nonliteral", "Expected one of: string literal, concat!(...) , stringify!(...)"),  # konst_proc_macros IN_MSG
    ("pmethod", "Expected the second argument (the name of the Parser method)"),        # parser_method! last arm
    ("dotdot_struct", "`..` patterns are not supported in top-level struct patterns"),
    ("dotdot_tstruct", "`..` patterns are not supported in top-level tuple struct patterns"),
    ("dotdot_tuple", "`..` patterns are not supported in top-level tuple patterns"),
]


class Prog:
    __slots__ = ("guard", "desc", "flag", "src", "name", "controls")

    def __init__(self, guard, desc, flag, src):
        assert " " not in desc and "\t" not in desc, desc
        assert flag in ("invalid", "control", "probe")
        self.guard, self.desc, self.flag, self.src = guard, desc, flag, src
        # the name does not depend on the guard label: the same control may serve several guards
        self.name = "c17_" + hashlib.sha256((desc + "\0" + flag + "\0" + src).encode()).hexdigest()[:10]
        self.controls = []


class Fam(list):
    """collector: every invalid program is added together with its control(s)"""

    def pair(self, inv, *ctls):
        assert inv.flag == "invalid" and ctls and all(c.flag == "control" for c in ctls)
        inv.controls = [c.name for c in ctls]
        self.append(inv)
        self.extend(ctls)

    def ctl(self, p):
        assert p.flag == "control"
        self.append(p)

    def probe(self, p):
        assert p.flag == "probe"
        self.append(p)


# =============================================================================================
# iterator DSL
# =============================================================================================
# a token is (name, argkind, text); argkind n = no parentheses, e = `()`, g = arguments given

def T(name, text=None):
    """token from its rendering"""
    if text is None:
        text = name + "()"
    if "(" not in text:
        k = "n"
    elif text.replace(" ", "").endswith("()") and text.replace(" ", "") == name + "()":
        k = "e"
    else:
        k = "g"
    return (name, k, text)


# adapters usize -> usize (each atom is a list of tokens)
A_MAP = [T("map", "map(|x| x + 1)")]
A_FILTER = [T("filter", "filter(|x| *x != 3)")]
A_FILTER_MAP = [T("filter_map", "filter_map(|x| if x > 1 { Some(x) } else { None })")]
A_TAKE = [T("take", "take(5)")]
A_SKIP = [T("skip", "skip(1)")]
A_TAKE_WHILE = [T("take_while", "take_while(|x| *x < 8)")]
A_SKIP_WHILE = [T("skip_while", "skip_while(|x| *x < 2)")]
A_REV = [T("rev")]
A_FLAT_MAP = [T("flat_map", "flat_map(|x| x..x + 2)")]
A_ENUM = [T("enumerate"), T("map", "map(|(i, x)| i + x)")]
A_ZIP = [T("zip", "zip(10usize..20)"), T("map", "map(|(a, b)| a + b)")]
NONREV_ATOMS = [A_MAP, A_FILTER, A_TAKE, A_ENUM, A_FILTER_MAP, A_SKIP, A_TAKE_WHILE, A_SKIP_WHILE, A_FLAT_MAP, A_ZIP]

# sources: (expression, tokens that bring the item type to usize)
SRC_RANGE = ("0usize..10", [])
SRC_SLICE = ("&[1usize, 2, 3, 4]", [T("copied")])
SRC_NESTED = ("&[[1usize, 2], [3, 4]]", [T("flatten"), T("copied")])

# consumers on usize items
CONSUMERS = {
    "count": T("count"),
    "next": T("next"),
    "nth": T("nth", "nth(2)"),
    "for_each": T("for_each", "for_each(|x| { let _ = x; })"),
    "any": T("any", "any(|x| x == 3)"),
    "all": T("all", "all(|x| x < 100)"),
    "position": T("position", "position(|x| x == 3)"),
    "rposition": T("rposition", "rposition(|x| x == 3)"),
    "find": T("find", "find(|x| *x == 3)"),
    "rfind": T("rfind", "rfind(|x| *x == 3)"),
    "find_map": T("find_map", "find_map(|x| if x == 3 { Some(x) } else { None })"),
    "fold": T("fold", "fold(0usize, |a, x| a + x)"),
    "rfold": T("rfold", "rfold(0usize, |a, x| a + x)"),
}
REV_METHODS = ["rev", "rfind", "rposition", "rfold"]
MACROS = ["eval", "for_each", "collect_const", "from_iter"]
SUPPORTED = ["copied", "filter", "filter_map", "flat_map", "flatten", "map", "take_while", "rev", "rfind", "all",
             "any", "count", "find", "find_map", "rfold", "fold", "for_each", "nth", "next", "position", "rposition",
             "zip", "enumerate", "take", "skip", "skip_while"]


def rev_tok(name):
    return T("rev") if name == "rev" else CONSUMERS[name]


def dsl_src(macro, source, toks):
    chain = "".join(", " + t[2] for t in toks)
    if macro == "from_iter":
        body = f"let _s = konst::string::from_iter!({source}{chain});"
    elif macro == "eval":
        body = f"let _r = konst::iter::eval!({source}{chain});"
    elif macro == "for_each":
        body = f"konst::iter::for_each!{{x in {source}{chain} => {{ let _ = x; }}}}"
    else:
        body = f"let _a = konst::iter::collect_const!(usize => {source}{chain});"
    return f"pub const fn f() {{\n    {body}\n}}\n"


def dsl_desc(macro, toks):
    return f"dsl/{macro}/" + (",".join(f"{t[0]}:{t[1]}" for t in toks) if toks else "-")


def dsl(guard, flag, macro, source, toks):
    src_expr, prefix = source
    toks = list(prefix) + list(toks)
    if macro == "from_iter":
        # konst::string::from_iter! collects chars: one more `map` brings the usize items to char
        toks = toks + [T("map", "map(|x| if x > 3 { 'a' } else { 'b' })")]
    return Prog(guard, dsl_desc(macro, toks), flag, dsl_src(macro, src_expr, toks))


def flat(atoms):
    return [t for a in atoms for t in a]


def gen_dsl(tier):
    out = Fam()
    thorough = tier == "thorough"
    sources = [SRC_RANGE, SRC_SLICE, SRC_NESTED]
    D = lambda flag, macro, source, toks, guard: dsl(guard, flag, macro, source, toks)

    # ---- controls that use every supported method (so that the set of supported names is exercised)
    for macro in MACROS:
        for si, source in enumerate(sources):
            for atom in NONREV_ATOMS + [A_REV]:
                if not thorough and si > 0 and atom not in (A_MAP, A_REV):
                    continue
                out.ctl(dsl("supported", "control", macro, source, atom))
        out.ctl(dsl("supported", "control", macro, SRC_RANGE, []))
        out.ctl(dsl("supported", "control", macro, SRC_RANGE, flat(NONREV_ATOMS)))
    for cname, ctok in CONSUMERS.items():
        out.ctl(dsl("supported", "control", "eval", SRC_RANGE, [ctok]))
        out.ctl(dsl("supported", "control", "eval", SRC_SLICE, A_MAP + A_TAKE + [ctok]))

    # ---- two reversing methods: every ordered pair, separated by 0..k non-reversing adapters
    seps = [[], A_MAP, A_TAKE, A_MAP + A_ENUM] + ([A_FILTER + A_SKIP + A_FLAT_MAP, A_ZIP + A_TAKE_WHILE + A_SKIP_WHILE + A_FILTER_MAP] if thorough else [])
    fwd_twin = {"rfind": "find", "rposition": "position", "rfold": "fold"}
    for macro in MACROS:
        for r1 in REV_METHODS:
            for r2 in REV_METHODS:
                for si, sep in enumerate(seps):
                    if r1 != "rev" and si > 0:
                        continue        # nothing may follow a consumer: only the adjacent pair
                    if not thorough and si > 1 and r2 != "rev":
                        continue
                    srcs = sources if (thorough or (r2 == "rev" and si == 0)) else [SRC_RANGE]
                    for source in srcs:
                        pre = A_FILTER if (si % 2 == 1) else []
                        first = pre + [rev_tok(r1)] + sep
                        bad = first + [rev_tok(r2)]
                        if r1 == "rev" and (r2 == "rev" or macro == "eval"):
                            # control: the second reversing method removed / replaced by its forward twin
                            ctls = [dsl("rev2", "control", macro, source, first)]
                            if r2 in fwd_twin:
                                ctls.append(dsl("rev2", "control", macro, source, first + [CONSUMERS[fwd_twin[r2]]]))
                            out.pair(dsl("rev2", "invalid", macro, source, bad), *ctls)
                        elif r1 != "rev" and macro == "eval":
                            # `rfind(..), rev()`: also invalid because something follows the consumer; the
                            # control (second reversal removed) is the consumer alone
                            out.pair(dsl("rev2", "invalid", macro, source, bad), dsl("rev2", "control", macro, source, first))
                        else:
                            # a consumer is not allowed in this macro at all: two defects, no single control
                            out.probe(dsl("rev2", "probe", macro, source, bad))
        # three reversals; reversal after stateful adapters only
        out.pair(dsl("rev2", "invalid", macro, SRC_RANGE, A_REV + A_REV + A_REV), dsl("rev2", "control", macro, SRC_RANGE, A_REV))
        out.pair(dsl("rev2", "invalid", macro, SRC_RANGE, A_REV + A_TAKE + A_SKIP + A_REV),
                 dsl("rev2", "control", macro, SRC_RANGE, A_REV + A_TAKE + A_SKIP),
                 dsl("rev2", "control", macro, SRC_RANGE, A_TAKE + A_SKIP + A_REV))
    for r in REV_METHODS[1:]:
        out.ctl(dsl("rev2", "control", "eval", SRC_RANGE, [CONSUMERS[r]]))
        out.ctl(dsl("rev2", "control", "eval", SRC_RANGE, A_MAP + A_TAKE + [CONSUMERS[r]]))

    # ---- argument-less methods given an argument
    argvals = ["1", "x", "|x| x", "1, 2"] if thorough else ["1", "x"]
    EM = [T("map", "map(|(i, x)| i + x)")]
    for macro in MACROS:
        for av in argvals:
            # adapters: rev, enumerate, copied, flatten at first / middle / last position
            cases = [
                (SRC_RANGE, [], "rev", A_MAP),
                (SRC_RANGE, A_MAP, "rev", []),
                (SRC_RANGE, A_FILTER, "rev", A_TAKE),
                (SRC_RANGE, [], "enumerate", EM),
                (SRC_RANGE, A_MAP, "enumerate", EM + A_SKIP),
                (("&[1usize, 2, 3, 4]", []), [], "copied", A_MAP),
                (("&[1usize, 2, 3, 4]", []), [T("filter", "filter(|x| **x != 3)")], "copied", []),
                (("&[[1usize, 2], [3, 4]]", []), [], "flatten", [T("copied")]),
                (("&[[1usize, 2], [3, 4]]", []), [T("take", "take(1)")], "flatten", [T("copied")] + A_MAP),
            ]
            for source, pre, m, post in cases:
                bad = T(m, f"{m}({av})")
                out.pair(dsl("args", "invalid", macro, source, pre + [bad] + post),
                         dsl("args", "control", macro, source, pre + [T(m)] + post))
        if macro == "eval":
            for av in argvals:
                for m in ("count", "next"):
                    for pre in ([], A_MAP + A_TAKE, A_REV):
                        out.pair(dsl("args", "invalid", macro, SRC_RANGE, pre + [T(m, f"{m}({av})")]),
                                 dsl("args", "control", macro, SRC_RANGE, pre + [T(m)]))
    # several offending arguments at once (not a minimal pair: probe)
    out.probe(dsl("args", "probe", "eval", SRC_RANGE, [T("rev", "rev(1)"), T("enumerate", "enumerate(0)")] + EM + [T("count", "count(1)")]))
    out.ctl(dsl("args", "control", "eval", SRC_RANGE, [T("rev"), T("enumerate")] + EM + [T("count")]))

    # ---- unsupported method names
    unknown = [("last", "last()"), ("sum", "sum()"), ("step_by", "step_by(2)"), ("peekable", "peekable()"),
               ("min", "min()"), ("collect", "collect()"), ("chain", "chain(0usize..3)"), ("Map", "Map(|x| x)")]
    if thorough:
        unknown += [("max", "max()"), ("cycle", "cycle()"), ("product", "product()"), ("cloned", "cloned()"),
                    ("inspect", "inspect(|x| ())"), ("fuse", "fuse()"), ("map_while", "map_while(|x| Some(x))"),
                    ("try_fold", "try_fold(0, |a, x| Some(a + x))")]
        # two misspellings per supported name
        for n in SUPPORTED:
            unknown.append((n + "s", n + "s()"))
            unknown.append((n.capitalize(), n.capitalize() + "(|x| x)"))
    for macro in MACROS:
        for name, text in unknown:
            bad = (name, "e" if text.endswith("()") else "g", text)
            positions = [([], []), (A_MAP, []), ([], A_MAP), (A_REV + A_TAKE, A_FILTER)]
            if not thorough:
                positions = positions[:2] if name not in ("last", "step_by") else positions
            for pre, post in positions:
                out.pair(dsl("unknown", "invalid", macro, SRC_RANGE, pre + [bad] + post),
                         dsl("unknown", "control", macro, SRC_RANGE, pre + post))
    # an unsupported name hides later errors of the walk (the pre-pass stops), but not earlier pre-pass errors
    LAST = [("last", "e", "last()")]
    out.probe(dsl("unknown", "probe", "eval", SRC_RANGE, [T("rev", "rev(1)")] + LAST))
    out.probe(dsl("unknown", "probe", "eval", SRC_RANGE, A_REV + A_REV + LAST))
    out.probe(dsl("unknown", "probe", "eval", SRC_RANGE, A_REV + LAST + A_REV))

    # ---- a consumer inside an adapter-only macro ("cannot be called in this macro")
    for macro in ("for_each", "collect_const", "from_iter"):
        for cname, ctok in CONSUMERS.items():
            if not thorough and cname not in ("count", "next", "for_each", "rfind", "fold", "nth"):
                continue
            for pre in ([], A_MAP + A_TAKE):
                out.pair(dsl("notinmacro", "invalid", macro, SRC_RANGE, pre + [ctok]),
                         dsl("notinmacro", "control", macro, SRC_RANGE, pre))

    # ---- probes: shapes that are rejected by rustc's macro matcher or by guards outside this property
    P = lambda macro, toks: out.probe(dsl("probe", "probe", macro, SRC_RANGE, toks))
    P("eval", [CONSUMERS["count"]] + A_MAP)                      # method after a consumer
    P("eval", [CONSUMERS["nth"], CONSUMERS["position"]])         # two return clauses
    P("eval", [CONSUMERS["for_each"]] + A_MAP)
    P("eval", [("enumerate", "n", "enumerate")] + EM + [T("count")])   # no parentheses
    P("eval", [("map", "n", "map"), T("count")])
    P("eval", [("map", "e", "map()"), T("count")])
    P("eval", [("take", "e", "take()"), T("count")])
    P("eval", [("fold", "e", "fold()")])
    P("eval", [("nth", "e", "nth()")])
    P("for_each", [("enumerate", "n", "enumerate")])
    P("collect_const", [("rev", "n", "rev")])
    P("from_iter", [("rev", "n", "rev")])
    P("for_each", [CONSUMERS["nth"], CONSUMERS["position"]])
    P("eval", [("count", "n", "count")])
    return out


# =============================================================================================
# parser_method!
# =============================================================================================
PAT_TEXT = {
    "str": '"ab"', "raw": 'r#"ab"#', "concat": 'concat!("a", "b")', "stringify": "stringify!(ab)",
    "wild": "_", "const": "FOO", "var": "x", "call": "foo()", "bstr": 'b"ab"', "chr": "'a'", "int": "1",
    "concatid": 'concat!("a", FOO)',
    # a constant named by a path, a macro call that is neither concat! nor stringify!
    "path": "self::FOO", "mac": "file!()",
    # spellings of the EMPTY literal (still literals: what follows them in a `|` group must be validated too)
    "estr": '""', "eraw": 'r""', "eraw1": 'r#""#', "econcat0": "concat!()", "econcat2": 'concat!("", "")',
    "estringify": "stringify!()",
}
LITERAL_PATS = ["str", "raw", "concat", "stringify"]
NONLIT_PATS = ["const", "var", "call", "bstr", "chr", "int", "concatid", "wild"]
EMPTY_PATS = ["estr", "eraw", "econcat0", "econcat2"]
EMPTY_PATS_MORE = ["eraw1", "estringify"]
POS_NONLIT_PATS = ["const", "path", "bstr", "int", "mac"]
POS_NONLIT_PATS_MORE = ["var", "call", "chr", "concatid", "wild"]
MATCH_METHODS = ["strip_prefix", "strip_suffix", "find_skip", "rfind_skip"]
TRIM_METHODS = ["trim_start_matches", "trim_end_matches"]


def pm_src(method, body_text, returns):
    ret = " -> u32" if returns else ""
    return ("use konst::{Parser, parser_method};\n"
            "pub const FOO: &str = \"ab\";\n"
            "pub const fn foo() -> &'static str { \"ab\" }\n"
            f"pub const fn f(mut p: Parser<'_>){ret} {{\n"
            "    let x = \"ab\";\n"
            "    let _ = x;\n"
            f"    parser_method!{{p, {method}; {body_text}}}\n"
            "}\n")


def pm_branches(guard, flag, method, branches):
    """branches: list of (pats, block, comma)"""
    texts, descs = [], []
    for i, (pats, block, comma) in enumerate(branches):
        e = "{ %d }" % i if block else str(i)
        texts.append(" | ".join(PAT_TEXT[p] for p in pats) + " => " + e + ("," if comma else ""))
        descs.append("|".join(pats) + "=" + ("b" if block else "x") + ("c" if comma else "n"))
    returns = method in MATCH_METHODS or method not in TRIM_METHODS
    return Prog(guard, f"pm/{method}/b:" + ";".join(descs), flag, pm_src(method, " ".join(texts), returns))


def pm_pats(guard, flag, method, pats):
    body = " | ".join(PAT_TEXT[p] for p in pats)
    return Prog(guard, f"pm/{method}/p:" + ("|".join(pats) if pats else "-"), flag, pm_src(method, body, False))


def gen_pm(tier):
    out = Fam()
    thorough = tier == "thorough"
    D = (["wild"], False, False)           # `_ => e`
    Dc = (["wild"], False, True)           # `_ => e,`
    Db = (["wild"], True, False)           # `_ => { e }`
    B = lambda pats, block=False, comma=True: (list(pats), block, comma)
    inv = lambda g, m, bs: pm_branches(g, "invalid", m, bs)
    ctl = lambda g, m, bs: pm_branches(g, "control", m, bs)

    for method in MATCH_METHODS:
        # controls: every accepted literal kind, alternations, block branches without comma
        for lp in LITERAL_PATS:
            out.ctl(ctl("literal", method, [B([lp]), D]))
        out.ctl(ctl("literal", method, [B(["str", "raw"]), B(["concat"]), Dc]))
        out.ctl(ctl("default", method, [D]))
        out.ctl(ctl("default", method, [B(["str"], block=True, comma=False), Db]))
        out.ctl(ctl("default", method, [B(["str"], block=True, comma=True), B(["raw"]), D]))

        # non-literal patterns (control: the offending pattern removed / replaced by a literal)
        nonlit = NONLIT_PATS if thorough or method in ("strip_prefix", "find_skip") else ["const", "var", "call"]
        for np in nonlit:
            shapes = [
                ([B([np]), D], [B(["str"]), D]),                              # sole pattern of the first branch
                ([B(["str", np]), D], [B(["str"]), D]),                       # last alternative
                ([B([np, "str"]), D], [B(["str"]), D]),                       # first alternative
                ([B(["str"]), B([np]), Dc], [B(["str"]), B(["raw"]), Dc]),    # second branch
            ]
            if not thorough and np not in ("const", "var", "call"):
                shapes = shapes[:2]
            for i_, c_ in shapes:
                out.pair(inv("nonliteral", method, i_), ctl("nonliteral", method, c_))

        # missing default (control: the default added)
        for n in ([1, 2, 3] if thorough else [1, 2]):
            pre = [B([LITERAL_PATS[i % 4]]) for i in range(n)]
            out.pair(inv("nodefault", method, pre), ctl("nodefault", method, pre + [D]), ctl("nodefault", method, pre + [Dc]))   # last has `,`
            lastb = pre[:-1] + [B(pre[-1][0], block=True, comma=False)]
            out.pair(inv("nodefault", method, lastb), ctl("nodefault", method, lastb + [D]))                                   # last is a block
            lastx = pre[:-1] + [B(pre[-1][0], block=False, comma=False)]
            out.pair(inv("nodefault", method, lastx), ctl("nodefault", method, pre + [D]))                                     # last has no `,`

        # branch after the default (control: what follows the default removed)
        for k in ([0, 1, 2] if thorough else [0, 1]):
            pre = [B([LITERAL_PATS[i % 4]]) for i in range(k)]
            c1, c2 = ctl("afterdefault", method, pre + [Dc]), ctl("afterdefault", method, pre + [D])
            for after in ([B(["str"], comma=False)], [B(["str"])], [B(["raw"]), D], [Dc]):
                if not thorough and after == [Dc] and k == 1:
                    continue
                out.pair(inv("afterdefault", method, pre + [Dc] + after), c1, c2)
            # a non-literal after the default is never looked at
            out.pair(inv("afterdefault", method, pre + [Dc, B(["const"], comma=False)]), c1)

        # probes
        out.probe(pm_branches("probe", "probe", method, [Db, D]))                    # `_ => {..} _ => e`
        out.probe(pm_branches("probe", "probe", method, [D, B(["str"])]))            # `_ => 0 "ab" => 1,`
        out.probe(pm_pats("probe", "probe", method, ["str", "raw"]))                  # bare patterns
        out.probe(pm_pats("probe", "probe", method, []))

    for method in TRIM_METHODS:
        for lp in LITERAL_PATS:
            out.ctl(pm_pats("literal", "control", method, [lp]))
        out.ctl(pm_pats("literal", "control", method, ["str", "raw", "concat"]))
        for np in (NONLIT_PATS if thorough else ["const", "var", "call", "wild"]):
            out.pair(pm_pats("nonliteral", "invalid", method, [np]), pm_pats("nonliteral", "control", method, ["str"]))
            out.pair(pm_pats("nonliteral", "invalid", method, ["str", np]), pm_pats("nonliteral", "control", method, ["str"]))
            out.pair(pm_pats("nonliteral", "invalid", method, [np, "raw", "str"]), pm_pats("nonliteral", "control", method, ["raw", "str"]))
        out.probe(pm_branches("probe", "probe", method, [B(["str"]), D]))
        out.probe(pm_branches("probe", "probe", method, [B(["str"])]))
        out.probe(pm_pats("probe", "probe", method, []))
    gen_pm_positions(out, tier)
    out.probe(pm_branches("probe", "probe", "bogus", [B(["str"]), D]))
    out.probe(pm_pats("probe", "probe", "trim_matches", ["str"]))
    return out


def gen_pm_positions(out, tier):
    """a non-literal alternative at EVERY position of a `|` group that also holds an empty literal
    (right after it, later after it, before it; group of 2 and of 3), the group being the first or a later
    branch (followed by further branches or not), for all six method forms.  The proc macro must look at every
    alternative of every group whatever the literals before it decode to; each program's control is the same
    program with the offending alternative(s) removed."""
    thorough = tier == "thorough"
    D = (["wild"], False, False)
    Dc = (["wild"], False, True)
    B = lambda pats, block=False, comma=True: (list(pats), block, comma)
    empties = EMPTY_PATS + (EMPTY_PATS_MORE if thorough else [])
    nonlits = POS_NONLIT_PATS + (POS_NONLIT_PATS_MORE if thorough else [])
    # (group with placeholders E = empty literal, N = non-literal, S = "ab"; control class)
    SHAPES = [(("E", "N"), 0), (("N", "E"), 0),
              (("S", "E", "N"), 1), (("S", "N", "E"), 1),
              (("E", "N", "S"), 2), (("E", "S", "N"), 2)]

    def fill(shape, e, n):
        return [{"E": e, "N": n, "S": "str"}.get(x, x) for x in shape]

    def without_n(shape, e):
        return [{"E": e, "S": "str"}.get(x, x) for x in shape if x != "N"]

    def layout(group, bp, long_):
        """the branch list around the group: first branch / a later branch; alone or followed by another branch"""
        if bp == 0:
            return [B(group), B(["raw"]), D] if long_ else [B(group), D]
        if long_:
            return [B(["str"]), B(group, block=True, comma=False), B(["raw"]), D]
        return [B(["str"]), B(group), Dc]

    def match_pair(method, bp, long_, bad, good):
        out.pair(pm_branches("nonliteral", "invalid", method, layout(bad, bp, long_)),
                 pm_branches("nonliteral", "control", method, layout(good, bp, long_)))

    def trim_pair(method, bad, good):
        out.pair(pm_pats("nonliteral", "invalid", method, bad), pm_pats("nonliteral", "control", method, good))

    for mi, method in enumerate(MATCH_METHODS):
        for bp in (0, 1):
            for si, (shape, ci) in enumerate(SHAPES):
                long_ = ci == 1 or (ci == 2 and mi % 2 == 1)
                slot = si + len(SHAPES) * bp + mi
                # quick: the non-literal kind rotates over the slots (all kinds per method); thorough: all kinds
                for ni in (range(len(nonlits)) if thorough else [slot % len(nonlits)]):
                    e = empties[(mi + ci + 3 * bp + (ni if thorough else 0)) % len(empties)]
                    match_pair(method, bp, long_, fill(shape, e, nonlits[ni]), without_n(shape, e))
        # several non-literals after the empty literal; a non-literal in the middle of a group without one
        e = empties[mi % len(empties)]
        match_pair(method, mi % 2, False, [e, "const", "bstr", "int"], [e])
        match_pair(method, 1 - mi % 2, mi % 2 == 0, ["str", nonlits[mi % len(nonlits)], "raw"], ["str", "raw"])

    for ti, method in enumerate(TRIM_METHODS):
        for j in (0, 1):
            for si, (shape, ci) in enumerate(SHAPES):
                slot = si + len(SHAPES) * j + ti
                for ni in (range(len(nonlits)) if thorough else [slot % len(nonlits)]):
                    e = empties[(2 * ti + ci + 2 * j + (ni if thorough else 0)) % len(empties)]
                    trim_pair(method, fill(shape, e, nonlits[ni]), without_n(shape, e))
        e = empties[(ti + 2) % len(empties)]
        trim_pair(method, [e, "const", "bstr", "int"], [e])
        trim_pair(method, ["str", nonlits[(ti + 1) % len(nonlits)], "raw"], ["str", "raw"])


# =============================================================================================
# destructure!
# =============================================================================================

def ds_prog(shape, n, form, const_ctx, defect, ann=False, ft="String", k=None, dd_pos="last", extra=""):
    """
    shape: braced | tstruct | tuple | array;  n: number of fields/elements of the TYPE
    form:  path | pats | modpath | type | generic | selfp            (structs)
           plain | generic                                           (tuple)
           plain | under | paren                                     (array)
    defect: None | drop | dropfield | ref | refmut | toofew | toomany | dotdot | rest (array `..` forms)
    k: number of fields listed in the pattern (derived from the defect when None)
    """
    refd = defect in ("ref", "refmut")
    if refd:
        ft = "u32"
    generic = form == "generic"
    T_ = "T" if generic else ft
    if defect == "dropfield":
        T_ = "D"
    if k is None:
        k = n - 1 if defect == "toofew" else n + 1 if defect == "toomany" else n
    items = []
    # ---------- type definition
    tname = {"braced": "Braced", "tstruct": "Tup"}.get(shape)
    gen_decl = "<T>" if generic else ""
    if defect == "dropfield":
        items.append("pub struct D(pub u8);\nimpl Drop for D { fn drop(&mut self) {} }")
    if shape == "braced":
        fields = ", ".join(f"pub f{i}: {T_}" for i in range(n))
        tdef = f"pub struct Braced{gen_decl} {{ {fields} }}"
    elif shape == "tstruct":
        fields = ", ".join(f"pub {T_}" for i in range(n))
        tdef = f"pub struct Tup{gen_decl}({fields});"
    else:
        tdef = ""
    if tdef and defect == "drop":
        tdef += f"\nimpl{gen_decl} Drop for {tname}{gen_decl} {{ fn drop(&mut self) {{}} }}"
    if tdef and form == "modpath":
        tdef = "pub mod m {\n" + tdef + "\n}"
    if tdef:
        items.append(tdef)
    # ---------- the value's type
    if shape in ("braced", "tstruct"):
        vty = (("m::" if form == "modpath" else "") + tname + gen_decl)
    elif shape == "tuple":
        vty = "(" + "".join(f"{T_}, " for _ in range(n)) + ")" if n != 1 else f"({T_},)"
        if n == 0:
            vty = "()"
    else:
        vty = f"[{T_}; {n}]"
    pty = {"ref": "&" + vty, "refmut": "&mut " + vty}.get(defect, vty)
    # ---------- the pattern
    binds = []          # (name, type)
    dd = defect == "dotdot"
    if shape == "braced":
        parts = []
        for i in range(k):
            fname = f"f{i}" if i < n else f"zz{i}"
            if form in ("pats", "selfp"):
                parts.append(f"{fname}: b{i}")
                bname = f"b{i}"
            else:
                parts.append(fname)
                bname = fname
            if i < n:
                binds.append((bname, T_))
        if dd:
            parts = parts + [".."] if dd_pos == "last" else [".."] + parts
        head = {"path": "Braced", "pats": "Braced", "modpath": "m::Braced", "type": "Braced<>",
                "generic": "Braced", "selfp": "Self", "gentype": "Braced::<T>"}[form]
        if generic and ann:
            head = "Braced::<T>"
        pat = head + " {" + ", ".join(parts) + "}"
    elif shape == "tstruct":
        parts = [f"b{i}" for i in range(k)]
        binds = [(f"b{i}", T_) for i in range(min(k, n))]
        if dd:
            parts = parts + [".."] if dd_pos == "last" else [".."] + parts
        head = {"path": "Tup", "pats": "Tup", "modpath": "m::Tup", "type": "Tup<>,", "generic": "Tup",
                "selfp": "Self"}[form]
        if generic and ann:
            head = "Tup::<T>,"
        pat = head + " (" + ", ".join(parts) + ")"
    elif shape == "tuple":
        parts = [f"b{i}" for i in range(k)]
        binds = [(f"b{i}", T_) for i in range(min(k, n))]
        if dd:
            parts = parts + [".."] if dd_pos == "last" else [".."] + parts
        pat = "(" + ", ".join(parts) + ("," if len(parts) == 1 and not dd else "") + ")"
    else:
        parts = []
        for i in range(k):
            if form == "under" and i == 0:
                parts.append("_")
            elif form == "paren" and i == 0:
                parts.append("(b0)")
                binds.append(("b0", T_))
            else:
                parts.append(f"b{i}")
                if i < n:
                    binds.append((f"b{i}", T_))
        if defect == "dotdot":                  # `..` ignoring the rest — supported in arrays
            parts = parts + [".."] if dd_pos == "last" else [".."] + parts
        pat = "[" + ", ".join(parts) + "]"
    if defect == "rest":
        # array `rest @ ..` forms; k = number of single elements listed, dd_pos says where the rest goes
        singles = [f"b{i}" for i in range(k)]
        binds = [(f"b{i}", T_) for i in range(k)] + [("rest", f"[{T_}; {n - k}]")]
        if dd_pos == "last":
            parts = singles + ["rest @ .."]
        elif dd_pos == "first":
            parts = ["rest @ .."] + singles
        else:
            parts = singles[:1] + ["rest @ .."] + singles[1:]
        pat = "[" + ", ".join(parts) + "]"
    if dd and shape == "array" and ft == "String":
        # `..` without a binding would leak nothing but drops nothing either: elements are forgotten;
        # in const fn the skipped elements are not dropped (ManuallyDrop), so this compiles
        pass
    annot = ""
    if ann:
        annot = ": " + (pty if refd else vty)
    # ---------- the function
    recv = "self" if form == "selfp" else "v"
    if refd or not binds:
        ret, tail = "", ""
        if refd and binds:
            tail = "    let _ = (" + ", ".join("&" + b for b, _ in binds) + ",);\n"
    else:
        ret = " -> (" + "".join(f"{t}, " for _, t in binds) + ")"
        tail = "    (" + "".join(f"{b}, " for b, _ in binds) + ")\n"
    kw = "pub const fn" if const_ctx else "pub fn"
    gp = "<T>" if generic else ""
    body = f"    konst::destructure!{{{pat}{annot} = {recv}}}\n{tail}"
    if form == "selfp":
        fn = f"impl {tname} {{\n{kw} f(self){ret} {{\n{body}}}\n}}"
    else:
        fn = f"{kw} f{gp}(v: {pty}){ret} {{\n{body}}}"
    items.append(fn)
    src = "\n".join(items) + "\n"
    dname = {None: "none", "dropfield": "none", "rest": "none"}.get(defect, defect)
    if defect == "dotdot" and shape == "array":
        pass
    empty = "e" if (k == 0 and not dd and defect != "rest") else "n"
    variant = f"{form}.{'ann' if ann else 'noann'}.{'const' if const_ctx else 'fn'}.n{n}.k{k}.{ft}"
    if defect in ("dropfield", "rest") or dd:
        variant += f".{defect}.{dd_pos}"
    if extra:
        variant += "." + extra
    return f"ds/{shape}/{empty}/{dname}/{variant}", src


def gen_ds(tier):
    out = Fam()
    thorough = tier == "thorough"

    def mk(guard, flag, *a, **kw):
        desc, src = ds_prog(*a, **kw)
        if kw.get("extra") == "toomany":       # a rest pattern with one element too many: invalid by count
            desc = desc.replace("/none/", "/toomany/", 1)
        return Prog(guard, desc, flag, src)

    def ctl(guard, *a, **kw):
        out.ctl(mk(guard, "control", *a, **kw))

    def inv(guard, shape, n, form, cc, defect, ckw=None, **kw):
        """invalid program + its control: the same shape/form/annotation/context without the defect
        (by value, no Drop impl, every field listed, no `..`); `ckw` overrides the control's arguments"""
        c = dict(kw)
        for key in ("k", "dd_pos", "extra"):
            c.pop(key, None)
        cdef = None
        if defect in ("ref", "refmut"):
            c["ft"] = "u32"
        c.update(ckw or {})
        cdef = c.pop("defect", None)
        out.pair(mk(guard, "invalid", shape, n, form, cc, defect, **kw), mk(guard, "control", shape, n, form, cc, cdef, **c))

    struct_forms = ["path", "pats", "modpath", "type", "generic", "selfp"]
    ns = [1, 2, 3] if thorough else [2]
    ctxs = [True, False]
    for shape in ("braced", "tstruct"):
        for form in struct_forms:
            for n in ns:
                for ann in ([False, True] if form in ("path", "type", "generic") else [False]):
                    for cc in ctxs:
                        if not thorough and not cc and form not in ("path", "type"):
                            continue
                        kw = dict(ann=ann)
                        ctl("shape", shape, n, form, cc, None, **kw)
                        if form not in ("generic", "modpath"):
                            ctl("drop", shape, n, form, cc, "dropfield", **kw)      # a Drop FIELD is allowed
                        inv("drop", shape, n, form, cc, "drop", **kw)               # Drop impl on the struct itself
                        if form != "selfp":
                            inv("ref", shape, n, form, cc, "ref", **kw)
                            inv("ref", shape, n, form, cc, "refmut", **kw)
                        inv("count", shape, n, form, cc, "toofew", **kw)
                        inv("count", shape, n, form, cc, "toomany", **kw)
                        inv("dotdot", shape, n, form, cc, "dotdot", **kw)           # all fields and `..`
                        inv("dotdot", shape, n, form, cc, "dotdot", k=n - 1, **kw)  # one field replaced by `..`
                        if thorough:
                            inv("dotdot", shape, n, form, cc, "dotdot", k=0, **kw)
                            inv("dotdot", shape, n, form, cc, "dotdot", k=n - 1, dd_pos="first", **kw)
    for form in ("plain", "generic"):
        for n in ([1, 2, 3] if thorough else [2, 3]):
            for ann in (False, True):
                for cc in ctxs:
                    if not thorough and not cc and ann:
                        continue
                    kw = dict(ann=ann)
                    ctl("shape", "tuple", n, form, cc, None, **kw)
                    if form == "plain":
                        ctl("drop", "tuple", n, form, cc, "dropfield", **kw)
                    inv("ref", "tuple", n, form, cc, "ref", **kw)
                    inv("ref", "tuple", n, form, cc, "refmut", **kw)
                    inv("count", "tuple", n, form, cc, "toofew", **kw)
                    inv("count", "tuple", n, form, cc, "toomany", **kw)
                    inv("dotdot", "tuple", n, form, cc, "dotdot", **kw)
                    inv("dotdot", "tuple", n, form, cc, "dotdot", k=n - 1, **kw)
                    if thorough:
                        inv("dotdot", "tuple", n, form, cc, "dotdot", k=n - 1, dd_pos="first", **kw)
                        inv("dotdot", "tuple", n, form, cc, "dotdot", k=0, **kw)
    for form in ("plain", "generic", "under", "paren"):
        for n in ([1, 2, 4] if thorough else [2, 3]):
            for ann in (False, True):
                for cc in ctxs:
                    if not thorough and (not cc and ann or form in ("under", "paren") and (ann or not cc)):
                        continue
                    kw = dict(ann=ann)
                    ft = "u32" if form == "under" else "String"
                    ctl("shape", "array", n, form, cc, None, ft=ft, **kw)
                    if form == "plain":
                        ctl("drop", "array", n, form, cc, "dropfield", **kw)
                    inv("ref", "array", n, form, cc, "ref", **kw)
                    inv("ref", "array", n, form, cc, "refmut", **kw)
                    inv("count", "array", n, form, cc, "toofew", ft=ft, **kw)
                    inv("count", "array", n, form, cc, "toomany", ft=ft, **kw)
                    if form in ("plain", "generic"):
                        # arrays DO support rest patterns: controls
                        # (an unnamed `..` over elements that may need dropping is refused by rustc in a
                        #  const fn — E0493 on the macro's type-level `rem @ ..` binding — so the generic form
                        #  is generated in plain fns only; see notes/C17.md)
                        if not (form == "generic" and cc):
                            ctl("dotdot", "array", n, form, cc, "dotdot", k=n - 1, ft="u32", **kw)
                            ctl("dotdot", "array", n, form, cc, "dotdot", k=n - 1, dd_pos="first", ft="u32", **kw)
                        ctl("dotdot", "array", n, form, cc, "rest", k=n - 1, **kw)
                        ctl("dotdot", "array", n, form, cc, "rest", k=n - 1, dd_pos="first", **kw)
                        if n >= 3:
                            ctl("dotdot", "array", n, form, cc, "rest", k=2, dd_pos="mid", **kw)
                        # a rest pattern does not excuse a wrong count
                        inv("count", "array", n, form, cc, "rest", k=n + 1, extra="toomany",
                            ckw=dict(defect="rest", k=n - 1), **kw)
    # ---- empty patterns: the macro's dedicated arms
    for shape in ("braced", "tstruct", "tuple", "array"):
        forms = ["path", "type"] if shape in ("braced", "tstruct") else ["plain"]
        for form in forms:
            for ann in (False, True):
                for cc in ctxs:
                    kw = dict(ann=ann)
                    ctl("shape", shape, 0, form, cc, None, **kw)
                    if shape in ("braced", "tstruct") and not cc:
                        # (in a const fn rustc itself refuses to drop the value: E0493, unrelated to the macro)
                        inv("drop", shape, 0, form, cc, "drop", **kw)
                    inv("ref", shape, 0, form, cc, "ref", **kw)
                    inv("ref", shape, 0, form, cc, "refmut", **kw)
                    inv("count", shape, 0, form, cc, "toomany", **kw)
                    if shape != "array":
                        inv("dotdot", shape, 0, form, cc, "dotdot", **kw)
                    else:
                        ctl("dotdot", shape, 0, form, cc, "dotdot", **kw)
    return out


# =============================================================================================
# driver
# =============================================================================================

def all_programs(tier):
    progs = gen_dsl(tier) + gen_pm(tier) + gen_ds(tier)
    seen, uniq = {}, []
    for p in progs:
        key = (p.desc, p.flag, p.src)
        if key in seen:
            q = seen[key]
            q.controls = sorted(set(q.controls) | set(p.controls))
            continue
        seen[key] = p
        uniq.append(p)
    return uniq


def classify(rc, stderr):
    if rc == 0:
        return "accept", "accept"
    if "error: internal compiler error" in stderr or "error: couldn't read" in stderr or "can't find crate" in stderr:
        return "toolfail", "toolfail"
    ids = [g for g, msg in GUARD_MSGS if msg in stderr]
    return ("reject:" + "+".join(ids)) if ids else "reject", "reject"


def generate(ctx):
    tier, only = ctx["tier"], ctx.get("only")
    wd = common.workdir(PID)
    rel = os.path.relpath(wd, core.ROOT)
    progs = all_programs(tier)

    def reqs(p):
        tail = f"{rel}/{p.name}.rs {p.guard} {p.desc} {p.flag}"
        return "prog " + tail, "prog.v " + tail

    if only is not None:
        progs = [p for p in progs if any(r in only for r in reqs(p))]
    jobs = []
    for p in progs:
        sp = os.path.join(wd, p.name + ".rs")
        with open(sp, "w") as f:
            f.write(f"// {PID} {p.guard} {p.flag} {p.desc}\n" + p.src)
        jobs.append((sp, os.path.join(wd, p.name + ".rmeta"), "metadata"))
    results = common.compile_many(jobs, workers=16)
    rows, per_guard, samples = [], {}, []
    for p, (rc, err) in zip(progs, results):
        fine, coarse = classify(rc, err)
        r1, r2 = reqs(p)
        expect = {"invalid": "reject", "control": "accept", "probe": "?"}[p.flag]
        rows.append((r1, fine, "?", True))
        rows.append((r2, coarse, expect, True))
        g = per_guard.setdefault(p.guard, {"invalid": 0, "control": 0, "probe": 0})
        g[p.flag] += 1
        with open(os.path.join(wd, p.name + ".stderr"), "w") as f:
            f.write(err)
    tsv = common.write_tsv(os.path.join(core.BUILD, f"t_{PID}_progs.tsv"), rows)

    # which programs disagree with the model / the property: put their text into the evidence
    disagreeing = []
    try:
        q = subprocess.run([core.DRIVER], input="".join(r[0] + "\n" for r in rows), stdout=subprocess.PIPE,
                           text=True, timeout=600)
        mlines = q.stdout.split("\n")
        for i, (p, (rc, err)) in enumerate(zip(progs, results)):
            m1 = mlines[2 * i].split("\t")[0] if 2 * i < len(mlines) else "?"
            fine, coarse = rows[2 * i][1], rows[2 * i + 1][1]
            expect = rows[2 * i + 1][2]
            if fine != m1 or (expect != "?" and coarse != expect):
                first_err = [l for l in err.split("\n") if l.startswith("error")][:3]
                disagreeing.append({"source_file": f"{rel}/{p.name}.rs", "guard": p.guard, "descriptor": p.desc,
                                    "kind": p.flag, "rustc": fine, "model": m1, "property_expects": expect,
                                    "source": p.src, "rustc_errors": first_err})
    except Exception as e:   # evidence decoration only
        disagreeing.append({"note": f"could not pre-compute disagreements: {e}"})
    # pairing: every invalid program names its control(s); a control that does not compile voids the pair
    verdict_of = {p.name: rows[2 * i + 1][1] for i, p in enumerate(progs)}
    invalid = [p for p in progs if p.flag == "invalid"]
    unpaired = [p.name for p in invalid if not p.controls and only is None]
    bad_ctl = [p.name for p in invalid if any(verdict_of.get(c, "accept") != "accept" for c in p.controls)]
    step = max(1, len(progs) // 6)
    for p in progs[::step][:6]:
        samples.append({"source_file": f"{rel}/{p.name}.rs", "guard": p.guard, "descriptor": p.desc, "kind": p.flag,
                        "controls": [f"{rel}/{c}.rs" for c in p.controls], "source": p.src})
    ex = ctx["extra"]
    ex["programs"] = len(progs)
    # measured: distinct programs (by text) that rustc gave a verdict on (tool failures are not counted)
    ex["distinct_nontrivial"] = len({p.src for p, r in zip(progs, rows[1::2]) if r[1] in ("accept", "reject")})
    ex["programs_invalid"] = len(invalid)
    ex["programs_control"] = sum(1 for p in progs if p.flag == "control")
    ex["programs_probe"] = sum(1 for p in progs if p.flag == "probe")
    ex["invalid_paired_with_control"] = sum(1 for p in invalid if p.controls)
    ex["invalid_without_control"] = unpaired
    ex["invalid_whose_control_failed"] = bad_ctl
    ex["programs_per_guard"] = per_guard
    ex["program_samples"] = samples
    ex["program_sources_dir"] = rel
    ex["disagreeing_programs"] = disagreeing[:40]
    ex["disagreeing_programs_total"] = len(disagreeing)
    if unpaired:
        raise RuntimeError(f"{len(unpaired)} invalid programs have no control, e.g. {unpaired[:3]}")
    if disagreeing:
        # the program texts of every disagreement, next to the replay files the runner writes
        os.makedirs(core.REPLAYS, exist_ok=True)
        with open(os.path.join(core.REPLAYS, f"{PID}-programs-{tier}-{ctx['seed']}.json"), "w") as f:
            json.dump({"property": PID, "note": "sources of the programs on which rustc, the model and the property "
                       "statement do not all agree (includes known findings)", "programs": disagreeing}, f, indent=1)
    return tsv
