"""
C20 (macro half): str_concat!, str_join!, string::from_iter!, slice_concat! take CONSTANT arguments, so
every case is a block of `const` items in a generated Rust program; the std oracle
(<[&str]>::concat / join, String::from_iter, <[&[T]]>::concat) is computed in the same program from
the same constants. One row per case:

    cat.concat.<form> str <piece hex>* | cat.concat.<form> chr <scalar hex>* | cat.concat.lit
    cat.join.<form> c:<scalar hex>|s:<hex> <piece hex>*   | cat.join.lit <sep>
    cat.slice.<ty> <[e;e;..]>*
    cat.from_iter.<chain> str|chr <items the equivalent std chain yields>*
    cat.k.*   the phase functions of konst_kernel called directly, also with a wrong N (see kernel_cases)

The request text is computed twice, by this generator and by the program from the real constants; a
difference is a broken check. A case whose constants do not compile (const-evaluation error =
the macro panicked) gets the implementation result `panic`.
"""
import os, itertools, re
from vlib.progs import common

STR_ALPHA = ["a", "ñ", "\U0001F600", ""]
CHR_ALPHA = ["a", "ñ", "\U0001F600", "€"]
STR_SEPS = ["", "-", "ñ", "\U0001F600", "; ", "€ñ"]
CHR_SEPS = ["-", "ñ", "€", "\U0001F600"]

PRELUDE = r'''
#![allow(unused, non_upper_case_globals)]
use konst::string::{self, str_concat, str_join};
use konst::slice::slice_concat;
fn hx(b: &[u8]) -> String {
    if b.is_empty() { "-".to_string() } else { b.iter().map(|x| format!("{:02x}", x)).collect() }
}
fn pieces(p: &[&str]) -> String { p.iter().map(|s| format!(" {}", hx(s.as_bytes()))).collect() }
fn chars(p: &[char]) -> String { p.iter().map(|c| format!(" {:x}", *c as u32)).collect() }
fn seps(s: &str) -> String { format!("s:{}", hx(s.as_bytes())) }
fn sepc(c: char) -> String { format!("c:{:x}", c as u32) }
trait Tok { fn tok(&self) -> String; }
impl Tok for u8 { fn tok(&self) -> String { format!("{}", self) } }
impl Tok for u16 { fn tok(&self) -> String { format!("{}", self) } }
impl Tok for i64 { fn tok(&self) -> String { format!("{}", self) } }
impl Tok for () { fn tok(&self) -> String { "u".to_string() } }
impl Tok for &str { fn tok(&self) -> String { hx(self.as_bytes()) } }
fn lst<T: Tok>(x: &[T]) -> String {
    format!("[{}]", x.iter().map(|e| e.tok()).collect::<Vec<_>>().join(";"))
}
fn lsts<T: Tok>(x: &[&[T]]) -> String { x.iter().map(|p| format!(" {}", lst(p))).collect() }
fn row(id: usize, req: String, imp: &str, ora: &str) {
    println!("{}\t{}\t{}\t{}", id, req, hx(imp.as_bytes()), hx(ora.as_bytes()));
}
fn rowl(id: usize, req: String, imp: String, ora: String) {
    println!("{}\t{}\t{}\t{}", id, req, imp, ora);
}
'''


def hx(b):
    return b.hex() if b else "-"


def rs_str(s):
    return '"' + "".join(c if (" " <= c < "\x7f" and c not in '"\\') else "\\u{%x}" % ord(c) for c in s) + '"'


def rs_chr(c):
    return "'" + (c if (" " <= c < "\x7f" and c not in "'\\") else "\\u{%x}" % ord(c)) + "'"


def req_pieces(ps):
    return "".join(" " + hx(p.encode()) for p in ps)


def req_chars(cs):
    return "".join(" %x" % ord(c) for c in cs)


def lists(alpha, maxn):
    for n in range(maxn + 1):
        for t in itertools.product(alpha, repeat=n):
            yield list(t)


class Case:
    """consts: const items (the arguments); impl: const item(s) defining R with the konst macro;
    row: Rust expression statement printing the row, using R (implementation) — `{R}` placeholder is
    substituted by the literal "panic" marker path when the case does not compile"""

    def __init__(self, req, consts, impl, reqx, imp, ora, kind="s"):
        self.req, self.consts, self.impl, self.reqx, self.imp, self.ora, self.kind = req, consts, impl, reqx, imp, ora, kind

    def block(self, idx, with_impl=True):
        f = "row" if self.kind == "s" else "rowl"
        if with_impl:
            return "{ %s %s %s(%d, %s, %s, %s); }" % (self.consts, self.impl, f, idx, self.reqx, self.imp, self.ora)
        pan = '"PANIC"' if self.kind == "s" else '"panic".to_string()'
        return "{ %s %s(%d, %s, %s, %s); }" % (self.consts, f, idx, self.reqx, pan, self.ora)


def concat_cases(tier):
    out = []
    full = 4 if tier == "quick" else 5
    small = 2 if tier == "quick" else 3
    # --- &str elements
    for ps in lists(STR_ALPHA, full):
        lit = ", ".join(rs_str(p) for p in ps)
        out.append(Case("cat.concat.s str" + req_pieces(ps),
                        f"const A: &[&str] = &[{lit}];", "const R: &str = str_concat!(A);",
                        'format!("cat.concat.s str{}", pieces(A))', "R", "&A.concat()"))
    for ps in lists(STR_ALPHA, small):
        lit = ", ".join(rs_str(p) for p in ps)
        n = len(ps)
        out.append(Case("cat.concat.a str" + req_pieces(ps),
                        f"const A: &[&str; {n}] = &[{lit}];", "const R: &str = str_concat!(A);",
                        'format!("cat.concat.a str{}", pieces(A))', "R", "&A.concat()"))
        out.append(Case("cat.concat.f str" + req_pieces(ps),
                        f"const fn func() -> [&'static str; {n}] {{ [{lit}] }} const A: &[&str] = &func();",
                        "const R: &str = str_concat!(&func());",
                        'format!("cat.concat.f str{}", pieces(A))', "R", "&A.concat()"))
        if n > 0:
            out.append(Case("cat.concat.i str" + req_pieces(ps),
                            f"const A: &[&str] = &[{lit}];", f"const R: &str = str_concat!(&[{lit}]);",
                            'format!("cat.concat.i str{}", pieces(A))', "R", "&A.concat()"))
    # repeat expressions (incl. the zero-length repeat, which is NOT the literal-[] arm)
    for p in STR_ALPHA:
        for n in (0, 1, 3):
            out.append(Case("cat.concat.i str" + req_pieces([p] * n),
                            f"const A: &[&str] = &[{rs_str(p)}; {n}];",
                            f"const R: &str = str_concat!(&[{rs_str(p)}; {n}]);",
                            'format!("cat.concat.i str{}", pieces(A))', "R", "&A.concat()"))
    # the literal-empty arm, with and without `&`, with trailing-comma forms the matcher sees
    for src in ("&[]", "[]"):
        out.append(Case("cat.concat.lit", "const A: &[&str] = &[];", f"const R: &str = str_concat!({src});",
                        '"cat.concat.lit".to_string()', "R", "&A.concat()"))
    # --- char elements (oracle: collect::<String>())
    for cs in lists(CHR_ALPHA, full):
        lit = ", ".join(rs_chr(c) for c in cs)
        out.append(Case("cat.concat.s chr" + req_chars(cs),
                        f"const C: &[char] = &[{lit}];", "const R: &str = str_concat!(C);",
                        'format!("cat.concat.s chr{}", chars(C))', "R", "&C.iter().collect::<String>()"))
    for cs in lists(CHR_ALPHA, small):
        lit = ", ".join(rs_chr(c) for c in cs)
        n = len(cs)
        out.append(Case("cat.concat.a chr" + req_chars(cs),
                        f"const C: &[char; {n}] = &[{lit}];", "const R: &str = str_concat!(C);",
                        'format!("cat.concat.a chr{}", chars(C))', "R", "&C.iter().collect::<String>()"))
        out.append(Case("cat.concat.f chr" + req_chars(cs),
                        f"const fn func() -> [char; {n}] {{ [{lit}] }} const C: &[char] = &func();",
                        "const R: &str = str_concat!(&func());",
                        'format!("cat.concat.f chr{}", chars(C))', "R", "&C.iter().collect::<String>()"))
        if n > 0:
            out.append(Case("cat.concat.i chr" + req_chars(cs),
                            f"const C: &[char] = &[{lit}];", f"const R: &str = str_concat!(&[{lit}]);",
                            'format!("cat.concat.i chr{}", chars(C))', "R", "&C.iter().collect::<String>()"))
    for c in CHR_ALPHA:
        for n in (0, 1, 5):
            out.append(Case("cat.concat.i chr" + req_chars([c] * n),
                            f"const C: &[char] = &[{rs_chr(c)}; {n}];",
                            f"const R: &str = str_concat!(&[{rs_chr(c)}; {n}]);",
                            'format!("cat.concat.i chr{}", chars(C))', "R", "&C.iter().collect::<String>()"))
    # boundary scalar values of every encoded length
    edge = ["\x00", "\x7f", "\x80", "\u07ff", "\u0800", "\ud7ff", "\ue000", "\uffff", "\U00010000", "\U0010ffff"]
    for i in range(len(edge)):
        cs = edge[i:] + edge[:i]
        cs = cs[:3]
        lit = ", ".join(rs_chr(c) for c in cs)
        out.append(Case("cat.concat.s chr" + req_chars(cs),
                        f"const C: &[char] = &[{lit}];", "const R: &str = str_concat!(C);",
                        'format!("cat.concat.s chr{}", chars(C))', "R", "&C.iter().collect::<String>()"))
    return out


def join_cases(tier):
    out = []
    thorough = tier != "quick"

    def sep_parts(kind, s):
        if kind == "s":
            return f"const S: &str = {rs_str(s)};", "s:" + hx(s.encode()), "seps(S)", "S"
        return f"const S: char = {rs_chr(s)};", "c:%x" % ord(s), "sepc(S)", "&*S.to_string()"

    allseps = [("s", s) for s in STR_SEPS] + [("c", c) for c in CHR_SEPS]
    for ps in lists(STR_ALPHA, 4):
        lit = ", ".join(rs_str(p) for p in ps)
        n = len(ps)
        for kind, s in allseps:
            sconst, sreq, sreqx, sora = sep_parts(kind, s)
            heavy = n <= 3 or thorough or (kind, s) in (("s", "ñ"), ("c", "€"), ("s", ""))
            if heavy:
                out.append(Case(f"cat.join.vs {sreq}" + req_pieces(ps),
                                f"{sconst} const A: &[&str] = &[{lit}];", "const R: &str = str_join!(S, A);",
                                f'format!("cat.join.vs {{}}{{}}", {sreqx}, pieces(A))', "R", f"&A.join({sora})"))
            if n <= 2 or thorough:
                # separator passed by reference (&char / &&str)
                out.append(Case(f"cat.join.rs {sreq}" + req_pieces(ps),
                                f"{sconst} const A: &[&str] = &[{lit}];", "const R: &str = str_join!(&S, A);",
                                f'format!("cat.join.rs {{}}{{}}", {sreqx}, pieces(A))', "R", f"&A.join({sora})"))
            if n <= 2:
                out.append(Case(f"cat.join.va {sreq}" + req_pieces(ps),
                                f"{sconst} const A: &[&str; {n}] = &[{lit}];", "const R: &str = str_join!(S, A);",
                                f'format!("cat.join.va {{}}{{}}", {sreqx}, pieces(A))', "R", f"&A.join({sora})"))
                slit = rs_str(s) if kind == "s" else rs_chr(s)
                septy = "&'static str" if kind == "s" else "char"
                if n > 0:
                    out.append(Case(f"cat.join.ii {sreq}" + req_pieces(ps),
                                    f"{sconst} const A: &[&str] = &[{lit}];",
                                    f"const R: &str = str_join!({slit}, &[{lit}]);",
                                    f'format!("cat.join.ii {{}}{{}}", {sreqx}, pieces(A))', "R", f"&A.join({sora})"))
                out.append(Case(f"cat.join.ff {sreq}" + req_pieces(ps),
                                f"{sconst} const fn sep() -> {septy} {{ S }} "
                                f"const fn func() -> [&'static str; {n}] {{ [{lit}] }} const A: &[&str] = &func();",
                                "const R: &str = str_join!(sep(), &func());",
                                f'format!("cat.join.ff {{}}{{}}", {sreqx}, pieces(A))', "R", f"&A.join({sora})"))
    for kind, s in allseps:
        sconst, sreq, sreqx, sora = sep_parts(kind, s)
        slit = rs_str(s) if kind == "s" else rs_chr(s)
        for src in ("&[]", "[]"):
            out.append(Case(f"cat.join.lit {sreq}", f"{sconst} const A: &[&str] = &[];",
                            f"const R: &str = str_join!({slit}, {src});",
                            f'format!("cat.join.lit {{}}", {sreqx})', "R", f"&A.join({sora})"))
        for p in ("a", ""):
            for n in (0, 3):
                out.append(Case(f"cat.join.ii {sreq}" + req_pieces([p] * n),
                                f"{sconst} const A: &[&str] = &[{rs_str(p)}; {n}];",
                                f"const R: &str = str_join!({slit}, &[{rs_str(p)}; {n}]);",
                                f'format!("cat.join.ii {{}}{{}}", {sreqx}, pieces(A))', "R", f"&A.join({sora})"))
    return out


def slice_cases(tier):
    out = []
    maxn = 3 if tier == "quick" else 4

    def mk(ty, tyname, shapes, render, tok):
        for shape in shapes:
            k = 0
            pcs = []
            for ln in shape:
                pcs.append([k + j for j in range(ln)])
                k += ln
            lit = ", ".join("&[" + ", ".join(render(v) for v in p) + "]" for p in pcs)
            req = f"cat.slice.{tyname}" + "".join(" [" + ";".join(tok(v) for v in p) + "]" for p in pcs)
            out.append(Case(req, f"const A: &[&[{ty}]] = &[{lit}];",
                            f"const R: [{ty}; {k}] = slice_concat!({ty}, A);",
                            f'format!("cat.slice.{tyname}{{}}", lsts(A))', "lst(&R)", "lst(&A.concat())", kind="l"))

    shapes = [list(t) for n in range(maxn + 1) for t in itertools.product([0, 1, 2, 3], repeat=n)]
    small = [list(t) for n in range(3) for t in itertools.product([0, 1, 2], repeat=n)]
    mk("u8", "u8", shapes, lambda v: str(v + 1), lambda v: str(v + 1))
    mk("u16", "u16", shapes if tier != "quick" else small, lambda v: str(1000 + v), lambda v: str(1000 + v))
    mk("i64", "i64", small, lambda v: str(-5 + 3 * v), lambda v: str(-5 + 3 * v))
    mk("()", "unit", small, lambda v: "()", lambda v: "u")
    names = ["a", "ñ", "", "\U0001F600", "bc", "", "d", "e", "f", "g", "h", "i"]
    mk("&str", "str", shapes if tier != "quick" else small, lambda v: rs_str(names[v % len(names)]),
       lambda v: hx(names[v % len(names)].encode()))
    # inline argument expressions (no named const), incl. the empty outer list
    out.append(Case("cat.slice.u8", "const A: &[&[u8]] = &[];", "const R: [u8; 0] = slice_concat!(u8, &[]);",
                    'format!("cat.slice.u8{}", lsts(A))', "lst(&R)", "lst(&A.concat())", kind="l"))
    out.append(Case("cat.slice.u8 [] [1;2;3] [4;5]", "const A: &[&[u8]] = &[&[], &[1, 2, 3], &[4, 5]];",
                    "const R: [u8; 5] = slice_concat!(u8, &[&[], &[1, 2, 3], &[4, 5]],);",
                    'format!("cat.slice.u8{}", lsts(A))', "lst(&R)", "lst(&A.concat())", kind="l"))
    return out


def from_iter_cases(tier):
    out = []
    maxn = 3 if tier == "quick" else 4
    # (name, konst chain suffix, std chain suffix) over `A: &[&str]`; std side yields &str items
    str_chains = [
        ("plain", "", ".iter().copied()"),
        ("copied", ", copied()", ".iter().copied()"),
        ("flat", ", flat_map(|s| &[*s, \",\"])", ".iter().flat_map(|s| [*s, \",\"])"),
        ("filter", ", filter(|s| !s.is_empty())", ".iter().copied().filter(|s| !s.is_empty())"),
        ("rev", ", rev()", ".iter().rev().copied()"),
        ("skip1", ", skip(1)", ".iter().skip(1).copied()"),
        ("take2", ", take(2)", ".iter().take(2).copied()"),
        ("map", ", map(|s| if s.is_empty() { \"_\\u{20ac}\" } else { *s })",
         ".iter().map(|s| if s.is_empty() { \"_\\u{20ac}\" } else { *s })"),
    ]
    for ps in lists(STR_ALPHA, maxn):
        lit = ", ".join(rs_str(p) for p in ps)
        for name, kc, sc in str_chains:
            if name not in ("plain", "copied") and len(ps) == 3 and tier == "quick" and ps[0] != "a":
                continue
            out.append(Case(None, f"const A: &[&str] = &[{lit}];",
                            f"const R: &str = string::from_iter!(A{kc});",
                            f'{{ let items: Vec<&str> = A{sc}.collect(); format!("cat.from_iter.{name} str{{}}", pieces(&items)) }}',
                            "R", f"&String::from_iter(A{sc})"))
            out[-1].pyreq = ("str", name, ps)
    chr_chains = [
        ("plain", "", ".iter().copied()"),
        ("copied", ", copied()", ".iter().copied()"),
        ("rev", ", rev()", ".iter().rev().copied()"),
        ("cmap", ", map(|c| *c)", ".iter().map(|c| *c)"),
        ("cfilter", ", filter(|c| c.is_ascii())", ".iter().copied().filter(|c| c.is_ascii())"),
        ("cflat", ", flat_map(|c| &[*c, '-'])", ".iter().flat_map(|c| [*c, '-'])"),
    ]
    for cs in lists(CHR_ALPHA, maxn):
        lit = ", ".join(rs_chr(c) for c in cs)
        for name, kc, sc in chr_chains:
            if name not in ("plain", "copied") and len(cs) == 3 and tier == "quick" and cs[0] != "a":
                continue
            out.append(Case(None, f"const C: &[char] = &[{lit}];",
                            f"const R: &str = string::from_iter!(C{kc});",
                            f'{{ let items: Vec<char> = C{sc}.collect(); format!("cat.from_iter.{name} chr{{}}", chars(&items)) }}',
                            "R", f"&String::from_iter(C{sc})"))
            out[-1].pyreq = ("chr", name, cs)
    # by-value char items from ranges, and the documented flat_map over a range
    for lo, hi, incl in (("a", "e", True), ("a", "a", False), ("a", "a", True), ("\u00f0", "\u00f3", True),
                         ("\u07fe", "\u0801", True), ("\uffff", "\U00010001", True), ("\ud7fe", "\ue000", True)):
        op = "..=" if incl else ".."
        rng = f"{rs_chr(lo)}{op}{rs_chr(hi)}"
        out.append(Case(None, "", f"const R: &str = string::from_iter!({rng});",
                        f'{{ let items: Vec<char> = ({rng}).collect(); format!("cat.from_iter.range chr{{}}", chars(&items)) }}',
                        "R", f"&String::from_iter({rng})"))
        out[-1].pyreq = ("range", lo, hi, incl)
    for n in (0, 1, 5):
        out.append(Case(None, "",
                        f'const R: &str = string::from_iter!(0..{n}, flat_map(|i| &[konst::string::str_up_to("abcd", i), "."]));',
                        f'{{ let items: Vec<&str> = (0..{n}usize).flat_map(|i| [&"abcd"[..i], "."]).collect(); format!("cat.from_iter.flatup str{{}}", pieces(&items)) }}',
                        "R", f'&String::from_iter((0..{n}usize).flat_map(|i| [&"abcd"[..i], "."]))'))
        out[-1].pyreq = ("flatup", n)
    for c in out:
        c.req = pyreq_from_iter(c.pyreq)
    return out


def pyreq_from_iter(t):
    """the request as this generator predicts it (items of the equivalent chain, computed here)"""
    if t[0] == "str":
        _, name, ps = t
        items = {
            "plain": ps, "copied": ps,
            "flat": [x for p in ps for x in (p, ",")],
            "filter": [p for p in ps if p != ""],
            "rev": ps[::-1], "skip1": ps[1:], "take2": ps[:2],
            "map": [p if p != "" else "_€" for p in ps],
        }[name]
        return f"cat.from_iter.{name} str" + req_pieces(items)
    if t[0] == "chr":
        _, name, cs = t
        items = {
            "plain": cs, "copied": cs, "rev": cs[::-1], "cmap": cs,
            "cfilter": [c for c in cs if ord(c) < 128],
            "cflat": [x for c in cs for x in (c, "-")],
        }[name]
        return f"cat.from_iter.{name} chr" + req_chars(items)
    if t[0] == "range":
        _, lo, hi, incl = t
        vals = [v for v in range(ord(lo), ord(hi) + (1 if incl else 0)) if not (0xD800 <= v < 0xE000)]
        return "cat.from_iter.range chr" + "".join(" %x" % v for v in vals)
    if t[0] == "flatup":
        items = [x for i in range(t[1]) for x in ("abcd"[:i], ".")]
        return "cat.from_iter.flatup str" + req_pieces(items)
    raise ValueError(t)


def kernel_cases(tier):
    """the two phases called directly (konst_kernel's pub functions the macros expand to), at run
    time, also with a WRONG buffer length N: ties `concatStrs n`, `joinStrs n`, `concatSlices n` and
    the length passes of the model to the code beyond what the macros can reach (index panic when N is
    too small, untouched filler when too large, `first_elem`'s panic). Oracle: none (`?`)."""
    out = []

    def catch(expr):
        return ("match std::panic::catch_unwind(|| { %s }) { Ok(s) => s, Err(_) => \"panic\".to_string() }" % expr)

    maxn = 2 if tier == "quick" else 3
    # concat_slices::<u8, N>
    shapes = [list(t) for n in range(maxn + 1) for t in itertools.product([0, 1, 2], repeat=n)]
    for shape in shapes:
        k = 0
        pcs = []
        for ln in shape:
            pcs.append([k + j + 1 for j in range(ln)])
            k += ln
        lit = ", ".join("&[" + ", ".join(str(v) for v in p) + "]" for p in pcs)
        preq = "".join(" [" + ";".join(str(v) for v in p) + "]" for p in pcs)
        out.append(Case("cat.k.slice_sum" + preq, f"const A: &[&[u8]] = &[{lit}];", "",
                        'format!("cat.k.slice_sum{}", lsts(A))',
                        catch("format!(\"{}\", konst_kernel::slice::concat_sum_lengths(A))"), '"?".to_string()', kind="l"))
        for n in sorted({0, max(k - 1, 0), k, k + 1, k + 2}):
            out.append(Case(f"cat.k.concat_slices {n}" + preq, f"const A: &[&[u8]] = &[{lit}];", "",
                            f'format!("cat.k.concat_slices {n}{{}}", lsts(A))',
                            catch(f"lst(&konst_kernel::slice::concat_slices::<u8, {n}>(A))"), '"?".to_string()', kind="l"))
    # concat_strs::<N>, concat_sum_lengths
    alpha = ["a", "ñ", ""]
    for ps in lists(alpha, maxn):
        lit = ", ".join(rs_str(p) for p in ps)
        k = sum(len(p.encode()) for p in ps)
        arg = "konst_kernel::string::__NormalizeConcatArg(A).conv()"
        out.append(Case("cat.k.concat_sum str" + req_pieces(ps), f"const A: &[&str] = &[{lit}];", "",
                        'format!("cat.k.concat_sum str{}", pieces(A))',
                        catch(f"format!(\"{{}}\", konst_kernel::string::concat_sum_lengths({arg}))"), '"?".to_string()', kind="l"))
        for n in sorted({max(k - 1, 0), k, k + 1}):
            out.append(Case(f"cat.k.concat_strs {n} str" + req_pieces(ps), f"const A: &[&str] = &[{lit}];", "",
                            f'format!("cat.k.concat_strs {n} str{{}}", pieces(A))',
                            catch(f"hx(konst_kernel::string::concat_strs::<{n}>({arg}).as_str().as_bytes())"),
                            '"?".to_string()', kind="l"))
    for cs in lists(["a", "ñ", "€"], 2):
        lit = ", ".join(rs_chr(c) for c in cs)
        k = sum(len(c.encode()) for c in cs)
        arg = "konst_kernel::string::__NormalizeConcatArg(C).conv()"
        out.append(Case("cat.k.concat_sum chr" + req_chars(cs), f"const C: &[char] = &[{lit}];", "",
                        'format!("cat.k.concat_sum chr{}", chars(C))',
                        catch(f"format!(\"{{}}\", konst_kernel::string::concat_sum_lengths({arg}))"), '"?".to_string()', kind="l"))
        for n in sorted({max(k - 1, 0), k, k + 2}):
            out.append(Case(f"cat.k.concat_strs {n} chr" + req_chars(cs), f"const C: &[char] = &[{lit}];", "",
                            f'format!("cat.k.concat_strs {n} chr{{}}", chars(C))',
                            catch(f"hx(konst_kernel::string::concat_strs::<{n}>({arg}).as_str().as_bytes())"),
                            '"?".to_string()', kind="l"))
    # join_strs::<N>, join_sum_lengths
    for kind, sp in (("s", ""), ("s", "-"), ("s", "ñ"), ("c", "€"), ("c", "-")):
        if kind == "s":
            sconst, sreq, sreqx = f"const S: &str = {rs_str(sp)};", "s:" + hx(sp.encode()), "seps(S)"
        else:
            sconst, sreq, sreqx = f"const S: char = {rs_chr(sp)};", "c:%x" % ord(sp), "sepc(S)"
        sl = len(sp.encode())
        for ps in lists(alpha, maxn):
            lit = ", ".join(rs_str(p) for p in ps)
            k = sum(len(p.encode()) for p in ps) + sl * max(len(ps) - 1, 0)
            arg = "konst_kernel::string::StrJoinArgs { sep: konst_kernel::string::__MakeSepArg(S).conv(), slice: A }"
            out.append(Case(f"cat.k.join_sum {sreq}" + req_pieces(ps), f"{sconst} const A: &[&str] = &[{lit}];", "",
                            f'format!("cat.k.join_sum {{}}{{}}", {sreqx}, pieces(A))',
                            catch(f"format!(\"{{}}\", konst_kernel::string::join_sum_lengths({arg}))"), '"?".to_string()', kind="l"))
            for n in sorted({max(k - 1, 0), k, k + 1}):
                out.append(Case(f"cat.k.join_strs {n} {sreq}" + req_pieces(ps), f"{sconst} const A: &[&str] = &[{lit}];", "",
                                f'format!("cat.k.join_strs {n} {{}}{{}}", {sreqx}, pieces(A))',
                                catch(f"hx(konst_kernel::string::join_strs::<{n}>({arg}).as_str().as_bytes())"),
                                '"?".to_string()', kind="l"))
    return out


def all_cases(tier):
    return concat_cases(tier) + join_cases(tier) + slice_cases(tier) + from_iter_cases(tier) + kernel_cases(tier)


def program(cases, idxs, with_impl=None):
    """one Rust source; cases grouped into functions of 40 blocks"""
    fns = []
    body = []
    for k in range(0, len(idxs), 40):
        grp = idxs[k:k + 40]
        blocks = "\n".join("    " + cases[i].block(i, True if with_impl is None else with_impl(i)) for i in grp)
        fns.append(f"fn g{k}() {{\n{blocks}\n}}")
        body.append(f"    g{k}();")
    return PRELUDE + "\n".join(fns) + "\nfn main() {\n    std::panic::set_hook(Box::new(|_| {}));\n" + "\n".join(body) + "\n}\n"


def kernel_rlib():
    """the konst_kernel rlib of the same cargo build (exact artifact from cargo's JSON output)"""
    import json, subprocess
    from vlib import core
    common.konst_rlib()
    with core.build_lock():
        p = subprocess.run(["cargo", "build", "--offline", "--message-format=json"], cwd=core.HARNESS,
                           env=core.ENV, stdout=subprocess.PIPE, stderr=subprocess.PIPE, text=True)
    rlib = None
    for line in p.stdout.splitlines():
        try:
            m = json.loads(line)
        except ValueError:
            continue
        if m.get("reason") == "compiler-artifact" and m.get("target", {}).get("name") == "konst_kernel":
            for f in m.get("filenames", []):
                if f.endswith(".rlib"):
                    rlib = f
    if not rlib:
        raise RuntimeError("konst_kernel rlib not found in cargo output")
    return rlib


def settle(d, cases, gi, g, src0, err, extra):
    """program `gi` does not compile: some constant does not evaluate. Attribute the errors to cases
    (rustc names the line of each failing constant; one case per line), else one metadata-only compile
    per case; then rebuild the program with those cases' macro calls left out. Returns (exe, bad)."""
    lines = program(cases, g).split("\n")
    line_case = {}
    for ln, text in enumerate(lines, 1):
        m = re.match(r"\s*\{ .*\b(?:row|rowl)\((\d+), ", text)
        if m:
            line_case[ln] = int(m.group(1))
    bad = set()
    for m in re.finditer(re.escape(os.path.basename(src0)) + r":(\d+):\d+", err):
        if int(m.group(1)) in line_case:
            bad.add(line_case[int(m.group(1))])
    exe = os.path.join(d, f"p{gi}_b")
    if bad:
        src = os.path.join(d, f"p{gi}_b.rs")
        with open(src, "w") as f:
            f.write(program(cases, g, with_impl=lambda i: i not in bad))
        if common.compile_one(src, exe, "link", extra)[0] == 0:
            return exe, bad
    single = []
    for i in g:
        src = os.path.join(d, f"c{i}.rs")
        with open(src, "w") as f:
            f.write(program(cases, [i]))
        single.append((src, os.path.join(d, f"c{i}.rmeta"), "metadata", extra))
    sres = common.compile_many(single, workers=4)
    bad = {i for i, (rc1, _) in zip(g, sres) if rc1 != 0}
    if not bad:
        raise RuntimeError("program fails as a whole but every case compiles alone: " + err[-1500:])
    src = os.path.join(d, f"p{gi}_b.rs")
    with open(src, "w") as f:
        f.write(program(cases, g, with_impl=lambda i: i not in bad))
    rc2, err2 = common.compile_one(src, exe, "link", extra)
    if rc2 != 0:
        raise RuntimeError("oracle-only program does not compile: " + err2[-1500:])
    return exe, bad


def generate(ctx):
    import concurrent.futures
    tier = ctx["tier"]
    cases = all_cases(tier)
    if ctx.get("only") is not None:
        cases = [c for c in cases if c.req in ctx["only"]]
    d = common.workdir(ctx["pid"] + "_cat")
    # opt-level 0: the programs only print constants; const evaluation does not depend on it
    extra = ("--extern", "konst_kernel=" + kernel_rlib(), "-C", "opt-level=0")
    nprog = 16
    groups = [list(range(k, len(cases), nprog)) for k in range(nprog)]
    groups = [g for g in groups if g]
    jobs = []
    for gi, g in enumerate(groups):
        src = os.path.join(d, f"p{gi}.rs")
        with open(src, "w") as f:
            f.write(program(cases, g))
        jobs.append((src, os.path.join(d, f"p{gi}"), "link", extra))
    res = common.compile_many(jobs)
    failed_cases = set()
    exes = {gi: jobs[gi][1] for gi in range(len(groups))}
    failing = [gi for gi, (rc, _) in enumerate(res) if rc != 0]
    with concurrent.futures.ThreadPoolExecutor(max_workers=8) as ex:
        futs = {gi: ex.submit(settle, d, cases, gi, groups[gi], jobs[gi][0], res[gi][1], extra) for gi in failing}
        for gi, f in futs.items():
            exes[gi], bad = f.result()
            failed_cases |= bad
    outputs = []
    for gi in range(len(groups)):
        rc3, so, se = common.run_bin(exes[gi])
        if rc3 != 0:
            raise RuntimeError(f"generated program {exes[gi]} exited {rc3}: {se[-800:]}")
        outputs.append(so)
    rows = {}
    for so in outputs:
        for line in so.splitlines():
            parts = line.split("\t")
            if len(parts) != 4:
                raise RuntimeError("malformed program output line: " + line[:200])
            i = int(parts[0])
            req, imp, ora = parts[1], parts[2], parts[3]
            if req != cases[i].req:
                raise RuntimeError(f"request mismatch for case {i}: program says {req!r}, generator says {cases[i].req!r}")
            if i in failed_cases:
                imp = "panic"
            rows[i] = (req, imp, ora, True)
    if len(rows) != len(cases):
        raise RuntimeError(f"{len(cases) - len(rows)} cases produced no row")
    ctx["extra"]["c20_programs"] = {"cases": len(cases), "programs": len(groups),
                                    "cases_not_compiling": len(failed_cases), "programs_rebuilt": len(failing)}
    return common.write_tsv(os.path.join(d, "rows.tsv"), [rows[i] for i in range(len(cases))])
