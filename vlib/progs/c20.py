"""
C20 (macro half): str_concat!, str_join!, string::from_iter!, slice_concat! take CONSTANT arguments, so
every case is a block of `const` items in a generated Rust program; the std oracle
(<[&str]>::concat / join, String::from_iter, <[&[T]]>::concat) is computed in the same program from
the same constants. One row per case:

    cat.concat.<form> str <piece hex>* | cat.concat.<form> chr <scalar hex>* | cat.concat.lit
    cat.join.<form> c:<scalar hex>|s:<hex> <piece hex>*   | cat.join.lit <sep>
    cat.slice.<ty> <[e;e;..]>*
    cat.from_iter.<chain> str|chr <items the equivalent std chain yields>*
    cat.k.*   the phase functions of konst_kernel called directly, also with a wrong N (see kernel_cases)
    cat.compile <macro> <frag> <decl>/<use> <NAME>   accept|reject: does the invocation compile when the
    cat.compile_m ...                                 caller's item NAME is mentioned inside `$frag`
                                                      (name hygiene of the expansions, see hygiene_cases)

Forms `L*` (long_cases): pieces / separators / element lists of 40..300 bytes (elements); forms
`h:<decl>/<use>:<NAME>` (hygiene_cases): the argument mentions a caller item called like an identifier of the
expansion.

The request text is computed twice, by this generator and by the program from the real constants; a
difference is a broken check. A case whose constants do not compile (const-evaluation error =
the macro panicked) gets the implementation result `panic`.
"""
import os, itertools, re
from vlib.progs import common

STR_ALPHA = ["a", "ñ", "\U0001F600", ""]
CHR_ALPHA = ["a", "ñ", "\U0001F600", "€"]
STR_SEPS = ["", "-", "ñ", "\U0001F600", "; ", "€ñ"]
CHR_SEPS = ["-", "ñ", "€", "\U0001F600"]

PRELUDE = r'''
#![allow(unused, non_upper_case_globals, non_camel_case_types, non_snake_case)]
use konst::string::{self, str_concat, str_join};
use konst::slice::slice_concat;
fn hx(b: &[u8]) -> String {
    if b.is_empty() { "-".to_string() } else { b.iter().map(|x| format!("{:02x}", x)).collect() }
}
fn pieces(p: &[&str]) -> String { p.iter().map(|s| format!(" {}", hx(s.as_bytes()))).collect() }
fn chars(p: &[char]) -> String { p.iter().map(|c| format!(" {:x}", *c as u32)).collect() }
fn seps(s: &str) -> String { format!("s:{}", hx(s.as_bytes())) }
fn sepc(c: char) -> String { format!("c:{:x}", c as u32) }
trait Tok { fn tok(&self) -> String; }
impl Tok for u8 { fn tok(&self) -> String { format!("{}", self) } }
impl Tok for u16 { fn tok(&self) -> String { format!("{}", self) } }
impl Tok for i64 { fn tok(&self) -> String { format!("{}", self) } }
impl Tok for u32 { fn tok(&self) -> String { format!("{}", self) } }
impl<const N: usize> Tok for [u8; N] {
    fn tok(&self) -> String { self.iter().map(|e| format!("{}", e)).collect::<Vec<_>>().join(",") }
}
impl Tok for () { fn tok(&self) -> String { "u".to_string() } }
impl Tok for &str { fn tok(&self) -> String { hx(self.as_bytes()) } }
fn lst<T: Tok>(x: &[T]) -> String {
    format!("[{}]", x.iter().map(|e| e.tok()).collect::<Vec<_>>().join(";"))
}
fn lsts<T: Tok>(x: &[&[T]]) -> String { x.iter().map(|p| format!(" {}", lst(p))).collect() }
fn row(id: usize, req: String, imp: &str, ora: &str) {
    println!("{}\t{}\t{}\t{}", id, req, hx(imp.as_bytes()), hx(ora.as_bytes()));
}
fn rowl(id: usize, req: String, imp: String, ora: String) {
    println!("{}\t{}\t{}\t{}", id, req, imp, ora);
}
'''


def hx(b):
    return b.hex() if b else "-"


def rs_str(s):
    return '"' + "".join(c if (" " <= c < "\x7f" and c not in '"\\') else "\\u{%x}" % ord(c) for c in s) + '"'


def rs_chr(c):
    return "'" + (c if (" " <= c < "\x7f" and c not in "'\\") else "\\u{%x}" % ord(c)) + "'"


def req_pieces(ps):
    return "".join(" " + hx(p.encode()) for p in ps)


def req_chars(cs):
    return "".join(" %x" % ord(c) for c in cs)


def lists(alpha, maxn):
    for n in range(maxn + 1):
        for t in itertools.product(alpha, repeat=n):
            yield list(t)


class Case:
    """consts: const items (the arguments); impl: const item(s) defining R with the konst macro;
    row: Rust expression statement printing the row, using R (implementation) — `{R}` placeholder is
    substituted by the literal "panic" marker path when the case does not compile"""

    def __init__(self, req, consts, impl, reqx, imp, ora, kind="s"):
        self.req, self.consts, self.impl, self.reqx, self.imp, self.ora, self.kind = req, consts, impl, reqx, imp, ora, kind

    def block(self, idx, with_impl=True):
        f = "row" if self.kind == "s" else "rowl"
        if with_impl:
            return "{ %s %s %s(%d, %s, %s, %s); }" % (self.consts, self.impl, f, idx, self.reqx, self.imp, self.ora)
        pan = '"PANIC"' if self.kind == "s" else '"panic".to_string()'
        return "{ %s %s(%d, %s, %s, %s); }" % (self.consts, f, idx, self.reqx, pan, self.ora)


def concat_cases(tier):
    out = []
    full = 4 if tier == "quick" else 5
    small = 2 if tier == "quick" else 3
    # --- &str elements
    for ps in lists(STR_ALPHA, full):
        lit = ", ".join(rs_str(p) for p in ps)
        out.append(Case("cat.concat.s str" + req_pieces(ps),
                        f"const A: &[&str] = &[{lit}];", "const R: &str = str_concat!(A);",
                        'format!("cat.concat.s str{}", pieces(A))', "R", "&A.concat()"))
    for ps in lists(STR_ALPHA, small):
        lit = ", ".join(rs_str(p) for p in ps)
        n = len(ps)
        out.append(Case("cat.concat.a str" + req_pieces(ps),
                        f"const A: &[&str; {n}] = &[{lit}];", "const R: &str = str_concat!(A);",
                        'format!("cat.concat.a str{}", pieces(A))', "R", "&A.concat()"))
        out.append(Case("cat.concat.f str" + req_pieces(ps),
                        f"const fn func() -> [&'static str; {n}] {{ [{lit}] }} const A: &[&str] = &func();",
                        "const R: &str = str_concat!(&func());",
                        'format!("cat.concat.f str{}", pieces(A))', "R", "&A.concat()"))
        if n > 0:
            out.append(Case("cat.concat.i str" + req_pieces(ps),
                            f"const A: &[&str] = &[{lit}];", f"const R: &str = str_concat!(&[{lit}]);",
                            'format!("cat.concat.i str{}", pieces(A))', "R", "&A.concat()"))
    # repeat expressions (incl. the zero-length repeat, which is NOT the literal-[] arm)
    for p in STR_ALPHA:
        for n in (0, 1, 3):
            out.append(Case("cat.concat.i str" + req_pieces([p] * n),
                            f"const A: &[&str] = &[{rs_str(p)}; {n}];",
                            f"const R: &str = str_concat!(&[{rs_str(p)}; {n}]);",
                            'format!("cat.concat.i str{}", pieces(A))', "R", "&A.concat()"))
    # the literal-empty arm, with and without `&`, with trailing-comma forms the matcher sees
    for src in ("&[]", "[]"):
        out.append(Case("cat.concat.lit", "const A: &[&str] = &[];", f"const R: &str = str_concat!({src});",
                        '"cat.concat.lit".to_string()', "R", "&A.concat()"))
    # --- char elements (oracle: collect::<String>())
    for cs in lists(CHR_ALPHA, full):
        lit = ", ".join(rs_chr(c) for c in cs)
        out.append(Case("cat.concat.s chr" + req_chars(cs),
                        f"const C: &[char] = &[{lit}];", "const R: &str = str_concat!(C);",
                        'format!("cat.concat.s chr{}", chars(C))', "R", "&C.iter().collect::<String>()"))
    for cs in lists(CHR_ALPHA, small):
        lit = ", ".join(rs_chr(c) for c in cs)
        n = len(cs)
        out.append(Case("cat.concat.a chr" + req_chars(cs),
                        f"const C: &[char; {n}] = &[{lit}];", "const R: &str = str_concat!(C);",
                        'format!("cat.concat.a chr{}", chars(C))', "R", "&C.iter().collect::<String>()"))
        out.append(Case("cat.concat.f chr" + req_chars(cs),
                        f"const fn func() -> [char; {n}] {{ [{lit}] }} const C: &[char] = &func();",
                        "const R: &str = str_concat!(&func());",
                        'format!("cat.concat.f chr{}", chars(C))', "R", "&C.iter().collect::<String>()"))
        if n > 0:
            out.append(Case("cat.concat.i chr" + req_chars(cs),
                            f"const C: &[char] = &[{lit}];", f"const R: &str = str_concat!(&[{lit}]);",
                            'format!("cat.concat.i chr{}", chars(C))', "R", "&C.iter().collect::<String>()"))
    for c in CHR_ALPHA:
        for n in (0, 1, 5):
            out.append(Case("cat.concat.i chr" + req_chars([c] * n),
                            f"const C: &[char] = &[{rs_chr(c)}; {n}];",
                            f"const R: &str = str_concat!(&[{rs_chr(c)}; {n}]);",
                            'format!("cat.concat.i chr{}", chars(C))', "R", "&C.iter().collect::<String>()"))
    # boundary scalar values of every encoded length
    edge = ["\x00", "\x7f", "\x80", "\u07ff", "\u0800", "\ud7ff", "\ue000", "\uffff", "\U00010000", "\U0010ffff"]
    for i in range(len(edge)):
        cs = edge[i:] + edge[:i]
        cs = cs[:3]
        lit = ", ".join(rs_chr(c) for c in cs)
        out.append(Case("cat.concat.s chr" + req_chars(cs),
                        f"const C: &[char] = &[{lit}];", "const R: &str = str_concat!(C);",
                        'format!("cat.concat.s chr{}", chars(C))', "R", "&C.iter().collect::<String>()"))
    return out


def join_cases(tier):
    out = []
    thorough = tier != "quick"

    def sep_parts(kind, s):
        if kind == "s":
            return f"const S: &str = {rs_str(s)};", "s:" + hx(s.encode()), "seps(S)", "S"
        return f"const S: char = {rs_chr(s)};", "c:%x" % ord(s), "sepc(S)", "&*S.to_string()"

    allseps = [("s", s) for s in STR_SEPS] + [("c", c) for c in CHR_SEPS]
    for ps in lists(STR_ALPHA, 4):
        lit = ", ".join(rs_str(p) for p in ps)
        n = len(ps)
        for kind, s in allseps:
            sconst, sreq, sreqx, sora = sep_parts(kind, s)
            heavy = n <= 3 or thorough or (kind, s) in (("s", "ñ"), ("c", "€"), ("s", ""))
            if heavy:
                out.append(Case(f"cat.join.vs {sreq}" + req_pieces(ps),
                                f"{sconst} const A: &[&str] = &[{lit}];", "const R: &str = str_join!(S, A);",
                                f'format!("cat.join.vs {{}}{{}}", {sreqx}, pieces(A))', "R", f"&A.join({sora})"))
            if n <= 2 or thorough:
                # separator passed by reference (&char / &&str)
                out.append(Case(f"cat.join.rs {sreq}" + req_pieces(ps),
                                f"{sconst} const A: &[&str] = &[{lit}];", "const R: &str = str_join!(&S, A);",
                                f'format!("cat.join.rs {{}}{{}}", {sreqx}, pieces(A))', "R", f"&A.join({sora})"))
            if n <= 2:
                out.append(Case(f"cat.join.va {sreq}" + req_pieces(ps),
                                f"{sconst} const A: &[&str; {n}] = &[{lit}];", "const R: &str = str_join!(S, A);",
                                f'format!("cat.join.va {{}}{{}}", {sreqx}, pieces(A))', "R", f"&A.join({sora})"))
                slit = rs_str(s) if kind == "s" else rs_chr(s)
                septy = "&'static str" if kind == "s" else "char"
                if n > 0:
                    out.append(Case(f"cat.join.ii {sreq}" + req_pieces(ps),
                                    f"{sconst} const A: &[&str] = &[{lit}];",
                                    f"const R: &str = str_join!({slit}, &[{lit}]);",
                                    f'format!("cat.join.ii {{}}{{}}", {sreqx}, pieces(A))', "R", f"&A.join({sora})"))
                out.append(Case(f"cat.join.ff {sreq}" + req_pieces(ps),
                                f"{sconst} const fn sep() -> {septy} {{ S }} "
                                f"const fn func() -> [&'static str; {n}] {{ [{lit}] }} const A: &[&str] = &func();",
                                "const R: &str = str_join!(sep(), &func());",
                                f'format!("cat.join.ff {{}}{{}}", {sreqx}, pieces(A))', "R", f"&A.join({sora})"))
    for kind, s in allseps:
        sconst, sreq, sreqx, sora = sep_parts(kind, s)
        slit = rs_str(s) if kind == "s" else rs_chr(s)
        for src in ("&[]", "[]"):
            out.append(Case(f"cat.join.lit {sreq}", f"{sconst} const A: &[&str] = &[];",
                            f"const R: &str = str_join!({slit}, {src});",
                            f'format!("cat.join.lit {{}}", {sreqx})', "R", f"&A.join({sora})"))
        for p in ("a", ""):
            for n in (0, 3):
                out.append(Case(f"cat.join.ii {sreq}" + req_pieces([p] * n),
                                f"{sconst} const A: &[&str] = &[{rs_str(p)}; {n}];",
                                f"const R: &str = str_join!({slit}, &[{rs_str(p)}; {n}]);",
                                f'format!("cat.join.ii {{}}{{}}", {sreqx}, pieces(A))', "R", f"&A.join({sora})"))
    return out


def slice_cases(tier):
    out = []
    maxn = 3 if tier == "quick" else 4

    def mk(ty, tyname, shapes, render, tok):
        for shape in shapes:
            k = 0
            pcs = []
            for ln in shape:
                pcs.append([k + j for j in range(ln)])
                k += ln
            lit = ", ".join("&[" + ", ".join(render(v) for v in p) + "]" for p in pcs)
            req = f"cat.slice.{tyname}" + "".join(" [" + ";".join(tok(v) for v in p) + "]" for p in pcs)
            out.append(Case(req, f"const A: &[&[{ty}]] = &[{lit}];",
                            f"const R: [{ty}; {k}] = slice_concat!({ty}, A);",
                            f'format!("cat.slice.{tyname}{{}}", lsts(A))', "lst(&R)", "lst(&A.concat())", kind="l"))

    shapes = [list(t) for n in range(maxn + 1) for t in itertools.product([0, 1, 2, 3], repeat=n)]
    small = [list(t) for n in range(3) for t in itertools.product([0, 1, 2], repeat=n)]
    mk("u8", "u8", shapes, lambda v: str(v + 1), lambda v: str(v + 1))
    mk("u16", "u16", shapes if tier != "quick" else small, lambda v: str(1000 + v), lambda v: str(1000 + v))
    mk("i64", "i64", small, lambda v: str(-5 + 3 * v), lambda v: str(-5 + 3 * v))
    mk("()", "unit", small, lambda v: "()", lambda v: "u")
    names = ["a", "ñ", "", "\U0001F600", "bc", "", "d", "e", "f", "g", "h", "i"]
    mk("&str", "str", shapes if tier != "quick" else small, lambda v: rs_str(names[v % len(names)]),
       lambda v: hx(names[v % len(names)].encode()))
    # inline argument expressions (no named const), incl. the empty outer list
    out.append(Case("cat.slice.u8", "const A: &[&[u8]] = &[];", "const R: [u8; 0] = slice_concat!(u8, &[]);",
                    'format!("cat.slice.u8{}", lsts(A))', "lst(&R)", "lst(&A.concat())", kind="l"))
    out.append(Case("cat.slice.u8 [] [1;2;3] [4;5]", "const A: &[&[u8]] = &[&[], &[1, 2, 3], &[4, 5]];",
                    "const R: [u8; 5] = slice_concat!(u8, &[&[], &[1, 2, 3], &[4, 5]],);",
                    'format!("cat.slice.u8{}", lsts(A))', "lst(&R)", "lst(&A.concat())", kind="l"))
    return out


def from_iter_cases(tier):
    out = []
    maxn = 3 if tier == "quick" else 4
    # (name, konst chain suffix, std chain suffix) over `A: &[&str]`; std side yields &str items
    str_chains = [
        ("plain", "", ".iter().copied()"),
        ("copied", ", copied()", ".iter().copied()"),
        ("flat", ", flat_map(|s| &[*s, \",\"])", ".iter().flat_map(|s| [*s, \",\"])"),
        ("filter", ", filter(|s| !s.is_empty())", ".iter().copied().filter(|s| !s.is_empty())"),
        ("rev", ", rev()", ".iter().rev().copied()"),
        ("skip1", ", skip(1)", ".iter().skip(1).copied()"),
        ("take2", ", take(2)", ".iter().take(2).copied()"),
        ("map", ", map(|s| if s.is_empty() { \"_\\u{20ac}\" } else { *s })",
         ".iter().map(|s| if s.is_empty() { \"_\\u{20ac}\" } else { *s })"),
    ]
    for ps in lists(STR_ALPHA, maxn):
        lit = ", ".join(rs_str(p) for p in ps)
        for name, kc, sc in str_chains:
            if name not in ("plain", "copied") and len(ps) == 3 and tier == "quick" and ps[0] != "a":
                continue
            out.append(Case(None, f"const A: &[&str] = &[{lit}];",
                            f"const R: &str = string::from_iter!(A{kc});",
                            f'{{ let items: Vec<&str> = A{sc}.collect(); format!("cat.from_iter.{name} str{{}}", pieces(&items)) }}',
                            "R", f"&String::from_iter(A{sc})"))
            out[-1].pyreq = ("str", name, ps)
    chr_chains = [
        ("plain", "", ".iter().copied()"),
        ("copied", ", copied()", ".iter().copied()"),
        ("rev", ", rev()", ".iter().rev().copied()"),
        ("cmap", ", map(|c| *c)", ".iter().map(|c| *c)"),
        ("cfilter", ", filter(|c| c.is_ascii())", ".iter().copied().filter(|c| c.is_ascii())"),
        ("cflat", ", flat_map(|c| &[*c, '-'])", ".iter().flat_map(|c| [*c, '-'])"),
    ]
    for cs in lists(CHR_ALPHA, maxn):
        lit = ", ".join(rs_chr(c) for c in cs)
        for name, kc, sc in chr_chains:
            if name not in ("plain", "copied") and len(cs) == 3 and tier == "quick" and cs[0] != "a":
                continue
            out.append(Case(None, f"const C: &[char] = &[{lit}];",
                            f"const R: &str = string::from_iter!(C{kc});",
                            f'{{ let items: Vec<char> = C{sc}.collect(); format!("cat.from_iter.{name} chr{{}}", chars(&items)) }}',
                            "R", f"&String::from_iter(C{sc})"))
            out[-1].pyreq = ("chr", name, cs)
    # by-value char items from ranges, and the documented flat_map over a range
    for lo, hi, incl in (("a", "e", True), ("a", "a", False), ("a", "a", True), ("\u00f0", "\u00f3", True),
                         ("\u07fe", "\u0801", True), ("\uffff", "\U00010001", True), ("\ud7fe", "\ue000", True)):
        op = "..=" if incl else ".."
        rng = f"{rs_chr(lo)}{op}{rs_chr(hi)}"
        out.append(Case(None, "", f"const R: &str = string::from_iter!({rng});",
                        f'{{ let items: Vec<char> = ({rng}).collect(); format!("cat.from_iter.range chr{{}}", chars(&items)) }}',
                        "R", f"&String::from_iter({rng})"))
        out[-1].pyreq = ("range", lo, hi, incl)
    for n in (0, 1, 5):
        out.append(Case(None, "",
                        f'const R: &str = string::from_iter!(0..{n}, flat_map(|i| &[konst::string::str_up_to("abcd", i), "."]));',
                        f'{{ let items: Vec<&str> = (0..{n}usize).flat_map(|i| [&"abcd"[..i], "."]).collect(); format!("cat.from_iter.flatup str{{}}", pieces(&items)) }}',
                        "R", f'&String::from_iter((0..{n}usize).flat_map(|i| [&"abcd"[..i], "."]))'))
        out[-1].pyreq = ("flatup", n)
    for c in out:
        c.req = pyreq_from_iter(c.pyreq)
    return out


def pyreq_from_iter(t):
    """the request as this generator predicts it (items of the equivalent chain, computed here)"""
    if t[0] == "str":
        _, name, ps = t
        items = {
            "plain": ps, "copied": ps,
            "flat": [x for p in ps for x in (p, ",")],
            "filter": [p for p in ps if p != ""],
            "rev": ps[::-1], "skip1": ps[1:], "take2": ps[:2],
            "map": [p if p != "" else "_€" for p in ps],
        }[name]
        return f"cat.from_iter.{name} str" + req_pieces(items)
    if t[0] == "chr":
        _, name, cs = t
        items = {
            "plain": cs, "copied": cs, "rev": cs[::-1], "cmap": cs,
            "cfilter": [c for c in cs if ord(c) < 128],
            "cflat": [x for c in cs for x in (c, "-")],
        }[name]
        return f"cat.from_iter.{name} chr" + req_chars(items)
    if t[0] == "range":
        _, lo, hi, incl = t
        vals = [v for v in range(ord(lo), ord(hi) + (1 if incl else 0)) if not (0xD800 <= v < 0xE000)]
        return "cat.from_iter.range chr" + "".join(" %x" % v for v in vals)
    if t[0] == "flatup":
        items = [x for i in range(t[1]) for x in ("abcd"[:i], ".")]
        return "cat.from_iter.flatup str" + req_pieces(items)
    raise ValueError(t)


def kernel_cases(tier):
    """the two phases called directly (konst_kernel's pub functions the macros expand to), at run
    time, also with a WRONG buffer length N: ties `concatStrs n`, `joinStrs n`, `concatSlices n` and
    the length passes of the model to the code beyond what the macros can reach (index panic when N is
    too small, untouched filler when too large, `first_elem`'s panic). Oracle: none (`?`)."""
    out = []

    def catch(expr):
        return ("match std::panic::catch_unwind(|| { %s }) { Ok(s) => s, Err(_) => \"panic\".to_string() }" % expr)

    maxn = 2 if tier == "quick" else 3
    # concat_slices::<u8, N>
    shapes = [list(t) for n in range(maxn + 1) for t in itertools.product([0, 1, 2], repeat=n)]
    for shape in shapes:
        k = 0
        pcs = []
        for ln in shape:
            pcs.append([k + j + 1 for j in range(ln)])
            k += ln
        lit = ", ".join("&[" + ", ".join(str(v) for v in p) + "]" for p in pcs)
        preq = "".join(" [" + ";".join(str(v) for v in p) + "]" for p in pcs)
        out.append(Case("cat.k.slice_sum" + preq, f"const A: &[&[u8]] = &[{lit}];", "",
                        'format!("cat.k.slice_sum{}", lsts(A))',
                        catch("format!(\"{}\", konst_kernel::slice::concat_sum_lengths(A))"), '"?".to_string()', kind="l"))
        for n in sorted({0, max(k - 1, 0), k, k + 1, k + 2}):
            out.append(Case(f"cat.k.concat_slices {n}" + preq, f"const A: &[&[u8]] = &[{lit}];", "",
                            f'format!("cat.k.concat_slices {n}{{}}", lsts(A))',
                            catch(f"lst(&konst_kernel::slice::concat_slices::<u8, {n}>(A))"), '"?".to_string()', kind="l"))
    # concat_strs::<N>, concat_sum_lengths
    alpha = ["a", "ñ", ""]
    for ps in lists(alpha, maxn):
        lit = ", ".join(rs_str(p) for p in ps)
        k = sum(len(p.encode()) for p in ps)
        arg = "konst_kernel::string::__NormalizeConcatArg(A).conv()"
        out.append(Case("cat.k.concat_sum str" + req_pieces(ps), f"const A: &[&str] = &[{lit}];", "",
                        'format!("cat.k.concat_sum str{}", pieces(A))',
                        catch(f"format!(\"{{}}\", konst_kernel::string::concat_sum_lengths({arg}))"), '"?".to_string()', kind="l"))
        for n in sorted({max(k - 1, 0), k, k + 1}):
            out.append(Case(f"cat.k.concat_strs {n} str" + req_pieces(ps), f"const A: &[&str] = &[{lit}];", "",
                            f'format!("cat.k.concat_strs {n} str{{}}", pieces(A))',
                            catch(f"hx(konst_kernel::string::concat_strs::<{n}>({arg}).as_str().as_bytes())"),
                            '"?".to_string()', kind="l"))
    for cs in lists(["a", "ñ", "€"], 2):
        lit = ", ".join(rs_chr(c) for c in cs)
        k = sum(len(c.encode()) for c in cs)
        arg = "konst_kernel::string::__NormalizeConcatArg(C).conv()"
        out.append(Case("cat.k.concat_sum chr" + req_chars(cs), f"const C: &[char] = &[{lit}];", "",
                        'format!("cat.k.concat_sum chr{}", chars(C))',
                        catch(f"format!(\"{{}}\", konst_kernel::string::concat_sum_lengths({arg}))"), '"?".to_string()', kind="l"))
        for n in sorted({max(k - 1, 0), k, k + 2}):
            out.append(Case(f"cat.k.concat_strs {n} chr" + req_chars(cs), f"const C: &[char] = &[{lit}];", "",
                            f'format!("cat.k.concat_strs {n} chr{{}}", chars(C))',
                            catch(f"hx(konst_kernel::string::concat_strs::<{n}>({arg}).as_str().as_bytes())"),
                            '"?".to_string()', kind="l"))
    # join_strs::<N>, join_sum_lengths
    for kind, sp in (("s", ""), ("s", "-"), ("s", "ñ"), ("c", "€"), ("c", "-")):
        if kind == "s":
            sconst, sreq, sreqx = f"const S: &str = {rs_str(sp)};", "s:" + hx(sp.encode()), "seps(S)"
        else:
            sconst, sreq, sreqx = f"const S: char = {rs_chr(sp)};", "c:%x" % ord(sp), "sepc(S)"
        sl = len(sp.encode())
        for ps in lists(alpha, maxn):
            lit = ", ".join(rs_str(p) for p in ps)
            k = sum(len(p.encode()) for p in ps) + sl * max(len(ps) - 1, 0)
            arg = "konst_kernel::string::StrJoinArgs { sep: konst_kernel::string::__MakeSepArg(S).conv(), slice: A }"
            out.append(Case(f"cat.k.join_sum {sreq}" + req_pieces(ps), f"{sconst} const A: &[&str] = &[{lit}];", "",
                            f'format!("cat.k.join_sum {{}}{{}}", {sreqx}, pieces(A))',
                            catch(f"format!(\"{{}}\", konst_kernel::string::join_sum_lengths({arg}))"), '"?".to_string()', kind="l"))
            for n in sorted({max(k - 1, 0), k, k + 1}):
                out.append(Case(f"cat.k.join_strs {n} {sreq}" + req_pieces(ps), f"{sconst} const A: &[&str] = &[{lit}];", "",
                                f'format!("cat.k.join_strs {n} {{}}{{}}", {sreqx}, pieces(A))',
                                catch(f"hx(konst_kernel::string::join_strs::<{n}>({arg}).as_str().as_bytes())"),
                                '"?".to_string()', kind="l"))
    return out


# ------------------------------------------------------------------------------------------------
# LONG inputs: pieces, separators and element lists of 40..300 bytes (elements). The copy loops of the
# fill phase run once per byte; anything that treats long pieces differently (block copies, chunked
# loops, a length kept in a narrower type) is only reachable with lengths around 64 / 128 / 256.
# ------------------------------------------------------------------------------------------------

BOUNDARY = (63, 64, 65, 127, 128, 129, 255, 256, 257)
MB = ["ñ", "€", "\U0001F600", "é", "汉", "ü", "\U0001D11E", "Ж"]
LCH = ["a", "ñ", "€", "\U0001F600", "z", "é", "\U00010000", "߿"]


def long_lengths(tier):
    """every residue mod 16 (hence mod 8) right around 64, 128 and 256, plus the ends of the range"""
    ls = set(range(57, 73)) | set(range(121, 137)) | set(range(249, 265))
    ls |= {40, 41, 47, 48, 55, 56, 96, 100, 160, 192, 200, 299, 300}
    if tier != "quick":
        ls |= set(range(40, 301))
    return sorted(ls)


def long_text(n, flavor, salt=0):
    """a str of exactly n bytes without NUL and without a period (LCG stream); flavor "a": ASCII, "m":
    densely multi-byte (2/3/4-byte scalars), so that an unwritten or misplaced byte breaks the UTF-8"""
    x = (salt * 2654435761 + n * 40503 + (7 if flavor == "a" else 11)) % (1 << 31)
    out, used = [], 0
    while used < n:
        x = (x * 1103515245 + 12345) % (1 << 31)
        c = chr(0x21 + (x >> 16) % 94) if flavor == "a" else MB[(x >> 16) % len(MB)]
        if used + len(c.encode()) > n:
            c = chr(0x61 + (x >> 16) % 26)
        out.append(c)
        used += len(c.encode())
    return "".join(out)


def sep_parts_of(kind, s):
    if kind == "s":
        return f"const S: &str = {rs_str(s)};", "s:" + hx(s.encode()), "seps(S)", "S"
    return f"const S: char = {rs_chr(s)};", "c:%x" % ord(s), "sepc(S)", "&*S.to_string()"


def mk_concat_str(form, ps, how="s"):
    lit = ", ".join(rs_str(p) for p in ps)
    if how == "a":
        consts, arg = f"const A: &[&str; {len(ps)}] = &[{lit}];", "A"
    elif how == "i":
        consts, arg = f"const A: &[&str] = &[{lit}];", f"&[{lit}]"
    else:
        consts, arg = f"const A: &[&str] = &[{lit}];", "A"
    return Case(f"cat.concat.{form} str" + req_pieces(ps), consts, f"const R: &str = str_concat!({arg});",
                f'format!("cat.concat.{form} str{{}}", pieces(A))', "R", "&A.concat()")


def mk_join(form, kind, sep, ps, sep_arg="S"):
    sconst, sreq, sreqx, sora = sep_parts_of(kind, sep)
    lit = ", ".join(rs_str(p) for p in ps)
    return Case(f"cat.join.{form} {sreq}" + req_pieces(ps), f"{sconst} const A: &[&str] = &[{lit}];",
                f"const R: &str = str_join!({sep_arg}, A);",
                f'format!("cat.join.{form} {{}}{{}}", {sreqx}, pieces(A))', "R", f"&A.join({sora})")


def mk_slice(ty, tyname, pcs, render, tok):
    lit = ", ".join("&[" + ", ".join(render(v) for v in p) + "]" for p in pcs)
    k = sum(len(p) for p in pcs)
    req = f"cat.slice.{tyname}" + "".join(" [" + ";".join(tok(v) for v in p) + "]" for p in pcs)
    return Case(req, f"const A: &[&[{ty}]] = &[{lit}];", f"const R: [{ty}; {k}] = slice_concat!({ty}, A);",
                f'format!("cat.slice.{tyname}{{}}", lsts(A))', "lst(&R)", "lst(&A.concat())", kind="l")


def long_cases(tier):
    out = []
    ls = long_lengths(tier)
    catch = ("match std::panic::catch_unwind(|| { %s }) { Ok(s) => s, Err(_) => \"panic\".to_string() }")
    names = ["a", "ñ", "", "\U0001F600", "bc", "€", "d"]
    for idx, L in enumerate(ls):
        f, g = ("a", "m") if idx % 2 == 0 else ("m", "a")
        L2 = ls[(idx * 7 + 5) % len(ls)]
        ta, tm = long_text(L, "a", idx), long_text(L, "m", idx)
        tf, tg = (ta, tm) if f == "a" else (tm, ta)
        # str_concat!: the long piece after a short one (misaligned output index), as last and only piece
        out.append(mk_concat_str("L", ["// ", ta, "\n"]))
        out.append(mk_concat_str("L", ["ñ", tm]))
        out.append(mk_concat_str("La", [tg, "-", long_text(L2, f, idx + 1)], how="a"))
        if L in BOUNDARY or idx % 4 == 0:
            out.append(mk_concat_str("Li", [tf], how="i"))
        # str_join!: long pieces with a short separator, long str separator, char separator
        out.append(mk_join("L", "s", "--", ["x", tm, "", long_text(L, "a", idx + 2)]))
        out.append(mk_join("L", "s", tf, ["foo", "", "bar"]))
        out.append(mk_join("Lr", "s", tg, [long_text(L2, f, idx + 3), "é"], sep_arg="&S"))
        out.append(mk_join("L", "c", "€", [ta, tm]))
        # string::from_iter!: &str items
        items = [tf, "-", tg]
        for chain, kc, sc, its in (("L", "", ".iter().copied()", items),
                                   ("Lrev", ", rev()", ".iter().rev().copied()", items[::-1]),
                                   ("Lflat", ", flat_map(|s| &[*s, \",\"])", ".iter().flat_map(|s| [*s, \",\"])",
                                    [x for p in items for x in (p, ",")])):
            if chain != "L" and not (L in BOUNDARY or idx % 4 == 1):
                continue
            lit = ", ".join(rs_str(p) for p in items)
            out.append(Case(f"cat.from_iter.{chain} str" + req_pieces(its), f"const A: &[&str] = &[{lit}];",
                            f"const R: &str = string::from_iter!(A{kc});",
                            f'{{ let items: Vec<&str> = A{sc}.collect(); format!("cat.from_iter.{chain} str{{}}", pieces(&items)) }}',
                            "R", f"&String::from_iter(A{sc})"))
        # slice_concat!: u8 / u32 elements (a long inner slice first resp. last), &str elements
        u8s = [(i * 7 + idx) % 251 + 1 for i in range(L)]
        out.append(mk_slice("u8", "u8", [u8s, [254, 255, 1]], str, str))
        u32s = [100000 + i * i * 3 + idx for i in range(L)]
        out.append(mk_slice("u32", "u32", [[4000000000, 7], [], u32s], str, str))
        if L in BOUNDARY or idx % 4 == 2:
            strs = [names[(i * i + idx) % len(names)] for i in range(L)]
            out.append(mk_slice("&str", "str", [strs[:L // 3], strs[L // 3:]], rs_str, lambda v: hx(v.encode())))
        # many chars (every element is short, the RESULT is long)
        if L in BOUNDARY or idx % 4 == 3:
            cs = [LCH[(i * i + i // 3 + idx) % len(LCH)] for i in range(L)]
            lit = ", ".join(rs_chr(c) for c in cs)
            out.append(Case("cat.concat.L chr" + req_chars(cs), f"const C: &[char] = &[{lit}];",
                            "const R: &str = str_concat!(C);",
                            'format!("cat.concat.L chr{}", chars(C))', "R", "&C.iter().collect::<String>()"))
            out.append(Case("cat.from_iter.L chr" + req_chars(cs), f"const C: &[char] = &[{lit}];",
                            "const R: &str = string::from_iter!(C);",
                            '{ let items: Vec<char> = C.iter().copied().collect(); format!("cat.from_iter.L chr{}", chars(&items)) }',
                            "R", "&String::from_iter(C.iter().copied())"))
        # the fill phases called directly with N = LEN-1 / LEN / LEN+1 (model only)
        if L in BOUNDARY:
            ps = ["ab", tf]
            lit = ", ".join(rs_str(p) for p in ps)
            k = sum(len(p.encode()) for p in ps)
            arg = "konst_kernel::string::__NormalizeConcatArg(A).conv()"
            for n in (k - 1, k, k + 1):
                out.append(Case(f"cat.k.concat_strs {n} str" + req_pieces(ps), f"const A: &[&str] = &[{lit}];", "",
                                f'format!("cat.k.concat_strs {n} str{{}}", pieces(A))',
                                catch % f"hx(konst_kernel::string::concat_strs::<{n}>({arg}).as_str().as_bytes())",
                                '"?".to_string()', kind="l"))
            ps = ["a", tg, "bc"]
            lit = ", ".join(rs_str(p) for p in ps)
            sconst, sreq, sreqx, _ = sep_parts_of("s", tf)
            k = sum(len(p.encode()) for p in ps) + 2 * L
            arg = "konst_kernel::string::StrJoinArgs { sep: konst_kernel::string::__MakeSepArg(S).conv(), slice: A }"
            for n in (k, k + 1):
                out.append(Case(f"cat.k.join_strs {n} {sreq}" + req_pieces(ps), f"{sconst} const A: &[&str] = &[{lit}];", "",
                                f'format!("cat.k.join_strs {n} {{}}{{}}", {sreqx}, pieces(A))',
                                catch % f"hx(konst_kernel::string::join_strs::<{n}>({arg}).as_str().as_bytes())",
                                '"?".to_string()', kind="l"))
    return out


# ------------------------------------------------------------------------------------------------
# NAME HYGIENE: the argument expressions mention an item of the CALLER (const / static / fn / type
# alias) that is called like an identifier the expansion itself declares or binds. std's concat / join /
# from_iter have no reserved names, so every such program should compile and give std's result.
# ------------------------------------------------------------------------------------------------

# every identifier the expansions of the four macros declare or bind (read off the macro sources:
# konst_kernel/src/string/string_for_konst.rs, slice/slice_for_konst.rs, collect_const.rs and the loop
# skeleton of __process_iter_args! in iter/combinator_methods.rs)
HYG_ITEMS = ["__ARGS_81608BFNA5", "__LEN_81608BFNA5", "__CONC_81608BFNA5", "__STR_81608BFNA5",
             "__func_zxe7hgbnjs", "__COUNT81608BFNA5", "__ARR81608BFNA5", "__STR81608BFNA5"]
HYG_GENERICS = ["Ret_KO9Y329U2U", "CAP_KO9Y329U2U"]
HYG_BINDERS = ["cmd", "array", "written_length", "iter", "elem_phantom_ty", "item", "elem_", "next_", "teq",
               "byteser", "bytes", "item_len", "i", "j", "x"]
# label / macro-internal token of from_iter!, the plain names the helper constants had before they were
# mangled (commit 450faa1, findings F20a/F20b), and locals of the kernel FUNCTIONS (not part of any
# expansion): controls, all of them must be accepted
HYG_OTHER = ["LEN", "CONC", "STR", "zxe7hgbnjs", "adapter", "length", "slices", "slice", "out", "out_i", "sum", "sep", "first", "utf8e", "N"]
# names the library mangles on purpose (`..81608BFNA5`, `.._KO9Y329U2U`, `__func_zxe7hgbnjs`)
HYG_MANGLED = {n for n in HYG_ITEMS + HYG_GENERICS if "81608BFNA5" in n or "KO9Y329U2U" in n or "zxe7hgbnjs" in n}


# identifiers that appear in the macro sources NOW but were not there when the lists above were read off
# (`vlib/progs/c20_idents.txt` = every identifier of those files at that time): a renamed generic parameter, a
# new helper constant or binder is tried as a caller's name as well (on the unchanged tree the list is empty)
HYG_SOURCE_FILES = ["konst_kernel/src/collect_const.rs", "konst_kernel/src/string/string_for_konst.rs",
                    "konst_kernel/src/slice/slice_for_konst.rs", "konst_kernel/src/iter/combinator_methods.rs",
                    "konst_kernel/src/iter.rs", "konst/src/string/concatenation.rs"]
_RUST_KW = set("as break const continue crate else enum extern false fn for if impl in let loop match mod move mut pub ref "
               "return self Self static struct super trait true type unsafe use where while dyn async await "
               "abstract become box do final macro override priv typeof unsized virtual yield try gen union".split())


def source_idents():
    from vlib import core
    out = set()
    for f in HYG_SOURCE_FILES:
        p = os.path.join(core.REPO, f)
        if os.path.exists(p):
            txt = re.sub(r"//[^\n]*", "", open(p).read())
            out |= set(re.findall(r"\b[A-Za-z_][A-Za-z0-9_]*\b", txt))
    return {x for x in out if x not in _RUST_KW and not x.isdigit() and x != "_"}


def program_idents():
    """identifiers the generated programs themselves use (helpers of PRELUDE, locals of the case blocks): a caller
    item of such a name would break the std-only half of the program, which says nothing about the macros"""
    return set(re.findall(r"\b[A-Za-z_][A-Za-z0-9_]*\b", PRELUDE)) | {
        "A", "A3", "AW", "C", "R", "S", "items", "pieces", "chars", "lsts", "lst", "seps", "sepc", "hx", "row", "rowl",
        "format", "String", "Vec", "from_iter", "take", "copied", "iter", "string", "collect", "usize", "str", "main",
        "std", "core", "konst", "konst_kernel", "r", "print", "println", "map", "s", "t", "is_empty", "concat", "join"}


def discovered_idents():
    base_file = os.path.join(os.path.dirname(__file__), "c20_idents.txt")
    base = set(open(base_file).read().split()) if os.path.exists(base_file) else None
    if base is None:
        return []
    new = sorted(source_idents() - base - program_idents())
    return new[:16]


HYG_DISCOVERED = discovered_idents()


def hyg_predict(macro, frag, decl, name):
    """what this generator expects rustc to say — used ONLY to decide how a case is compiled (inside
    the big programs or on its own); the verdict that is compared comes from rustc and from the Lean
    model (`Hyg.transparent`)"""
    val = decl != "tyAlias"
    if name in HYG_DISCOVERED:
        return False          # unknown: judged on its own; if it compiles its value is compared as well
    if macro == "from_iter":
        if val and name in ("CAP_KO9Y329U2U", "__func_zxe7hgbnjs", "__COUNT81608BFNA5", "__ARR81608BFNA5", "__STR81608BFNA5"):
            return False
        if not val and name in ("Ret_KO9Y329U2U", "CAP_KO9Y329U2U"):
            return False
        return not (decl in ("const", "static") and name in HYG_BINDERS)
    if val and name == "__ARGS_81608BFNA5":
        return False
    if macro == "slice_concat" and frag == "elem_ty" and val and name in ("__LEN_81608BFNA5", "__CONC_81608BFNA5"):
        return False          # the element type is pasted into the inner block as well
    return True


def hyg_scope(macro, frag, decl, name):
    """is `compiles, like the std program` part of the property for this name?  Not for the names the
    library mangles precisely because macro_rules items are not hygienic, and not for a caller
    const/static that has the (lower-case) name of a local variable of the from_iter! expansion: an
    identifier pattern can never shadow a constant (E0530), which no macro_rules macro can avoid."""
    if name in HYG_MANGLED:
        return False
    if macro == "from_iter" and decl in ("const", "static") and name in HYG_BINDERS:
        return False
    return True


def hygiene_cases(tier):
    out = []

    def add(macro, frag, decl, use, n, consts, impl, reqhead, reqtail, reqx, imp, ora, kind="s"):
        """value request = `<reqhead>.h:<decl>/<use>:<NAME><reqtail>`"""
        form = f"h:{decl}/{use}:{n}"
        c = Case(f"{reqhead}.{form}{reqtail}", consts, impl, reqx.replace("@FORM@", form), imp, ora, kind=kind)
        c.hyg = (macro, frag, decl, use, n)
        c.creq = f"{macro} {frag} {decl}/{use} {n}"
        c.hyg_expect = hyg_predict(macro, frag, decl, n)
        c.hyg_scope = hyg_scope(macro, frag, decl, n)
        out.append(c)

    names = HYG_ITEMS + HYG_GENERICS + HYG_BINDERS + HYG_OTHER + [n for n in HYG_DISCOVERED if n not in HYG_ITEMS + HYG_GENERICS + HYG_BINDERS + HYG_OTHER]
    if tier == "thorough":
        # thorough tier (also the tier every broken obligation / correspondence escalates to): EVERY identifier that
        # occurs in the macro sources now, as a caller's `usize` constant handed to an adaptor of from_iter! — a name
        # that an edit turned into a generic parameter or an item of the expansion is among them whether or not it
        # also occurs elsewhere in those files (added after seeded change C20-r4-1, where the new names `Ret`/`CAP`
        # were already used a few lines above)
        used_by_program = program_idents()
        for n in sorted(source_idents()):
            if n in names or n in used_by_program or n in HYG_MANGLED or n.startswith("__"):
                continue
            add("from_iter", "rem", "const", "take", n,
                f'const {n}: usize = 2; const A3: &[&str] = &["foo", "bar", "baz"];',
                f"const R: &str = string::from_iter!(A3, take({n}));",
                "cat.from_iter", " str 666f6f 626172",
                f'{{ let items: Vec<&str> = A3.iter().copied().take({n}).collect(); format!("cat.from_iter.@FORM@ str{{}}", pieces(&items)) }}',
                "R", f"&String::from_iter(A3.iter().copied().take({n}))")
            out[-1].hyg_expect = False      # judged on its own; if it compiles its value is compared as well
            out[-1].hyg_scope = not (n[:1].islower() or n[:1] == "_")   # a lower-case name may be a binder (E0530)
            out[-1].no_model = True         # the Lean model's binder lists are not asked about these names
    P = "68656c6c6f"     # "hello"
    for n in names:
        # ---------------- str_concat!($slice)
        add("str_concat", "slice", "const", "piece", n,
            f'const {n}: &str = "hello"; const A: &[&str] = &[{n}, " ", "w"];',
            f'const R: &str = str_concat!(&[{n}, " ", "w"]);',
            "cat.concat", f" str {P} 20 77", 'format!("cat.concat.@FORM@ str{}", pieces(A))', "R", "&A.concat()")
        add("str_concat", "slice", "const", "list", n,
            f'const {n}: &[&str] = &["hello", "w"]; const A: &[&str] = {n};',
            f"const R: &str = str_concat!({n});",
            "cat.concat", f" str {P} 77", 'format!("cat.concat.@FORM@ str{}", pieces(A))', "R", "&A.concat()")
        add("str_concat", "slice", "const", "chr", n,
            f"const {n}: char = 'h'; const C: &[char] = &[{n}, '\\u{{f1}}'];",
            f"const R: &str = str_concat!(&[{n}, '\\u{{f1}}']);",
            "cat.concat", " chr 68 f1", 'format!("cat.concat.@FORM@ chr{}", chars(C))', "R", "&C.iter().collect::<String>()")
        add("str_concat", "slice", "const", "count", n,
            f'const {n}: usize = 2; const A: &[&str] = &["ab"; {n}];',
            f'const R: &str = str_concat!(&["ab"; {n}]);',
            "cat.concat", " str 6162 6162", 'format!("cat.concat.@FORM@ str{}", pieces(A))', "R", "&A.concat()")
        add("str_concat", "slice", "fn", "piece", n,
            f'const fn {n}() -> &\'static str {{ "hello" }} const A: &[&str] = &[{n}(), "w"];',
            f'const R: &str = str_concat!(&[{n}(), "w"]);',
            "cat.concat", f" str {P} 77", 'format!("cat.concat.@FORM@ str{}", pieces(A))', "R", "&A.concat()")
        add("str_concat", "slice", "tyAlias", "cast", n,
            f'type {n} = &\'static str; const A: &[{n}] = &["hello", "w"];',
            f'const R: &str = str_concat!(&["hello" as {n}, "w"]);',
            "cat.concat", f" str {P} 77", 'format!("cat.concat.@FORM@ str{}", pieces(A))', "R", "&A.concat()")
        # ---------------- str_join!($sep, $slice)
        AW = 'const A: &[&str] = &["a", "w"];'
        add("str_join", "sep", "const", "str", n, f'const {n}: &str = "--"; {AW}',
            f"const R: &str = str_join!({n}, A);",
            "cat.join", " s:2d2d 61 77", f'format!("cat.join.@FORM@ {{}}{{}}", seps({n}), pieces(A))', "R", f"&A.join({n})")
        add("str_join", "sep", "const", "refstr", n, f'const {n}: &str = "--"; {AW}',
            f"const R: &str = str_join!(&{n}, A);",
            "cat.join", " s:2d2d 61 77", f'format!("cat.join.@FORM@ {{}}{{}}", seps({n}), pieces(A))', "R", f"&A.join({n})")
        add("str_join", "sep", "const", "chr", n, f"const {n}: char = '\\u{{20ac}}'; {AW}",
            f"const R: &str = str_join!({n}, A);",
            "cat.join", " c:20ac 61 77", f'format!("cat.join.@FORM@ {{}}{{}}", sepc({n}), pieces(A))', "R",
            f"&A.join(&*{n}.to_string())")
        add("str_join", "sep", "fn", "str", n, f'const fn {n}() -> &\'static str {{ "--" }} {AW}',
            f"const R: &str = str_join!({n}(), A);",
            "cat.join", " s:2d2d 61 77", f'format!("cat.join.@FORM@ {{}}{{}}", seps({n}()), pieces(A))', "R", f"&A.join({n}())")
        add("str_join", "sep", "tyAlias", "cast", n, f"type {n} = &'static str; {AW}",
            f'const R: &str = str_join!("--" as {n}, A);',
            "cat.join", " s:2d2d 61 77", 'format!("cat.join.@FORM@ {}{}", seps("--"), pieces(A))', "R", '&A.join("--")')
        add("str_join", "slice", "const", "piece", n,
            f'const {n}: &str = "hello"; const A: &[&str] = &[{n}, "w"];',
            f'const R: &str = str_join!("-", &[{n}, "w"]);',
            "cat.join", f" s:2d {P} 77", 'format!("cat.join.@FORM@ {}{}", seps("-"), pieces(A))', "R", '&A.join("-")')
        add("str_join", "slice", "const", "list", n,
            f'const {n}: &[&str] = &["hello", "w"]; const A: &[&str] = {n};',
            f"const R: &str = str_join!('-', {n});",
            "cat.join", f" c:2d {P} 77", "format!(\"cat.join.@FORM@ {}{}\", sepc('-'), pieces(A))", "R", '&A.join("-")')
        add("str_join", "slice", "const", "count", n,
            f'const {n}: usize = 3; const A: &[&str] = &["ab"; {n}];',
            f'const R: &str = str_join!(", ", &["ab"; {n}]);',
            "cat.join", " s:2c20 6162 6162 6162", 'format!("cat.join.@FORM@ {}{}", seps(", "), pieces(A))', "R", '&A.join(", ")')
        add("str_join", "slice", "fn", "piece", n,
            f'const fn {n}() -> &\'static str {{ "hello" }} const A: &[&str] = &[{n}(), "w"];',
            f'const R: &str = str_join!("-", &[{n}(), "w"]);',
            "cat.join", f" s:2d {P} 77", 'format!("cat.join.@FORM@ {}{}", seps("-"), pieces(A))', "R", '&A.join("-")')
        add("str_join", "slice", "tyAlias", "cast", n,
            f'type {n} = &\'static str; const A: &[{n}] = &["hello", "w"];',
            f'const R: &str = str_join!("-", &["hello" as {n}, "w"]);',
            "cat.join", f" s:2d {P} 77", 'format!("cat.join.@FORM@ {}{}", seps("-"), pieces(A))', "R", '&A.join("-")')
        # ---------------- slice_concat!($elem_ty, $slice)
        SL = 'format!("cat.slice.@FORM@{}", lsts(A))'
        add("slice_concat", "slice", "const", "piece", n,
            f"const {n}: &[u8] = &[3, 5, 8]; const A: &[&[u8]] = &[{n}, &[13, 21]];",
            f"const R: [u8; 5] = slice_concat!(u8, &[{n}, &[13, 21]]);",
            "cat.slice", " [3;5;8] [13;21]", SL, "lst(&R)", "lst(&A.concat())", kind="l")
        add("slice_concat", "slice", "const", "list", n,
            f"const {n}: &[&[u8]] = &[&[3, 5, 8], &[13, 21]]; const A: &[&[u8]] = {n};",
            f"const R: [u8; 5] = slice_concat!(u8, {n});",
            "cat.slice", " [3;5;8] [13;21]", SL, "lst(&R)", "lst(&A.concat())", kind="l")
        add("slice_concat", "slice", "const", "elem", n,
            f"const {n}: u8 = 3; const A: &[&[u8]] = &[&[{n}, 5], &[8]];",
            f"const R: [u8; 3] = slice_concat!(u8, &[&[{n}, 5], &[8]]);",
            "cat.slice", " [3;5] [8]", SL, "lst(&R)", "lst(&A.concat())", kind="l")
        add("slice_concat", "slice", "fn", "piece", n,
            f"const fn {n}() -> &'static [u8] {{ &[3, 5, 8] }} const A: &[&[u8]] = &[{n}(), &[13, 21]];",
            f"const R: [u8; 5] = slice_concat!(u8, &[{n}(), &[13, 21]]);",
            "cat.slice", " [3;5;8] [13;21]", SL, "lst(&R)", "lst(&A.concat())", kind="l")
        add("slice_concat", "slice", "tyAlias", "cast", n,
            f"type {n} = u8; const A: &[&[u8]] = &[&[3, 5], &[8]];",
            f"const R: [u8; 3] = slice_concat!(u8, &[&[3 as {n}, 5], &[8]]);",
            "cat.slice", " [3;5] [8]", SL, "lst(&R)", "lst(&A.concat())", kind="l")
        # the element type mentions the caller's item (3 elements of type [u8; 2]: a captured `LEN`
        # would have the wrong value)
        add("slice_concat", "elem_ty", "const", "arraylen", n,
            f"const {n}: usize = 2; const A: &[&[[u8; {n}]]] = &[&[[1, 2], [3, 4]], &[[5, 6]]];",
            f"const R: [[u8; {n}]; 3] = slice_concat!([u8; {n}], A);",
            "cat.slice", " [1,2;3,4] [5,6]", SL, "lst(&R)", "lst(&A.concat())", kind="l")
        add("slice_concat", "elem_ty", "tyAlias", "elem", n,
            f"type {n} = u8; const A: &[&[{n}]] = &[&[3, 5], &[8]];",
            f"const R: [{n}; 3] = slice_concat!({n}, A);",
            "cat.slice", " [3;5] [8]", SL, "lst(&R)", "lst(&A.concat())", kind="l")
        # ---------------- string::from_iter!($($rem)*)
        add("from_iter", "rem", "const", "src", n,
            f'const {n}: &[&str] = &["hello", "w"];',
            f"const R: &str = string::from_iter!({n});",
            "cat.from_iter", f" str {P} 77", f'format!("cat.from_iter.@FORM@ str{{}}", pieces({n}))', "R",
            f"&String::from_iter({n}.iter().copied())")
        add("from_iter", "rem", "static", "src", n,
            f'static {n}: &[&str] = &["hello", "w"];',
            f"const R: &str = string::from_iter!({n});",
            "cat.from_iter", f" str {P} 77", f'format!("cat.from_iter.@FORM@ str{{}}", pieces({n}))', "R",
            f"&String::from_iter({n}.iter().copied())")
        AEB = 'const A: &[&str] = &["a", "", "b"];'
        add("from_iter", "rem", "const", "closure", n,
            f'const {n}: &str = "hello"; {AEB}',
            f"const R: &str = string::from_iter!(A, map(|s| if s.is_empty() {{ {n} }} else {{ *s }}));",
            "cat.from_iter", f" str 61 {P} 62",
            f'{{ let items: Vec<&str> = A.iter().map(|s| if s.is_empty() {{ {n} }} else {{ *s }}).collect(); format!("cat.from_iter.@FORM@ str{{}}", pieces(&items)) }}',
            "R", f"&String::from_iter(A.iter().map(|s| if s.is_empty() {{ {n} }} else {{ *s }}))")
        # (a tuple constant: were the name captured by the const generic, or taken for the constant
        # pattern of the loop's `if let Some((elem_, next_))`, the types could not agree by accident)
        add("from_iter", "rem", "const", "range", n,
            f"const {n}: (usize,) = (3,);",
            f'const R: &str = string::from_iter!(0..{n}.0, map(|_| "ab"));',
            "cat.from_iter", " str 6162 6162 6162",
            f'{{ let items: Vec<&str> = (0..{n}.0).map(|_| "ab").collect(); format!("cat.from_iter.@FORM@ str{{}}", pieces(&items)) }}',
            "R", f'&String::from_iter((0..{n}.0).map(|_| "ab"))')
        if n not in HYG_MANGLED:
            # a plain `usize` constant as the argument of an adaptor: were the name captured by a const generic of
            # the collector function, the program would still compile — to another value
            # (added after seeded change C20-r4-1: the generic parameters renamed to `Ret`/`CAP`)
            add("from_iter", "rem", "const", "take", n,
                f'const {n}: usize = 2; const A3: &[&str] = &["foo", "bar", "baz"];',
                f"const R: &str = string::from_iter!(A3, take({n}));",
                "cat.from_iter", " str 666f6f 626172",
                f'{{ let items: Vec<&str> = A3.iter().copied().take({n}).collect(); format!("cat.from_iter.@FORM@ str{{}}", pieces(&items)) }}',
                "R", f"&String::from_iter(A3.iter().copied().take({n}))")
        add("from_iter", "rem", "fn", "closure", n,
            f"const fn {n}(s: &str) -> &str {{ s }} {AEB}",
            f"const R: &str = string::from_iter!(A, map(|s| {n}(*s)));",
            "cat.from_iter", " str 61 - 62",
            f'{{ let items: Vec<&str> = A.iter().map(|s| {n}(*s)).collect(); format!("cat.from_iter.@FORM@ str{{}}", pieces(&items)) }}',
            "R", f"&String::from_iter(A.iter().map(|s| {n}(*s)))")
        add("from_iter", "rem", "tyAlias", "closure", n,
            f"type {n} = &'static str; {AEB}",
            f"const R: &str = string::from_iter!(A, map(|s| {{ let t: {n} = *s; t }}));",
            "cat.from_iter", " str 61 - 62",
            f'{{ let items: Vec<&str> = A.iter().map(|s| {{ let t: {n} = *s; t }}).collect(); format!("cat.from_iter.@FORM@ str{{}}", pieces(&items)) }}',
            "R", f"&String::from_iter(A.iter().map(|s| {{ let t: {n} = *s; t }}))")
    return out


def all_cases(tier):
    return (concat_cases(tier) + join_cases(tier) + slice_cases(tier) + from_iter_cases(tier) + kernel_cases(tier)
            + long_cases(tier) + hygiene_cases(tier))


def program(cases, idxs, with_impl=None):
    """one Rust source; cases grouped into functions of 40 blocks"""
    fns = []
    body = []
    for k in range(0, len(idxs), 40):
        grp = idxs[k:k + 40]
        blocks = "\n".join("    " + cases[i].block(i, True if with_impl is None else with_impl(i)) for i in grp)
        fns.append(f"fn g{k}() {{\n{blocks}\n}}")
        body.append(f"    g{k}();")
    return PRELUDE + "\n".join(fns) + "\nfn main() {\n    std::panic::set_hook(Box::new(|_| {}));\n" + "\n".join(body) + "\n}\n"


def kernel_rlib():
    """the konst_kernel rlib of the same cargo build (exact artifact from cargo's JSON output)"""
    import json, subprocess
    from vlib import core
    common.konst_rlib()
    with core.build_lock():
        p = subprocess.run(["cargo", "build", "--offline", "--message-format=json"], cwd=core.HARNESS,
                           env=core.ENV, stdout=subprocess.PIPE, stderr=subprocess.PIPE, text=True)
    rlib = None
    for line in p.stdout.splitlines():
        try:
            m = json.loads(line)
        except ValueError:
            continue
        if m.get("reason") == "compiler-artifact" and m.get("target", {}).get("name") == "konst_kernel":
            for f in m.get("filenames", []):
                if f.endswith(".rlib"):
                    rlib = f
    if not rlib:
        raise RuntimeError("konst_kernel rlib not found in cargo output")
    return rlib


def settle(d, cases, gi, g, src0, err, extra):
    """program `gi` does not compile: some constant does not evaluate / some invocation is rejected.
    Attribute the errors to cases (rustc names the line of each failing item; one case per line) and
    rebuild the program with those cases' macro calls left out — repeatedly, because rustc may stop
    before it has reported every case; else one metadata-only compile per case. Returns (exe, bad)."""
    lines = program(cases, g).split("\n")
    line_case = {}
    for ln, text in enumerate(lines, 1):
        m = re.match(r"\s*\{ .*\b(?:row|rowl)\((\d+), ", text)
        if m:
            line_case[ln] = int(m.group(1))
    bad = set()
    exe = os.path.join(d, f"p{gi}_b")
    src = os.path.join(d, f"p{gi}_b.rs")
    srcname = os.path.basename(src0)
    for _round in range(8):
        new = set()
        for m in re.finditer(re.escape(srcname) + r":(\d+):\d+", err):
            if int(m.group(1)) in line_case:
                new.add(line_case[int(m.group(1))])
        if not (new - bad):
            break
        bad |= new
        with open(src, "w") as f:
            f.write(program(cases, g, with_impl=lambda i: i not in bad))
        rc, err = common.compile_one(src, exe, "link", extra)
        if rc == 0:
            return exe, bad
        srcname = os.path.basename(src)
    single = []
    for i in g:
        src1 = os.path.join(d, f"c{i}.rs")
        with open(src1, "w") as f:
            f.write(program(cases, [i]))
        single.append((src1, os.path.join(d, f"c{i}.rmeta"), "metadata", extra))
    sres = common.compile_many(single, workers=4)
    bad = {i for i, (rc1, _) in zip(g, sres) if rc1 != 0}
    if not bad:
        raise RuntimeError("program fails as a whole but every case compiles alone: " + err[-1500:])
    with open(src, "w") as f:
        f.write(program(cases, g, with_impl=lambda i: i not in bad))
    rc2, err2 = common.compile_one(src, exe, "link", extra)
    if rc2 != 0:
        raise RuntimeError("oracle-only program does not compile: " + err2[-1500:])
    return exe, bad


def generate(ctx):
    import concurrent.futures
    tier = ctx["tier"]
    cases = all_cases(tier)
    if ctx.get("only") is not None:
        only = ctx["only"]
        cases = [c for c in cases if c.req in only
                 or (hasattr(c, "creq") and ("cat.compile " + c.creq in only or "cat.compile_m " + c.creq in only))]
    d = common.workdir(ctx["pid"] + "_cat")
    # opt-level 0: the programs only print constants; const evaluation does not depend on it
    extra = ("--extern", "konst_kernel=" + kernel_rlib(), "-C", "opt-level=0")
    # hygiene cases the expansion is expected to reject are judged on their own (metadata only); the
    # others run inside the programs like every other case (in programs of their own, so that a
    # rejected invocation does not make the other programs compile twice)
    is_hyg = lambda c: hasattr(c, "hyg")
    alone = [i for i, c in enumerate(cases) if is_hyg(c) and not c.hyg_expect]
    plain = [i for i, c in enumerate(cases) if not is_hyg(c)]
    hygin = [i for i, c in enumerate(cases) if is_hyg(c) and c.hyg_expect]
    nprog, nhyg = 16, 4
    groups = [plain[k::nprog] for k in range(nprog)] + [hygin[k::nhyg] for k in range(nhyg)]
    groups = [g for g in groups if g]
    jobs = []
    for gi, g in enumerate(groups):
        src = os.path.join(d, f"p{gi}.rs")
        with open(src, "w") as f:
            f.write(program(cases, g))
        jobs.append((src, os.path.join(d, f"p{gi}"), "link", extra))
    njobs = len(jobs)
    for i in alone:
        src = os.path.join(d, f"h{i}.rs")
        with open(src, "w") as f:
            f.write(program(cases, [i]))
        jobs.append((src, os.path.join(d, f"h{i}.rmeta"), "metadata", extra))
    if alone:
        # the same callers' items with std only: must compile (else the verdict `reject` says nothing)
        src = os.path.join(d, "h_std.rs")
        with open(src, "w") as f:
            f.write(program(cases, alone, with_impl=lambda i: False))
        jobs.append((src, os.path.join(d, "h_std.rmeta"), "metadata", extra))
    res = common.compile_many(jobs)
    if alone and res[-1][0] != 0:
        # a source-derived name (new identifier of the macro sources / thorough sweep) may collide with the program's
        # own text: judge the std-only half of those cases one by one and drop the ones that do not compile
        suspects = [i for i in alone if getattr(cases[i], "no_model", False) or cases[i].hyg[4] in HYG_DISCOVERED]
        sj = []
        for i in suspects:
            src = os.path.join(d, f"hs{i}.rs")
            with open(src, "w") as f:
                f.write(program(cases, [i], with_impl=lambda i: False))
            sj.append((src, os.path.join(d, f"hs{i}.rmeta"), "metadata", extra))
        sres = common.compile_many(sj)
        dropped = {i for i, (rc, _) in zip(suspects, sres) if rc != 0}
        keep = [i for i in alone if i not in dropped]
        src = os.path.join(d, "h_std2.rs")
        with open(src, "w") as f:
            f.write(program(cases, keep, with_impl=lambda i: False))
        rc2, err2 = common.compile_one(src, os.path.join(d, "h_std2.rmeta"), "metadata", extra)
        if rc2 != 0:
            raise RuntimeError("std-only hygiene program does not compile: " + err2[-1500:])
        ctx["extra"]["c20_names_dropped"] = sorted({cases[i].hyg[4] for i in dropped})
        # the dropped cases are removed from the run altogether
        drop_set = dropped
    else:
        drop_set = set()
    alone_ok = {i: res[njobs + k][0] == 0 for k, i in enumerate(alone)}
    failed_cases = set()
    exes = {gi: jobs[gi][1] for gi in range(len(groups))}
    failing = [gi for gi in range(len(groups)) if res[gi][0] != 0]
    surprise = [i for i in alone if alone_ok[i]]
    if surprise:
        # accepted although the expansion was expected to reject it: what does it evaluate to?
        src = os.path.join(d, "h_surprise.rs")
        with open(src, "w") as f:
            f.write(program(cases, surprise))
        rc, err = common.compile_one(src, os.path.join(d, "h_surprise"), "link", extra)
        if rc != 0:
            raise RuntimeError("cases that compile alone do not compile together: " + err[-1500:])
        groups.append(surprise)
        exes[len(groups) - 1] = os.path.join(d, "h_surprise")
    with concurrent.futures.ThreadPoolExecutor(max_workers=8) as ex:
        futs = {gi: ex.submit(settle, d, cases, gi, groups[gi], jobs[gi][0], res[gi][1], extra) for gi in failing}
        for gi, f in futs.items():
            exes[gi], bad = f.result()
            failed_cases |= bad
    outputs = []
    for gi in range(len(groups)):
        rc3, so, se = common.run_bin(exes[gi])
        if rc3 != 0:
            raise RuntimeError(f"generated program {exes[gi]} exited {rc3}: {se[-800:]}")
        outputs.append(so)
    rows = {}
    for so in outputs:
        for line in so.splitlines():
            parts = line.split("\t")
            if len(parts) != 4:
                raise RuntimeError("malformed program output line: " + line[:200])
            i = int(parts[0])
            req, imp, ora = parts[1], parts[2], parts[3]
            if req != cases[i].req:
                raise RuntimeError(f"request mismatch for case {i}: program says {req!r}, generator says {cases[i].req!r}")
            if i in failed_cases:
                imp = "panic"
            rows[i] = (req, imp, ora, getattr(cases[i], "hyg_scope", True))
    if len(rows) != len(cases) - len(alone) + len(surprise):
        raise RuntimeError(f"{len(cases) - len(alone) + len(surprise) - len(rows)} cases produced no row")
    allrows = [rows[i] for i in range(len(cases)) if i in rows]
    # the compile verdicts of the hygiene cases
    nrej = 0
    for i, c in enumerate(cases):
        if not is_hyg(c) or i in drop_set:
            continue
        ok = alone_ok[i] if i in alone_ok else (i not in failed_cases)
        nrej += 0 if ok else 1
        verdict = "accept" if ok else "reject"
        allrows.append(("cat.compile " + c.creq, verdict, "accept", c.hyg_scope))
        if not c.hyg_scope and not getattr(c, "no_model", False):
            # outside the property as far as std is concerned, but still tied to the model
            allrows.append(("cat.compile_m " + c.creq, verdict, "?", True))
    ctx["extra"]["c20_programs"] = {"cases": len(cases), "programs": len(groups),
                                    "cases_not_compiling": len(failed_cases), "programs_rebuilt": len(failing),
                                    "hygiene_cases": sum(1 for c in cases if is_hyg(c)),
                                    "hygiene_compiled_alone": len(alone), "hygiene_rejected": nrej}
    return common.write_tsv(os.path.join(d, "rows.tsv"), allrows)
