"""
C18: generated programs that expand the REAL `parser_method!` macro (through the konst_proc_macros
proc macro) on sets of string-literal alternatives, for every input over the literals' alphabet, and
compare with an if-else chain of Parser method calls written with the same literals (so the bytes
are whatever rustc gives the literals).

request:  pm <form> <base> <input-hex> <arms>
   arms = comma-separated  <branch>:<src>:<byteshex>   (pattern-only forms use branch 0)
   src  = L<hex of the literal's TOKEN TEXT>  |  C<hex>;<hex>;…  (concat! of literals, `C` = empty)
   byteshex = the bytes rustc gives the literal (printed by the program itself)
result:   <branch|d>|<start_offset>|<end_offset>|<remainder hex>      (d = default branch)
A literal set the macro refuses to compile is reported as  pm.compile <set> -> reject.
"""
import os, itertools
from vlib.progs import common

NL = "\n"
NBSP = " "

# each set: list of branches; a branch is a list of alternatives; an alternative is Rust source text
# of a literal (str) or ("concat", [literal source texts])
SETS = [
    ("plain", [['"a"'], ['"b"']]),
    ("overlap_long_first", [['"ab"', '"a"'], ['"b"']]),
    ("overlap_short_first", [['"a"', '"ab"'], ['"ba"']]),
    ("empty_lit", [['""'], ['"a"']]),
    ("empty_last", [['"a"'], ['""']]),
    ("esc_basic", [['"\\n"'], ['"\\r"', '"\\t"'], ['"\\\\"'], ['"\\0"']]),
    ("esc_quotes", [['"\\\'"'], ['"\\""'], ['"q"']]),
    ("esc_hex", [['"\\x41"'], ['"\\x7F"', '"\\x00"'], ['"\\x0a"']]),
    ("esc_uni", [['"\\u{41}"'], ['"\\u{F1}"'], ['"\\u{20AC}"', '"\\u{1F600}"']]),
    ("esc_uni_underscore", [['"\\u{1_F600}"'], ['"\\u{00_00F1}"'], ['"\\u{4_1}"']]),
    ("continuation", [['"a\\' + NL + '   b"'], ['"c\\' + NL + '\t' + NL + ' d"'], ['"e"']]),
    ("continuation_nbsp", [['"a\\' + NL + '  ' + NBSP + 'b"'], ['"a' + NBSP + '"'], ['"ab"']]),
    ("continuation_end", [['"a\\' + NL + '   "'], ['"b"']]),
    ("raw0", [['r"a\\n"'], ['r"b"']]),
    ("raw1", [['r#"a"b"#'], ['r#"\\"#']]),
    ("raw2", [['r##"x"#y"##'], ['r##""##', 'r"z"']]),
    # raw literals whose CONTENT touches the delimiters: begins / ends with `"`, is exactly `"`, contains `"#`
    # runs shorter than the delimiter, begins / ends with `#` — with 1, 2 and 3 hashes.  The decoder must drop
    # exactly one `"` and exactly N hashes per side.  (third element: extra units of the input alphabet)
    ("raw_q_start", [['r#""a"#'], ['r"a"']], ['"']),
    ("raw_q_end", [['r#"a""#'], ['r#"a"#']], ['"']),
    ("raw_q_only", [['r#"""#'], ['"a"']]),
    ("raw_q_both", [['r#""name""#'], ['r#"say "hi""#', 'r"name"']], ['"']),
    ("raw_q_double", [['r#""""#'], ['r##"""##']]),
    ("raw2_qhash", [['r##"a"#"##'], ['r##""#a"##', 'r##""#"##']], ['"', '#']),
    ("raw3", [['r###"a"##"###'], ['r###""##"###', 'r###"""###'], ['r###"#"#"###']]),
    ("raw_hash_edges", [['r#"#a#"#'], ['r"#"', 'r##"#"##']], ['a']),
    ("raw_bslash_q", [['r#"\\""#'], ['r#"\\"#', '"\\""']]),
    ("concat_raw_q", [[("concat", ['r#"""#', 'r#""a"#'])], [("concat", ['r#"a""#', '"\\""'])], ['r"a"']]),
    ("multibyte", [['"ñ"'], ['"€"', '"😀"'], ['"ñ€"']]),
    ("multibyte_prefix", [['"ñ€"'], ['"ñ"'], ['"€x"']]),
    ("concat", [[("concat", ['"a"', '"b"'])], [("concat", ['"ñ"', 'r"\\"', '"\\n"'])], ['"a"']]),
    ("concat_empty", [[("concat", [])], ['"a"']]),
    ("mixed", [['"\\u{F1}a"', 'r"ña"'], ['"\\x61\\x62"'], ['"b\\tc"']]),
    ("three_way", [['"aa"'], ['"a"'], ['"aab"']]),
]

SETS = [(t[0], t[1], (t[2] if len(t) > 2 else [])) for t in SETS]
EXTRA_UNITS = {sid: extra for sid, _, extra in SETS}

FORMS_MATCH = ["strip_prefix", "strip_suffix", "find_skip", "rfind_skip"]
FORMS_TRIM = ["trim_start_matches", "trim_end_matches"]


def hexs(b):
    return b.hex() if b else "-"


def alt_src(alt):
    if isinstance(alt, tuple):
        return "concat!(" + ", ".join(alt[1]) + ")"
    return alt


def alt_req(alt):
    if isinstance(alt, tuple):
        return "C" + ";".join(hexs(x.encode()) for x in alt[1])
    return "L" + hexs(alt.encode())


def rust_str(text):
    """a Rust string literal denoting `text` (only `\\` and `"` need escaping here)"""
    return '"' + text.replace("\\", "\\\\").replace('"', '\\"') + '"'


def program(set_id, branches, tier, style="expr", extra_units=()):
    flat = [(bi, alt) for bi, br in enumerate(branches) for alt in br]
    # rust: table of (branch, src descriptor, literal as &str)
    lits = ",\n        ".join(f'({bi}usize, "{alt_req(alt)}", {alt_src(alt)})' for bi, alt in flat)
    def arms_in_style(style):
        # the macro accepts `pats => expr,` and `pats => { block }` (with or without a trailing comma);
        # whatever the syntax, branches must be tried in the order listed
        out = []
        for bi, br in enumerate(branches):
            pats_ = ' | '.join(alt_src(a) for a in br)
            if style == "expr":
                out.append(f"            {pats_} => {bi}usize,")
            elif style == "block":
                out.append(f"            {pats_} => {{ {bi}usize }}")
            else:   # mixed: alternate, starting with an expression branch
                out.append(f"            {pats_} => {bi}usize," if bi % 2 == 0 else f"            {pats_} => {{ {bi}usize }}")
        return "\n".join(out)
    match_arms = arms_in_style(style)
    pats = " | ".join(alt_src(alt) for _, alt in flat)
    maxu = 3 if tier == "quick" else 4
    src = r'''
#![allow(unused)]
use konst::{Parser, parser_method};
fn hex(b: &[u8]) -> String { if b.is_empty() { return "-".into(); } b.iter().map(|x| format!("{:02x}", x)).collect() }
const LITS: &[(usize, &str, &str)] = &[
        __LITS__
];
fn arms() -> String { LITS.iter().map(|(b, s, l)| format!("{}:{}:{}", b, s, hex(l.as_bytes()))).collect::<Vec<_>>().join(",") }
fn arms_trim() -> String { LITS.iter().map(|(_, s, l)| format!("0:{}:{}", s, hex(l.as_bytes()))).collect::<Vec<_>>().join(",") }
fn show(br: Option<usize>, p: Parser<'_>) -> String {
    format!("{}|{}|{}|{}", match br { Some(b) => b.to_string(), None => "d".to_string() }, p.start_offset(), p.end_offset(), hex(p.remainder().as_bytes()))
}
fn k_strip_prefix(mut p: Parser<'_>) -> String { let b = parser_method!{p, strip_prefix;
__ARMS__
            _ => 99usize }; show(if b == 99 { None } else { Some(b) }, p) }
fn k_strip_suffix(mut p: Parser<'_>) -> String { let b = parser_method!{p, strip_suffix;
__ARMS__
            _ => 99usize }; show(if b == 99 { None } else { Some(b) }, p) }
fn k_find_skip(mut p: Parser<'_>) -> String { let b = parser_method!{p, find_skip;
__ARMS__
            _ => 99usize }; show(if b == 99 { None } else { Some(b) }, p) }
fn k_rfind_skip(mut p: Parser<'_>) -> String { let b = parser_method!{p, rfind_skip;
__ARMS__
            _ => 99usize }; show(if b == 99 { None } else { Some(b) }, p) }
fn k_trim_start_matches(mut p: Parser<'_>) -> String { parser_method!{p, trim_start_matches; __PATS__ }; show(Some(0), p) }
fn k_trim_end_matches(mut p: Parser<'_>) -> String { parser_method!{p, trim_end_matches; __PATS__ }; show(Some(0), p) }

// the equivalent chain of Parser method calls with the same literals
fn o_strip_prefix(p: Parser<'_>) -> String {
    for (b, _, l) in LITS { if let Ok(q) = p.strip_prefix(*l) { return show(Some(*b), q); } }
    show(None, p)
}
fn o_strip_suffix(p: Parser<'_>) -> String {
    for (b, _, l) in LITS { if let Ok(q) = p.strip_suffix(*l) { return show(Some(*b), q); } }
    show(None, p)
}
fn o_find_skip(p: Parser<'_>) -> String {
    // earliest position at which any alternative matches, among those the first listed
    let rem = p.remainder();
    let mut best: Option<(usize, usize)> = None;
    for (i, (_, _, l)) in LITS.iter().enumerate() {
        if let Some(pos) = rem.find(l) { if best.map_or(true, |(bp, _)| pos < bp) { best = Some((pos, i)); } }
    }
    match best { Some((_, i)) => show(Some(LITS[i].0), p.find_skip(LITS[i].2).unwrap()), None => show(None, p) }
}
fn o_rfind_skip(p: Parser<'_>) -> String {
    // latest END position at which any alternative matches, among those the first listed
    let rem = p.remainder();
    let mut best: Option<(usize, usize)> = None;
    for (i, (_, _, l)) in LITS.iter().enumerate() {
        if let Some(pos) = rem.rfind(l) { let e = pos + l.len(); if best.map_or(true, |(be, _)| e > be) { best = Some((e, i)); } }
    }
    match best { Some((_, i)) => show(Some(LITS[i].0), p.rfind_skip(LITS[i].2).unwrap()), None => show(None, p) }
}
fn o_trim_start_matches(mut p: Parser<'_>) -> String {
    // repeatedly remove the first listed alternative that matches until none (or an empty literal) does
    'outer: loop {
        for (_, _, l) in LITS { if let Ok(q) = p.strip_prefix(*l) { if l.is_empty() { break 'outer; } p = q; continue 'outer; } }
        break;
    }
    show(Some(0), p)
}
fn o_trim_end_matches(mut p: Parser<'_>) -> String {
    'outer: loop {
        for (_, _, l) in LITS { if let Ok(q) = p.strip_suffix(*l) { if l.is_empty() { break 'outer; } p = q; continue 'outer; } }
        break;
    }
    show(Some(0), p)
}
fn main() {
    // input alphabet: the literals themselves, a filler and a multi-byte filler
    let mut units: Vec<String> = LITS.iter().map(|x| x.2.to_string()).filter(|s| !s.is_empty()).collect();
    units.push("x".into()); units.push("ñ".into());__EXTRA__
    units.sort(); units.dedup();
    let mut inputs: Vec<String> = vec![String::new()];
    let mut layer = vec![String::new()];
    for _ in 0..__MAXU__ { let mut next = vec![]; for w in &layer { for u in &units { next.push(format!("{}{}", w, u)); } } inputs.extend(next.iter().cloned()); layer = next; }
    inputs.sort(); inputs.dedup();
    for inp in &inputs { for base in [0usize, 7] {
        let mk = || if base == 0 { Parser::new(inp) } else { Parser::with_start_offset(inp, base) };
        let h = hex(inp.as_bytes());
        println!("pm strip_prefix {} {} {}\t{}\t{}\tin", base, h, arms(), k_strip_prefix(mk()), o_strip_prefix(mk()));
        println!("pm strip_suffix {} {} {}\t{}\t{}\tin", base, h, arms(), k_strip_suffix(mk()), o_strip_suffix(mk()));
        println!("pm find_skip {} {} {}\t{}\t{}\tin", base, h, arms(), k_find_skip(mk()), o_find_skip(mk()));
        println!("pm rfind_skip {} {} {}\t{}\t{}\tin", base, h, arms(), k_rfind_skip(mk()), o_rfind_skip(mk()));
        println!("pm trim_start_matches {} {} {}\t{}\t{}\tin", base, h, arms_trim(), k_trim_start_matches(mk()), o_trim_start_matches(mk()));
        println!("pm trim_end_matches {} {} {}\t{}\t{}\tin", base, h, arms_trim(), k_trim_end_matches(mk()), o_trim_end_matches(mk()));
    } }
}
'''
    return (src.replace("__LITS__", lits).replace("__ARMS__", match_arms).replace("__PATS__", pats)
            .replace("__MAXU__", str(maxu))
            .replace("__EXTRA__", "".join(f" units.push({rust_str(u)}.into());" for u in extra_units)))


def generate(ctx):
    tier = ctx["tier"]
    d = common.workdir("C18")
    jobs = []
    SETS_ALL = [(sid, branches) for sid, branches, _ in SETS]
    # the same sets again with block-bodied / mixed branch syntax where there are overlapping alternatives
    for sid, branches, _ in SETS:
        if sid in ("overlap_long_first", "overlap_short_first", "three_way", "multibyte_prefix", "empty_lit"):
            SETS_ALL.append((sid + "@block", branches))
            SETS_ALL.append((sid + "@mixed", branches))
    for sid, branches in SETS_ALL:
        p = os.path.join(d, f"{sid.replace('@', '_')}.rs")
        style = sid.split("@")[1] if "@" in sid else "expr"
        open(p, "w").write(program(sid, branches, tier, style, EXTRA_UNITS[sid.split("@")[0]]))
        jobs.append((p, os.path.join(d, sid.replace('@', '_')), "link"))
    res = common.compile_many(jobs)
    tsv = os.path.join(d, "c18.tsv")
    nprog = 0
    with open(tsv, "w") as out:
        for (sid, branches), (rc, err), j in zip(SETS_ALL, res, jobs):
            flat = [(bi, alt) for bi, br in enumerate(branches) for alt in br]
            arms = ",".join(f"{bi}:{alt_req(alt)}:?" for bi, alt in flat)
            if rc != 0:
                # the macro (or rustc) refuses the literal set: the model must agree that some literal is rejected
                out.write(f"pm.compile {sid} {arms}\treject\t?\tin\n")
                ctx["extra"].setdefault("rejected_sets", []).append({"set": sid, "stderr": err[:600]})
                continue
            out.write(f"pm.compile {sid} {arms}\taccept\t?\tin\n")
            rc2, so, se = common.run_bin(j[1], timeout=600)
            if rc2 != 0:
                raise RuntimeError(f"{j[1]} exited {rc2}: {se[:1500]}")
            out.write(so)
            nprog += 1
    ctx["extra"]["programs"] = nprog
    ctx["extra"]["literal_sets"] = [s for s, _ in SETS_ALL]
    return tsv
