"""
C11 generated programs, part 2: the array macros (`array::map!`, `map_!`, `from_fn!`, `from_fn_!`,
`iter::collect_const!`) as EXPRESSIONS of a program.

 (a) `arr.ev.*`   ARGUMENT EVALUATION.  The array argument is an expression with a side effect (`next_arr(&mut c)`:
     a call that advances a cursor, shape `se`; `{ na += 1; .. s[na - 1] }`: a block with a counter, `sb`; the same
     call inside an `if` / `match` expression, `ife` / `mtch`), the closure argument is a closure literal in every
     accepted syntax, a function path, or an EXPRESSION that yields a function (`next_fn(&mut fc)`, a block) and
     has a side effect itself.  Observed: value | number of evaluations of the array expression (A) and of the
     function expression (F) | the order of all events, closure calls included (`<call number>:<argument>`).
     A function expression yields `x -> 2x+1+K` (`i -> 3i+2+K`), K = number of argument evaluations that happened
     before it, so that the ORDER of the evaluations is visible in the value too.
     Oracle: the same argument expressions handed to `<[T; N]>::map` / `core::array::from_fn`.
 (b) `arr.at.*`   POSITIONS: the macro's value indexed / summed / fed to a second invocation, nested in the closure
     of another invocation, inside a closure, inside the caller's loop, inside `const fn`s of another return type,
     as `const` / `static` initialisers, with `if` / `match` / block expressions as arguments and as closure bodies.
 (c) `arr.compile` / `arr.hy.*`   NAME HYGIENE (binders are mangled since /repo c6bef38; the former plain names are regression rows): a caller variable / closure parameter / function / constant /
     static / unit struct / type alias / module whose NAME is an identifier the expansion declares or binds (all of
     them, collected from the macro sources), mentioned in the argument expressions.  `arr.compile`: does rustc
     accept the invocation (the std program with the same items always compiles); `arr.hy`: its value.
 (d) `arr.meth.*`  METHOD HYGIENE: a caller TRAIT in scope whose method has the name of a method the expansion
     calls with method syntax (`$array.len()`, `consumer.next()`, `builder.push(..)`, ..).

 (e) `arr.pat.*` / `arr.safe.pat.*`  PARAMETER PATTERNS with a binding mode: the closure parameter is pasted as the pattern of
     a `let` of the expansion, so `ref` / `ref mut` / `mut` bind to whatever PLACE stands on the right of that `let`.
     Observed: `<value>|calls=<k>` (the array is read only when the closure was called N times — fewer calls mean unwritten
     slots: `UNWRITTEN|calls=<k>`) or `reject`; oracle: std with the same closure. `arr.safe.pat`: an array handed back
     has all N elements written and equals std's (`ok`), whatever rustc says about the form.

One *unit* = one call site.  Units are compiled together in chunks (in parallel); a chunk that does not compile has
its units compiled one by one (`--emit=metadata`), the rejected ones answer `reject`, the chunk is rebuilt.  Units
the generator expects rustc to reject are judged on their own from the start (the verdict that is compared comes
from rustc and from the Lean model, never from this expectation).

Request grammar: see lean/Driver/C11x.lean.
"""
import os
from vlib import core
from vlib.progs import common

PRELUDE = r'''
#![allow(warnings)]
use std::cell::{Cell, RefCell};
use std::panic::{catch_unwind, AssertUnwindSafe};
use konst::array::{from_fn, from_fn_, map, map_};
use konst::iter::collect_const;

thread_local! {
    pub static LOG: RefCell<Vec<String>> = RefCell::new(Vec::new());
    pub static CLOCK: Cell<u64> = Cell::new(0);    // evaluations of argument expressions so far
    pub static CALLS: Cell<u64> = Cell::new(0);    // closure calls so far
}
/// one evaluation of an argument expression; returns the number of EARLIER argument evaluations
pub fn ev(tag: &str) -> u64 {
    LOG.with(|l| l.borrow_mut().push(tag.to_string()));
    CLOCK.with(|c| { let t = c.get(); c.set(t + 1); t })
}
/// one closure call: logs `<call number>:<argument>`
pub fn hit(e: u64) {
    let k = CALLS.with(|c| { let k = c.get(); c.set(k + 1); k });
    LOG.with(|l| l.borrow_mut().push(format!("{}:{}", k, e)));
}
pub fn calls() -> usize { CALLS.with(|c| c.get()) as usize }
/// a cursor over the arrays that successive evaluations of the array expression produce (the last is repeated)
pub struct Cur<'a, const NN: usize> { pub arrs: &'a [[u64; NN]], pub pos: usize }
pub fn next_arr<const NN: usize>(c: &mut Cur<NN>) -> [u64; NN] {
    ev("A");
    let i = c.pos.min(c.arrs.len() - 1);
    c.pos += 1;
    c.arrs[i]
}
pub fn dbl(x: u64) -> u64 { hit(x); 2 * x + 1 }
pub fn dbl1(x: u64) -> u64 { hit(x); 2 * x + 2 }
pub fn dbl2(x: u64) -> u64 { hit(x); 2 * x + 3 }
pub fn dblg<T: Into<u64>>(x: T) -> u64 { let x: u64 = x.into(); hit(x); 2 * x + 1 }
/// an argument expression that yields a function and has a side effect
pub fn next_fn(fc: &mut u32) -> fn(u64) -> u64 { *fc += 1; let t = ev("F"); [dbl, dbl1, dbl2][t.min(2) as usize] }
pub fn tri(i: usize) -> u64 { hit(i as u64); 3 * i as u64 + 2 }
pub fn tri1(i: usize) -> u64 { hit(i as u64); 3 * i as u64 + 3 }
pub fn tri2(i: usize) -> u64 { hit(i as u64); 3 * i as u64 + 4 }
pub fn trig<T: From<u8>>(i: usize) -> u64 { hit(i as u64); 3 * i as u64 + 2 }
pub fn next_ffn(fc: &mut u32) -> fn(usize) -> u64 { *fc += 1; let t = ev("F"); [tri, tri1, tri2][t.min(2) as usize] }
pub mod fns { pub fn dbl(x: u64) -> u64 { super::dbl(x) } pub fn tri(i: usize) -> u64 { super::tri(i) } }
pub struct NC(pub u64);
pub fn pairs<const NN: usize>(a: [u64; NN]) -> [(u64, u64); NN] { a.map(|x| (x, x + 100)) }
pub fn ncs<const NN: usize>(a: [u64; NN]) -> [NC; NN] { a.map(NC) }
pub const fn cdbl(x: u64) -> u64 { 2 * x + 1 }
pub const fn ctri(i: usize) -> u64 { 3 * i as u64 + 2 }

pub fn sh(a: &[u64]) -> String { format!("[{}]", a.iter().map(|x| x.to_string()).collect::<Vec<_>>().join(";")) }
/// an array of which only the first `written` slots are looked at (the others are shown as `U`)
pub fn sh_written(a: &[u64], written: usize) -> String {
    format!("[{}]", (0..a.len()).map(|j| if j < written { a[j].to_string() } else { "U".to_string() }).collect::<Vec<_>>().join(";"))
}
fn reset() { LOG.with(|l| l.borrow_mut().clear()); CLOCK.with(|c| c.set(0)); CALLS.with(|c| c.set(0)); }
/// value | evaluations of the array / function argument expression | all events in order
pub fn observed(f: impl FnOnce() -> String) -> String {
    reset();
    let r = match catch_unwind(AssertUnwindSafe(f)) { Ok(s) => s, Err(_) => "panic".to_string() };
    let log = LOG.with(|l| std::mem::take(&mut *l.borrow_mut()));
    let na = log.iter().filter(|e| *e == "A").count();
    let nf = log.iter().filter(|e| *e == "F").count();
    format!("{}|A={},F={}|{}", r, na, nf, if log.is_empty() { "-".to_string() } else { log.join(";") })
}
pub fn guarded(f: impl FnOnce() -> String) -> String {
    reset();
    match catch_unwind(AssertUnwindSafe(f)) { Ok(s) => s, Err(_) => "panic".to_string() }
}
/// value | closure calls (a run that panics shows `panic`)
pub fn guarded_calls(f: impl FnOnce() -> String) -> String {
    reset();
    let r = match catch_unwind(AssertUnwindSafe(f)) { Ok(s) => s, Err(_) => "panic".to_string() };
    format!("{}|calls={}", r, calls())
}
pub fn sh_stream<const NN: usize>(s: &[[u64; NN]]) -> String { s.iter().map(|a| sh(a)).collect::<Vec<_>>().join("/") }
'''

MACS = ["map", "map_", "from_fn", "from_fn_"]
LENGTHS = [0, 1, 2, 3]


class Unit:
    """kind: stream (fn<NN>(s: &[[u64; NN]])), arr (fn<NN>(a: [u64; NN])), fixed (fn()), each -> String.
    `decls`: items placed in front of the body in both functions; `expect`: does the generator expect rustc to
    accept the implementation side"""

    def __init__(self, uid, req, kind, impl_body, oracle_body, lengths=None, scope=True, expect=True,
                 compile_req=None, show="guarded", rows=True, regress=False):
        self.uid, self.req, self.kind = uid, req, kind
        self.impl_body, self.oracle_body = impl_body, oracle_body
        self.lengths = LENGTHS if lengths is None else lengths
        self.scope, self.expect, self.compile_req, self.show, self.rows = scope, expect, compile_req, show, rows
        self.regress = regress      # a call site on which a repaired finding (F11a/b/c) showed: compiled and run FIRST
        self.rejected = False
        self.stderr = ""

    def sig(self):
        if self.kind == "stream":
            return "<const NN: usize>(s: &[[u64; NN]])"
        if self.kind == "arr":
            return "<const NN: usize>(a: [u64; NN])"
        return "()"

    def impl_fn(self, stub=False):
        body = '"reject".to_string()' if stub else self.impl_body
        return f"pub fn impl_{self.uid}{self.sig()} -> String {{\n{body}\n}}\n"

    def oracle_fn(self):
        return f"pub fn oracle_{self.uid}{self.sig()} -> String {{\n{self.oracle_body}\n}}\n"


# ---------------------------------------------------------------------------------------------
# (a) argument evaluation
# ---------------------------------------------------------------------------------------------

# array-argument shapes: expression text over the cursor `c` / the counter `na` / the stream `s`
ASHAPES = {
    "se": "next_arr(&mut c)",
    "sb": "{ na += 1; ev(\"A\"); s[(na - 1).min(s.len() - 1)] }",
    "ife": "if s.len() > 0 { next_arr(&mut c) } else { unreachable!() }",
    "mtch": "match s.len() { 0 => unreachable!(), _ => next_arr(&mut c) }",
}
# closure shapes for map!/map_!: name -> (wrapper of the array expression, closure argument text, std closure text or
# None = the same text, has a function EXPRESSION, only for these macros)
MAP_CSHAPES = {
    "cl": ("{A}", "|x| { hit(x); 2 * x + 1 }", None, False, None),
    "clexpr": ("{A}", "|x| dbl(x)", None, False, None),
    "clty": ("{A}", "|x: u64| { hit(x); 2 * x + 1 }", None, False, None),
    "clret": ("{A}", "|x| -> u64 { hit(x); 2 * x + 1 }", None, False, None),
    "cltyret": ("{A}", "|x: u64| -> u64 { hit(x); 2 * x + 1 }", None, False, None),
    "clmut": ("{A}", "|mut x| { hit(x); x *= 2; x + 1 }", None, False, None),
    "cltrail": ("{A}", "|x,| { hit(x); 2 * x + 1 },", "|x| { hit(x); 2 * x + 1 }", False, None),
    "clif": ("{A}", "|x| if x % 2 == 0 { hit(x); 2 * x + 1 } else { dbl(x) }", None, False, None),
    "clmatch": ("{A}", "|x| match x { 10 => { hit(x); 21 } v => dbl(v) }", None, False, None),
    "pat2": ("pairs({A})", "|(x, y)| { hit(x); 2 * x + 1 + (y - x - 100) }", None, False, None),
    "pat2ty": ("pairs({A})", "|(x, y): (u64, u64)| -> u64 { hit(x); 2 * x + 1 + (y - x - 100) }", None, False, None),
    "ncref": ("ncs({A})", "|ref e| { hit(e.0); 2 * e.0 + 1 }", None, False, None),
    "ncpat": ("ncs({A})", "|NC(x)| { hit(x); 2 * x + 1 }", None, False, None),
    "ncval": ("ncs({A})", "|e: NC| { let NC(x) = e; hit(x); 2 * x + 1 }", None, False, ("map_",)),
    "fnpath": ("{A}", "dbl", None, False, None),
    "fnmod": ("{A}", "crate::fns::dbl", None, False, None),
    "fngen": ("{A}", "dblg::<u64>", None, False, None),
    "fnexpr": ("{A}", "next_fn(&mut fc)", None, True, None),
    "fnblock": ("{A}", "{ fc += 1; let t = ev(\"F\"); [dbl, dbl1, dbl2][t.min(2) as usize] }", None, True, None),
    "clvar": ("{A}", "f", None, False, None),
    "move": ("{A}", "move |x| { hit(x); 2 * x + 1 + k0 }", None, False, None),
}
FF_CSHAPES = {
    "cl": ("|i| { hit(i as u64); 3 * i as u64 + 2 }", None, False),
    "clexpr": ("|i| tri(i)", None, False),
    "clty": ("|i: usize| { hit(i as u64); 3 * i as u64 + 2 }", None, False),
    "clret": ("|i| -> u64 { hit(i as u64); 3 * i as u64 + 2 }", None, False),
    "cltyret": ("|i: usize| -> u64 { hit(i as u64); 3 * i as u64 + 2 }", None, False),
    "clmut": ("|mut i| { hit(i as u64); i *= 3; i as u64 + 2 }", None, False),
    "cltrail": ("|i,| { hit(i as u64); 3 * i as u64 + 2 },", "|i| { hit(i as u64); 3 * i as u64 + 2 }", False),
    "clmatch": ("|i| match i { 0 => { hit(0); 2 } v => tri(v) }", None, False),
    "fnpath": ("tri", None, False),
    "fnmod": ("crate::fns::tri", None, False),
    "fngen": ("trig::<u8>", None, False),
    "fnexpr": ("next_ffn(&mut fc)", None, True),
    "fnblock": ("{ fc += 1; let t = ev(\"F\"); [tri, tri1, tri2][t.min(2) as usize] }", None, True),
    "clvar": ("f", None, False),
    "move": ("move |i| { hit(i as u64); 3 * i as u64 + 2 + k0 }", None, False),
}
# annotation forms of from_fn!/from_fn_!: (text in front of the closure, needs a `let` type)
FF_ANN = {"none": "", "ty": "[u64; NN] => ", "infer": "[_; NN] => ", "under": "_ => ", "paren": "([u64; NN]) => "}


def eval_units(tier):
    units = []
    n = 0
    for mac in ("map", "map_"):
        for ash, atext in ASHAPES.items():
            for csh, (wrap, cl, stdcl, hasfn, only) in MAP_CSHAPES.items():
                if only and mac not in only:
                    continue
                if ash in ("ife", "mtch") and csh not in ("cl", "fnpath", "fnexpr", "ncref"):
                    continue
                n += 1
                setup = ("    let mut c = Cur { arrs: s, pos: 0 }; let mut na = 0usize; let mut fc = 0u32; let k0 = 0u64;\n"
                         "    let f = |x: u64| { hit(x); 2 * x + 1 };\n")
                arr = wrap.format(A=atext)
                units.append(Unit(f"e{n}", f"arr.ev.{mac}.{ash}.{csh}", "stream",
                                  setup + f"    let r: [u64; NN] = {mac}!({arr}, {cl}); sh(&r)",
                                  setup + f"    let r: [u64; NN] = ({arr}).map({stdcl or cl}); sh(&r)",
                                  show="observed", regress=(mac == "map_" and hasfn)))
    for mac in ("from_fn", "from_fn_"):
        for ann, atext in FF_ANN.items():
            for csh, (cl, stdcl, hasfn) in FF_CSHAPES.items():
                if ann not in ("none", "ty") and csh not in ("cl", "clret", "fnpath", "fnexpr"):
                    continue
                n += 1
                setup = ("    let mut fc = 0u32; let k0 = 0u64;\n"
                         "    let f = |i: usize| { hit(i as u64); 3 * i as u64 + 2 };\n")
                units.append(Unit(f"e{n}", f"arr.ev.{mac}.{ann}.{csh}", "arr",
                                  setup + f"    let r: [u64; NN] = {mac}!({atext}{cl}); sh(&r)",
                                  setup + f"    let r: [u64; NN] = core::array::from_fn({stdcl or cl}); sh(&r)",
                                  show="observed"))
    return units


def streams(n):
    """streams of 1..3 arrays of length n"""
    a = [10 + j for j in range(n)]
    b = [20 + 2 * j for j in range(n)]
    c = [7] * n
    return [[a], [a, b], [c, a, b]]


# ---------------------------------------------------------------------------------------------
# (b) positions
# ---------------------------------------------------------------------------------------------

def position_units(tier):
    units = []
    n = 0

    def add(req, kind, imp, ora, lengths=None, **kw):
        nonlocal n
        n += 1
        units.append(Unit(f"p{n}", req, kind, "    " + imp, "    " + ora, lengths=lengths, **kw))

    for mac in ("map", "map_"):
        m = lambda arr, body="2 * x + 1", p="x": f"{mac}!({arr}, |{p}| {body})"
        s = lambda arr, body="2 * x + 1", p="x": f"({arr}).map(|{p}| {body})"
        for name, tmpl, lens in [
            ("idx", "{M}[NN - 1].to_string()", [1, 2, 3]),
            ("sum", "{M}.iter().sum::<u64>().to_string()", None),
            ("len", "{M}.len().to_string()", None),
            ("eq", "let b = {M} == a; b.to_string()", None),
            ("arg", "sh(&core::convert::identity({M}))", None),
            ("ref", "sh(&{M}[..])", None),
            ("tuple", "let t = ({M}, 5u8); sh(&t.0)", None),
            ("closure", "let pos = |a: [u64; NN]| -> String {{ sh(&{M}) }}; pos(a)", None),
            ("loop", "let mut acc = 0u64; let mut k = 0; while k < 3 {{ k += 1; let r = {M}; if r.len() > 1 {{ acc += r[1]; continue; }} acc += 1; }} acc.to_string()", None),
            ("constfn", "const fn pos<const NN: usize>(a: [u64; NN]) -> u64 {{ let r = {M}; let mut t = 0; let mut k = 0; while k < NN {{ t += r[k]; k += 1; }} t }} pos(a).to_string()", None),
        ]:
            add(f"arr.at.{name}.{mac}", "arr", tmpl.format(M=m("a")), tmpl.format(M=s("a")).replace("const fn pos", "fn pos"), lengths=lens)
        # two invocations; nested as the array argument
        add(f"arr.at.let2.{mac}", "arr", f"let p = {m('a')}; let q = {m('p')}; sh(&q)", f"let p = {s('a')}; let q = {s('p')}; sh(&q)")
        add(f"arr.at.nestarg.{mac}", "arr", f"sh(&{m(m('a'))})", f"sh(&{s(s('a'))})")
        # nested in the closure of another invocation (each of the four macros inside)
        for inner in MACS:
            if inner in ("map", "map_"):
                ib, sb_ = f"{inner}!([x, x + 1], |y| 2 * y + 1)[1]", "[x, x + 1].map(|y| 2 * y + 1)[1]"
            else:
                ib, sb_ = f"{inner}!([u64; 2] => |j| x + 3 * j as u64)[1]", "core::array::from_fn::<u64, 2, _>(|j| x + 3 * j as u64)[1]"
            add(f"arr.at.nestcl.{inner}.{mac}", "arr", f"sh(&{m('a', ib)})", f"sh(&{s('a', sb_)})")
        # block / if / match expressions as the array argument
        add(f"arr.at.blockarg.{mac}", "arr", f"sh(&{m('{ let t = a; t }')})", f"sh(&{s('{ let t = a; t }')})")
        add(f"arr.at.ifarg.{mac}", "arr", f"sh(&{m('if NN > 1 { a } else { [4; NN] }')})", f"sh(&{s('if NN > 1 { a } else { [4; NN] }')})")
        add(f"arr.at.matcharg.{mac}", "arr", f"sh(&{m('match NN { 2 => [5; NN], _ => a }')})", f"sh(&{s('match NN { 2 => [5; NN], _ => a }')})")
        add(f"arr.at.trail.{mac}", "arr", f"sh(&{mac}!(a, |x| 2 * x + 1,))", f"sh(&{s('a')})")
        # function path / const fn path
        add(f"arr.at.fnpath.{mac}", "arr", f"sh(&{mac}!(a, cdbl))", "sh(&a.map(cdbl))")
    for mac in ("from_fn", "from_fn_"):
        f = lambda ann="[u64; NN] => ", body="3 * i as u64 + 2": f"{mac}!({ann}|i| {body})"
        s = lambda body="3 * i as u64 + 2", nn="NN": f"core::array::from_fn::<u64, {nn}, _>(|i| {body})"
        for name, tmpl, lens in [
            ("idx", "{M}[NN - 1].to_string()", [1, 2, 3]),
            ("sum", "{M}.iter().sum::<u64>().to_string()", None),
            ("len", "{M}.len().to_string()", None),
            ("arg", "sh(&core::convert::identity::<[u64; NN]>({M}))", None),
            ("tuple", "let t = ({M}, 5u8); sh(&t.0)", None),
            ("closure", "let pos = || -> String {{ sh(&{M}) }}; pos()", None),
            ("loop", "let mut acc = 0u64; let mut k = 0; while k < 3 {{ k += 1; let r = {M}; if r.len() > 1 {{ acc += r[1]; continue; }} acc += 1; }} acc.to_string()", None),
            ("constfn", "const fn pos<const NN: usize>() -> u64 {{ let r = {M}; let mut t = 0; let mut k = 0; while k < NN {{ t += r[k]; k += 1; }} t }} pos::<NN>().to_string()", None),
        ]:
            add(f"arr.at.{name}.{mac}", "arr", tmpl.format(M=f()), tmpl.format(M=s()).replace("const fn pos", "fn pos"), lengths=lens)
        # the length inferred from the use
        add(f"arr.at.inferlet.{mac}", "arr", f"let r: [u64; NN] = {f('')}; sh(&r)", f"let r: [u64; NN] = {s()}; sh(&r)")
        add(f"arr.at.inferarg.{mac}", "arr", f"fn take<const K: usize>(r: [u64; K]) -> String {{ sh(&r) }} take::<NN>({f('')})",
            f"fn take<const K: usize>(r: [u64; K]) -> String {{ sh(&r) }} take::<NN>({s()})")
        add(f"arr.at.infereq.{mac}", "arr", f"let b = {f('')} == a; b.to_string()", "let b = core::array::from_fn(|i| 3 * i as u64 + 2) == a; b.to_string()")
        add(f"arr.at.trail.{mac}", "arr", f"sh(&{mac}!([u64; NN] => |i| 3 * i as u64 + 2,))", f"sh(&{s()})")
        add(f"arr.at.fnpath.{mac}", "arr", f"sh(&{mac}!([u64; NN] => ctri))", "sh(&core::array::from_fn::<u64, NN, _>(ctri))")
        add(f"arr.at.fnpathinfer.{mac}", "arr", f"let r: [u64; NN] = {mac}!(ctri); sh(&r)", "sh(&core::array::from_fn::<u64, NN, _>(ctri))")
        # the closure body contains `=>` (a match) with and without a type annotation
        mb = "match i { 0 => 2, v => 3 * v as u64 + 2 }"
        add(f"arr.at.matchbody.{mac}", "arr", f"sh(&{f(body=mb)})", f"sh(&{s(mb)})")
        add(f"arr.at.matchbodyinfer.{mac}", "arr", f"let r: [u64; NN] = {f('', mb)}; sh(&r)", f"sh(&{s(mb)})")
        # nested in the closure of another invocation
        for inner in MACS:
            if inner in ("map", "map_"):
                ib, sb_ = f"{inner}!([i as u64, 9], |y| 3 * y + 2)[0]", "[i as u64, 9].map(|y| 3 * y + 2)[0]"
            else:
                ib, sb_ = f"{inner}!([u64; 2] => |j| 3 * (i + j) as u64 + 2)[0]", "core::array::from_fn::<u64, 2, _>(|j| 3 * (i + j) as u64 + 2)[0]"
            add(f"arr.at.nestcl.{inner}.{mac}", "arr", f"sh(&{f(body=ib)})", f"sh(&{s(sb_)})")
    # const / static initialisers, inside a const fn of another type (no generics involved)
    for k in (0, 1, 3):
        lit = "[" + ", ".join(str(10 + j) + "u64" for j in range(k)) + "]" if k else "[0u64; 0]"
        for mac in ("map", "map_"):
            for item in ("const", "static"):
                add(f"arr.at.{item}.{mac}", "fixed",
                    f"{item} C: [u64; {k}] = {mac}!({lit}, |x| 2 * x + 1); {item} L: usize = {mac}!({lit}, |x| 2 * x + 1).len(); format!(\"{{}}|{{}}\", sh(&C), L)",
                    f"let c: [u64; {k}] = {lit}.map(|x| 2 * x + 1); format!(\"{{}}|{{}}\", sh(&c), c.len())", lengths=[k])
        for mac in ("from_fn", "from_fn_"):
            for item in ("const", "static"):
                add(f"arr.at.{item}.{mac}", "fixed",
                    f"{item} C: [u64; {k}] = {mac}!(|i| 3 * i as u64 + 2); {item} L: usize = {mac}!([u64; {k}] => |i| 3 * i as u64 + 2).len(); format!(\"{{}}|{{}}\", sh(&C), L)",
                    f"let c: [u64; {k}] = core::array::from_fn(|i| 3 * i as u64 + 2); format!(\"{{}}|{{}}\", sh(&c), c.len())", lengths=[k])
    # collect_const! positions
    CC = "collect_const!(u64 => &[10u64, 11, 12], copied(), map(|x| 2 * x + 1))"
    SV = "[10u64, 11, 12].iter().copied().map(|x| 2 * x + 1).collect::<Vec<u64>>()"
    for name, imp, ora in [
        ("let", f"let r = {CC}; sh(&r)", f"sh(&{SV})"),
        ("idx", f"{CC}[2].to_string()", f"{SV}[2].to_string()"),
        ("len", f"{CC}.len().to_string()", f"{SV}.len().to_string()"),
        ("sum", f"{CC}.iter().sum::<u64>().to_string()", f"{SV}.iter().sum::<u64>().to_string()"),
        ("const", f"const C: [u64; 3] = {CC}; sh(&C)", f"sh(&{SV})"),
        ("constslice", f"const C: &[u64] = &{CC}; sh(C)", f"sh(&{SV})"),
        ("static", f"static C: [u64; 3] = {CC}; sh(&C)", f"sh(&{SV})"),
        ("constfn", f"const fn pos() -> u64 {{ let r = {CC}; r[0] + r[2] }} pos().to_string()", f"let r = {SV}; (r[0] + r[2]).to_string()"),
        ("closure", f"let pos = || -> String {{ sh(&{CC}) }}; pos()", f"sh(&{SV})"),
        ("two", f"let p = {CC}; let q = collect_const!(u64 => 0..2u64); format!(\"{{}}{{}}\", sh(&p), sh(&q))", f"format!(\"{{}}{{}}\", sh(&{SV}), sh(&[0, 1]))"),
        ("trail", "sh(&collect_const!(u64 => &[10u64, 11, 12], copied(), map(|x| 2 * x + 1),))", f"sh(&{SV})"),
        ("nestcl", "sh(&collect_const!(u64 => 0..3usize, map(|i| collect_const!(u64 => &[10u64, 11, 12], copied())[i] * 2 + 1)))", f"sh(&{SV})"),
        ("inmap", "sh(&map!([0usize, 1, 2], |i| collect_const!(u64 => &[10u64, 11, 12], copied())[i] * 2 + 1))", f"sh(&{SV})"),
        ("mapin", "sh(&collect_const!(u64 => 0..3usize, map(|i| map!([10u64, 11, 12], |x| 2 * x + 1)[i])))", f"sh(&{SV})"),
        ("genericfn", f"fn pos<T>(_t: T) -> [u64; 3] {{ {CC} }} sh(&pos(1u8))", f"sh(&{SV})"),
    ]:
        add(f"arr.at.{name}.cc", "fixed", imp, ora, lengths=[3])
    # the source mentions a LOCAL VARIABLE of the caller: the iterator expression is pasted into a nested `const fn`,
    # so this cannot compile (documented: "collects an iterator CONSTANT"); out of the property's scope
    add("arr.at.localsrc.cc", "fixed", "let src = [10u64, 11, 12]; sh(&collect_const!(u64 => &src, copied(), map(|x| 2 * x + 1)))",
        f"sh(&{SV})", lengths=[3], scope=False, expect=False)
    add("arr.at.localcapt.cc", "fixed", "let k = 1u64; sh(&collect_const!(u64 => &[10u64, 11, 12], copied(), map(|x| 2 * x + k)))",
        f"sh(&{SV})", lengths=[3], scope=False, expect=False)
    return units


# ---------------------------------------------------------------------------------------------
# (c) name hygiene
# ---------------------------------------------------------------------------------------------

# every identifier pattern of the four expansions (konst_kernel/src/macros/array_macros.rs,
# konst/src/array/__array_macros_2.rs, konst_kernel/src/utils.rs __parse_closure_1); mangled since /repo c6bef38
BINDERS = {
    "map": ["__konst_am_array", "__konst_am_len", "__konst_am_out", "__konst_am_i"],
    "from_fn": ["__konst_am_input", "__konst_am_arr", "__konst_am_len", "__konst_am_out", "__konst_am_i"],
    "map_": ["__konst_am_array", "__konst_am_consumer", "__konst_am_builder", "__konst_am_elem", "__konst_am_mapped"],
    "from_fn_": ["__konst_am_i", "__konst_am_arr", "__konst_am_consumer", "__konst_am_builder", "__konst_am_elem",
                 "__konst_am_mapped"],
}
FN_ARM_BINDERS = ["__konst_pc_func", "__konst_pc_x"]   # bound only when the closure argument is not a closure literal
MANGLED = ["__konst_am_array", "__konst_am_len", "__konst_am_out", "__konst_am_i", "__konst_am_input", "__konst_am_arr",
           "__konst_am_consumer", "__konst_am_builder", "__konst_am_elem", "__konst_am_mapped", "__konst_pc_func",
           "__konst_pc_x"]
# the PLAIN names the expansions bound as found (finding F11c, repaired by c6bef38): a caller const / static / unit
# struct with one of them made the invocation fail to compile. Now ordinary names: every form must be accepted.
LEGACY_BINDERS = {
    "map": ["array", "len", "out", "i"],
    "from_fn": ["input", "arr", "len", "out", "i"],
    "map_": ["consumer", "builder", "elem", "mapped"],
    "from_fn_": ["i", "arr", "consumer", "builder", "elem", "mapped"],
}
LEGACY_FN_ARM_BINDERS = ["func", "__x"]
NAMES = ["array", "len", "out", "i", "input", "arr", "consumer", "builder", "elem", "mapped", "func", "__x"]
# controls: names the expansions mention but never declare or bind
CONTROLS = ["y", "T", "MaybeUninit", "assert_array"]
UNSHADOWABLE = ("const", "static", "ustruct")
# declaration forms tried with the mangled names (the others add nothing: variables, functions, types are never reserved)
MANGLED_FORMS = ("var/param", "fn/call", "const/use", "const/path", "const/len", "static/use", "ustruct/none")


def hyg_expect(mac, decl, use, name):
    binders = BINDERS[mac] + (FN_ARM_BINDERS if use == "path" else [])
    return not (decl in UNSHADOWABLE and name in binders)


def hyg_scope(mac, decl, use, name):
    """out of scope: only the names the library mangles on purpose (`__konst_am_*`, `__konst_pc_*`): an identifier
    pattern never shadows a caller const / static / unit struct (E0005 / E0530), which no macro_rules macro can avoid"""
    return name not in MANGLED


def hyg_regression(mac, decl, use, name):
    """call sites that did not compile before c6bef38 (F11c)"""
    return decl in UNSHADOWABLE and name in LEGACY_BINDERS[mac] + (LEGACY_FN_ARM_BINDERS if use == "path" else [])


def hygiene_units(tier):
    units = []
    n = 0
    names = NAMES + CONTROLS + MANGLED
    for mac in MACS:
        is_map = mac in ("map", "map_")
        for nm in names:
            forms = []
            if is_map:
                V, SV_ = "2 * x + 1", None
                inv = lambda arr, cl: f"{mac}!({arr}, {cl})"
                std = lambda arr, cl: f"({arr}).map({cl})"
                forms += [
                    ("var", "param", "", inv("a", f"|{nm}| 2 * {nm} + 1"), std("a", f"|{nm}| 2 * {nm} + 1")),
                    ("var", "capt", f"let {nm} = 7u64;", inv("a", f"|x| 2 * x + 1 + {nm} - 7"), std("a", f"|x| 2 * x + 1 + {nm} - 7")),
                    ("var", "arg", f"let {nm} = a;", inv(nm, "|x| 2 * x + 1"), std(nm, "|x| 2 * x + 1")),
                    ("var", "argparam", f"let {nm} = a;", inv(nm, f"|{nm}| 2 * {nm} + 1"), std(nm, f"|{nm}| 2 * {nm} + 1")),
                    ("fn", "call", f"fn {nm}(x: u64) -> u64 {{ 2 * x + 1 }}", inv("a", f"|x| {nm}(x)"), std("a", f"|x| {nm}(x)")),
                    ("fn", "path", f"fn {nm}(x: u64) -> u64 {{ 2 * x + 1 }}", inv("a", nm), std("a", nm)),
                    ("fn", "arg", f"fn {nm}<const K: usize>(a: [u64; K]) -> [u64; K] {{ a }}", inv(f"{nm}(a)", "|x| 2 * x + 1"), std(f"{nm}(a)", "|x| 2 * x + 1")),
                    ("const", "use", f"const {nm}: u64 = 7;", inv("a", f"|x| 2 * x + 1 + {nm} - 7"), std("a", f"|x| 2 * x + 1 + {nm} - 7")),
                    ("const", "path", f"const {nm}: fn(u64) -> u64 = cdbl;", inv("a", nm), std("a", nm)),
                    ("static", "use", f"static {nm}: u64 = 7;", inv("a", f"|x| 2 * x + 1 + {nm} - 7"), std("a", f"|x| 2 * x + 1 + {nm} - 7")),
                    ("ustruct", "none", f"struct {nm};", inv("a", "|x| 2 * x + 1"), std("a", "|x| 2 * x + 1")),
                    ("tyAlias", "ty", f"type {nm} = u64;", inv("a", f"|x: {nm}| -> {nm} {{ 2 * x + 1 }}"), std("a", f"|x: {nm}| -> {nm} {{ 2 * x + 1 }}")),
                    ("mod", "call", f"mod {nm} {{ pub fn f(x: u64) -> u64 {{ 2 * x + 1 }} }}", inv("a", f"|x| {nm}::f(x)"), std("a", f"|x| {nm}::f(x)")),
                ]
            else:
                inv = lambda cl, ann="": f"{mac}!({ann}{cl})"
                std = lambda cl: f"core::array::from_fn::<u64, NN, _>({cl})"
                forms += [
                    ("var", "param", "", inv(f"|{nm}| 3 * {nm} as u64 + 2"), std(f"|{nm}| 3 * {nm} as u64 + 2")),
                    ("var", "capt", f"let {nm} = 7u64;", inv(f"|k| 3 * k as u64 + 2 + {nm} - 7"), std(f"|k| 3 * k as u64 + 2 + {nm} - 7")),
                    ("fn", "call", f"fn {nm}(k: usize) -> u64 {{ 3 * k as u64 + 2 }}", inv(f"|k| {nm}(k)"), std(f"|k| {nm}(k)")),
                    ("fn", "path", f"fn {nm}(k: usize) -> u64 {{ 3 * k as u64 + 2 }}", inv(nm), std(nm)),
                    ("const", "use", f"const {nm}: u64 = 7;", inv(f"|k| 3 * k as u64 + 2 + {nm} - 7"), std(f"|k| 3 * k as u64 + 2 + {nm} - 7")),
                    ("const", "path", f"const {nm}: fn(usize) -> u64 = ctri;", inv(nm), std(nm)),
                    ("static", "use", f"static {nm}: u64 = 7;", inv(f"|k| 3 * k as u64 + 2 + {nm} - 7"), std(f"|k| 3 * k as u64 + 2 + {nm} - 7")),
                    ("ustruct", "none", f"struct {nm};", inv("|k| 3 * k as u64 + 2"), std("|k| 3 * k as u64 + 2")),
                    ("tyAlias", "ty", f"type {nm} = u64;", inv(f"|k| -> {nm} {{ 3 * k as u64 + 2 }}", f"[{nm}; NN] => "), std(f"|k| -> {nm} {{ 3 * k as u64 + 2 }}")),
                    ("mod", "call", f"mod {nm} {{ pub fn f(k: usize) -> u64 {{ 3 * k as u64 + 2 }} }}", inv(f"|k| {nm}::f(k)"), std(f"|k| {nm}::f(k)")),
                ]
            for decl, use, items, imp, ora in forms:
                if nm in MANGLED and f"{decl}/{use}" not in MANGLED_FORMS:
                    continue
                n += 1
                exp = hyg_expect(mac, decl, use, nm)
                units.append(Unit(f"h{n}", f"arr.hy.{mac}.{decl}/{use}:{nm}", "arr",
                                  f"    {items}\n    let r: [u64; NN] = {imp}; sh(&r)",
                                  f"    {items}\n    let r: [u64; NN] = {ora}; sh(&r)",
                                  lengths=[0, 2], scope=hyg_scope(mac, decl, use, nm), expect=exp,
                                  compile_req=f"arr.compile {mac} {decl}/{use} {nm}",
                                  regress=hyg_regression(mac, decl, use, nm)))
        # a const in the length annotation of from_fn!/from_fn_!
        if not is_map:
            for nm in names:
                n += 1
                units.append(Unit(f"h{n}", f"arr.hy.{mac}.const/len:{nm}", "fixed",
                                  f"    const {nm}: usize = 3;\n    let r = {mac}!([u64; {nm}] => |k| 3 * k as u64 + 2); sh(&r)",
                                  f"    const {nm}: usize = 3;\n    let r = core::array::from_fn::<u64, {nm}, _>(|k| 3 * k as u64 + 2); sh(&r)",
                                  lengths=[3], scope=hyg_scope(mac, "const", "len", nm), expect=hyg_expect(mac, "const", "len", nm),
                                  compile_req=f"arr.compile {mac} const/len {nm}",
                                  regress=hyg_regression(mac, "const", "len", nm)))
    return units


# collect_const!: items / generic parameters (mangled by the library), identifier patterns, controls
CC_ITEMS = ["__func_zxe7hgbnjs", "__COUNT81608BFNA5", "__ARR81608BFNA5"]
CC_GENERICS = ["Ret_KO9Y329U2U", "CAP_KO9Y329U2U"]
CC_BINDERS = ["cmd", "array", "length", "iter", "elem_phantom_ty", "item", "elem_", "next_", "teq"]
CC_CONTROLS = ["adapter", "zxe7hgbnjs", "written_length", "CAP", "Item", "y"]


def cc_expect(decl, use, name):
    if decl == "var":
        return name not in ("CAP_KO9Y329U2U", "__COUNT81608BFNA5", "__ARR81608BFNA5")   # a constant pattern
    if use == "none":         # only declared next to the invocation
        if decl == "tyAlias":
            return name != "CAP_KO9Y329U2U"          # taken for the bare generic argument
        return not (decl in UNSHADOWABLE and name in CC_BINDERS)
    if decl != "tyAlias" and name in CC_ITEMS + ["CAP_KO9Y329U2U"]:
        return False
    if decl == "tyAlias" and name in CC_GENERICS:
        return False
    return not (decl in UNSHADOWABLE and name in CC_BINDERS)


def cc_scope(decl, use, name):
    """out of scope: the names the library mangles on purpose (macro_rules items / generics are not hygienic), and a
    caller const / static with the name of one of collect_const!'s LOCAL VARIABLES (`cmd array length item teq` and the
    iterator loop's `iter elem_ next_ elem_phantom_ty`): compile-time rejections only (E0005 / E0530), the same rows
    vlib/progs/c20.py tags out of scope for from_iter!"""
    if name in CC_ITEMS + CC_GENERICS:
        return False
    return not (decl in UNSHADOWABLE and name in CC_BINDERS)


def cc_hygiene_units(tier):
    units = []
    n = 0
    SRC = "&[10u64, 11, 12]"
    SVEC = "[10u64, 11, 12].iter().copied()"
    for nm in CC_ITEMS + CC_GENERICS + CC_BINDERS + CC_CONTROLS:
        forms = [
            ("var", "param", "", f"collect_const!(u64 => {SRC}, copied(), map(|{nm}| 2 * {nm} + 1))", f"{SVEC}.map(|{nm}| 2 * {nm} + 1)"),
            ("const", "src", f"const {nm}: &[u64] = {SRC};", f"collect_const!(u64 => {nm}, copied(), map(|x| 2 * x + 1))", f"{nm}.iter().copied().map(|x| 2 * x + 1)"),
            ("const", "use", f"const {nm}: u64 = 7;", f"collect_const!(u64 => {SRC}, copied(), map(|x| 2 * x + 1 + {nm} - 7))", f"{SVEC}.map(|x| 2 * x + 1 + {nm} - 7)"),
            ("static", "none", f"static {nm}: u64 = 7;", f"collect_const!(u64 => {SRC}, copied(), map(|x| 2 * x + 1))", f"{SVEC}.map(|x| 2 * x + 1)"),
            ("fn", "call", f"const fn {nm}(x: u64) -> u64 {{ 2 * x + 1 }}", f"collect_const!(u64 => {SRC}, copied(), map(|x| {nm}(x)))", f"{SVEC}.map(|x| {nm}(x))"),
            ("fn", "path", f"const fn {nm}(x: u64) -> u64 {{ 2 * x + 1 }}", f"collect_const!(u64 => {SRC}, copied(), map({nm}))", f"{SVEC}.map({nm})"),
            ("tyAlias", "item", f"type {nm} = u64;", f"collect_const!({nm} => {SRC}, copied(), map(|x| 2 * x + 1))", f"{SVEC}.map(|x| 2 * x + 1)"),
            ("tyAlias", "none", f"type {nm} = u64;", f"collect_const!(u64 => {SRC}, copied(), map(|x| 2 * x + 1))", f"{SVEC}.map(|x| 2 * x + 1)"),
        ]
        for decl, use, items, imp, ora in forms:
            n += 1
            units.append(Unit(f"c{n}", f"arr.hy.cc.{decl}/{use}:{nm}", "fixed",
                              f"    {items}\n    let r = {imp}; sh(&r)",
                              f"    {items}\n    let r: Vec<u64> = {ora}.collect(); sh(&r)",
                              lengths=[3], scope=cc_scope(decl, use, nm), expect=cc_expect(decl, use, nm),
                              compile_req=f"arr.compile cc {decl}/{use} {nm}"))
    return units


# ---------------------------------------------------------------------------------------------
# (d) method hygiene: a caller trait whose method is called like a method the expansion calls
# ---------------------------------------------------------------------------------------------

# method name -> trait method declaration (receiver by reference / by value), `{L}` = the value `len` returns
METHODS = {
    "len": ("fn len(&self) -> usize { {L} }", "fn len(self) -> usize { {L} }"),
    "next": ("fn next<X>(&self) -> Option<core::mem::ManuallyDrop<X>> { None }", None),
    "push": ("fn push(&self, _v: u64) {}", None),
    "build": ("fn build(&self) -> [u64; 0] { [] }", None),
    "infer_length_from_consumer": ("fn infer_length_from_consumer<X>(&self, _c: &X) {}", None),
    "is_full": ("fn is_full(&self) -> bool { true }", None),
    "into_inner": ("fn into_inner(&self) -> u64 { 0 }", None),
    "to_right": ("fn to_right<X>(&self, x: X) -> X { x }", None),
    "reachability_hint": ("fn reachability_hint<X>(&self, x: X) -> X { x }", None),
}


# ---------------------------------------------------------------------------------------------
# (e) parameter patterns with a binding mode
# ---------------------------------------------------------------------------------------------

# form -> (wrapper of the array argument, closure text); every closure computes x -> 2x+1
PAT_MAP = {
    "ref": ("{A}", "|ref x| { hit(*x); 2 * *x + 1 }"),
    "refmut": ("{A}", "|ref mut x| { hit(*x); *x += 1; 2 * *x - 1 }"),
    "refmut0": ("{A}", "|ref mut x| { hit(*x); 2 * *x + 1 }"),
    "refmutty": ("{A}", "|ref mut x: u64| -> u64 { hit(*x); *x += 1; 2 * *x - 1 }"),
    "refmutunused": ("{A}", "|ref mut _x| { let k = 10 + calls() as u64; hit(k); 2 * k + 1 }"),
    "mut": ("{A}", "|mut x| { hit(x); x += 1; 2 * x - 1 }"),
    "tupref": ("pairs({A})", "|(ref x, y)| { hit(*x); 2 * *x + 1 + (y - *x - 100) }"),
    "tuprefmut": ("pairs({A})", "|(ref mut x, y)| { hit(*x); *x += 1; 2 * *x - 1 + (y - *x - 99) }"),
    "tupmut": ("pairs({A})", "|(mut x, y)| { hit(x); x += 1; 2 * x - 1 + (y - x - 99) }"),
    "ncref": ("ncs({A})", "|NC(ref v)| { hit(*v); 2 * *v + 1 }"),
    "ncrefmut": ("ncs({A})", "|NC(ref mut v)| { hit(*v); *v += 1; 2 * *v - 1 }"),
    "ncmut": ("ncs({A})", "|NC(mut v)| { hit(v); v += 1; 2 * v - 1 }"),
}
# every closure computes i -> 3i+2, except `refmut7` (the call site of finding F11d: constant 7)
PAT_FF = {
    "ref": "|ref i| { hit(*i as u64); 3 * *i as u64 + 2 }",
    "refmut": "|ref mut i| { hit(*i as u64); *i += 1; 3 * *i as u64 - 1 }",
    "refmut0": "|ref mut i| { hit(*i as u64); 3 * *i as u64 + 2 }",
    "refmutty": "|ref mut i: usize| -> u64 { hit(*i as u64); *i += 1; 3 * *i as u64 - 1 }",
    "refmut7": "|ref mut i| { hit(*i as u64); *i += 1; 7u64 }",
    "refmut2": "|ref mut i| { hit(*i as u64); *i += 2; 3 * *i as u64 - 4 }",
    "refmutunused": "|ref mut _i| { let k = calls() as u64; hit(k); 3 * k + 2 }",
    "mut": "|mut i| { hit(i as u64); i += 1; 3 * i as u64 - 1 }",
}
PAT_LENGTHS = [0, 1, 2, 3, 4]


def pat_expect(mac, form):
    """does rustc accept the call site (what `patVerdict` of the Lean model says)"""
    if form == "refmutty":
        return False         # macro grammar: `|$pat:tt : $ty|` — a typed parameter must be ONE token tree (`ref mut x` is three)
    refmut = "refmut" in form
    ref = form in ("ref", "tupref", "ncref")
    if mac == "map":
        return not refmut                               # `let ref mut x = array[i]`, array: &[T; N]  (E0596)
    if mac == "map_":
        return not refmut                               # `let ref mut x = elem`, elem not declared `mut`  (E0596)
    if mac == "from_fn":
        return True                                     # `let <pattern> = { i }`: a copy
    return not ((refmut or ref) and form != "refmutunused")   # from_fn_!: `let <pattern> = i; i += 1;` (E0503 / E0506)


def pattern_units(tier):
    units = []
    n = 0
    body = ("    let r: [u64; NN] = {inv};\n"
            "    if calls() == NN {{ format!(\"{{}}|calls={{}}\", sh(&r), NN) }} else {{ format!(\"UNWRITTEN|calls={{}}\", calls()) }}")
    for mac in MACS:
        if mac in ("map", "map_"):
            for form, (wrap, cl) in PAT_MAP.items():
                n += 1
                arr = wrap.format(A="a")
                exp = pat_expect(mac, form)
                # a form rustc rejects where std accepts it: a compile-time rejection only, out of scope (drift);
                # the `arr.safe.pat` row of the same call site is always in scope
                units.append(Unit(f"q{n}", f"arr.pat.{mac}.{form}", "arr", body.format(inv=f"{mac}!({arr}, {cl})"),
                                  body.format(inv=f"({arr}).map({cl})"), lengths=PAT_LENGTHS, scope=exp, expect=exp))
        else:
            for form, cl in PAT_FF.items():
                for ann, atext in (("none", ""), ("ty", "[u64; NN] => ")):
                    n += 1
                    exp = pat_expect(mac, form)
                    units.append(Unit(f"q{n}", f"arr.pat.{mac}.{form}.{ann}", "arr", body.format(inv=f"{mac}!({atext}{cl})"),
                                      body.format(inv=f"core::array::from_fn({cl})"), lengths=PAT_LENGTHS, scope=exp,
                                      expect=exp,
                                      # F11d: as found, `ref mut` borrowed from_fn!'s own loop counter
                                      regress=(mac == "from_fn" and form in ("refmut", "refmutty", "refmut7", "refmut2"))))
    return units


def method_units(tier):
    units = []
    n = 0

    def trait(meth, recv, impl_for, L):
        decl = METHODS[meth][0 if recv == "ref" else 1].replace("{L}", str(L))
        sized = ": Sized" if recv == "val" else ""
        target = {"all": "impl<T> Hj for T {}" if recv == "val" else "impl<T: ?Sized> Hj for T {}",
                  "arr": "impl<T, const K: usize> Hj for [T; K] {}"}[impl_for]
        return f"trait Hj{sized} {{ {decl} }} {target}"

    def displaced(mac, meth):
        """the caller's method was picked before /repo 76ed0a3 (F11a)"""
        return meth == "len" if mac in ("map", "from_fn") else meth in ("next", "push")

    for mac in MACS:
        is_map = mac in ("map", "map_")
        inv = f"{mac}!(a, |x| {{ hit(x); 2 * x + 1 }})" if is_map else f"{mac}!(|i| {{ hit(i as u64); 3 * i as u64 + 2 }})"
        std = "a.map(|x| { hit(x); 2 * x + 1 })" if is_map else "core::array::from_fn(|i| { hit(i as u64); 3 * i as u64 + 2 })"
        cases = []
        for meth in METHODS:
            if meth == "len":
                for L in (0, 1, 2, 5):
                    cases.append((meth, "ref", "all", L))
                cases += [(meth, "ref", "arr", 1), (meth, "val", "all", 1)]
            else:
                cases.append((meth, "ref", "all", 0))
        for meth, recv, target, L in cases:
            n += 1
            tr = trait(meth, recv, target, L)
            # the unwritten slots of a returned array are never read: shown as `U`
            units.append(Unit(f"m{n}", f"arr.meth.{mac} {meth}/{recv}/{target}:{L}", "arr",
                              f"    {tr}\n    let r: [u64; NN] = {inv}; sh_written(&r, calls())",
                              f"    {tr}\n    let r: [u64; NN] = {std}; sh_written(&r, calls())",
                              show="guarded_calls", regress=displaced(mac, meth)))
        # as a const initialiser (a trait method would not be callable in a const context)
        for meth in ("len", "next", "push", "build"):
            n += 1
            tr = trait(meth, "ref", "all", 2)
            ci = f"{mac}!([10u64, 11], |x| 2 * x + 1)" if is_map else f"{mac}!(|i| 3 * i as u64 + 2)"
            cs = "[10u64, 11].map(|x| 2 * x + 1)" if is_map else "core::array::from_fn(|i| 3 * i as u64 + 2)"
            units.append(Unit(f"m{n}", f"arr.meth.{mac} const.{meth}/ref/all:2", "fixed",
                              f"    {tr}\n    const C: [u64; 2] = {ci}; sh(&C)",
                              f"    {tr}\n    let c: [u64; 2] = {cs}; sh(&c)", lengths=[2], regress=displaced(mac, meth)))
    for meth in METHODS:
        n += 1
        tr = trait(meth, "ref", "all", 1)
        units.append(Unit(f"m{n}", f"arr.meth.cc {meth}/ref/all:1", "fixed",
                          f"    {tr}\n    let r = collect_const!(u64 => &[10u64, 11, 12], copied(), map(|x| 2 * x + 1)); sh(&r)",
                          f"    {tr}\n    let r: Vec<u64> = [10u64, 11, 12].iter().copied().map(|x| 2 * x + 1).collect(); sh(&r)",
                          lengths=[3]))
    return units


# ---------------------------------------------------------------------------------------------
# programs
# ---------------------------------------------------------------------------------------------

def main_src(units):
    L = ["fn main() {", "    std::panic::set_hook(Box::new(|_| {}));"]
    for u in units:
        if not u.rows:
            continue
        tag = "in" if u.scope else "out"
        for k in u.lengths:
            if u.kind == "stream":
                for st in streams(k):
                    lit = "[" + ", ".join("[" + ", ".join(f"{v}u64" for v in a) + "]" if a else "[0u64; 0]" for a in st) + "]"
                    L.append(f"    {{ let s: [[u64; {k}]; {len(st)}] = {lit}; println!(\"{u.req} {k} {{}}\\t{{}}\\t{{}}\\t{tag}\", sh_stream(&s), "
                             f"{u.show}(|| impl_{u.uid}(&s)), {u.show}(|| oracle_{u.uid}(&s))); }}")
            elif u.kind == "arr":
                lit = "[" + ", ".join(f"{10 + j}u64" for j in range(k)) + "]" if k else "[0u64; 0]"
                L.append(f"    {{ let a: [u64; {k}] = {lit}; println!(\"{u.req} {k}\\t{{}}\\t{{}}\\t{tag}\", "
                         f"{u.show}(|| impl_{u.uid}(a)), {u.show}(|| oracle_{u.uid}(a))); }}")
            else:
                L.append(f"    println!(\"{u.req} {k}\\t{{}}\\t{{}}\\t{tag}\", {u.show}(|| impl_{u.uid}()), {u.show}(|| oracle_{u.uid}()));")
    L.append("}")
    return "\n".join(L) + "\n"


def program_src(units):
    parts = [PRELUDE]
    for u in units:
        parts.append(u.impl_fn(stub=u.rejected))
        parts.append(u.oracle_fn())
    parts.append(main_src(units))
    return "\n".join(parts)


def check_individually(wd, units, stats):
    jobs = []
    for u in units:
        src = os.path.join(wd, f"one_{u.uid}.rs")
        with open(src, "w") as f:
            f.write(PRELUDE + "\n" + u.impl_fn())
        jobs.append((src, os.path.join(wd, f"one_{u.uid}.rmeta"), "metadata"))
    res = common.compile_many(jobs)
    for u, (rc, err) in zip(units, res):
        u.rejected = (rc != 0)
        u.stderr = err[-900:] if rc != 0 else ""
    stats["individual_compiles"] = stats.get("individual_compiles", 0) + len(units)


def _is_reg(req, regset):
    """does the row belong to a regression unit (request = unit request + length [+ stream])"""
    parts = req.split(" ")
    parts[0] = parts[0].replace("arr.safe.pat.", "arr.pat.", 1)
    return any(" ".join(parts[:k]) in regset for k in range(1, len(parts)))


def all_units(tier):
    return (eval_units(tier) + position_units(tier) + hygiene_units(tier) + cc_hygiene_units(tier)
            + method_units(tier) + pattern_units(tier))


def generate(ctx):
    tier = ctx["tier"]
    wd = common.workdir(ctx["pid"] + "_c11x")
    stats = {}
    units = all_units(tier)
    # units expected to be rejected: judged on their own first (metadata only)
    alone = [u for u in units if not u.expect]
    check_individually(wd, alone, stats)
    # regression corpus first (own binaries, their rows come first): the call sites on which F11a / F11b / F11c showed
    reg = [u for u in units if u.regress]
    rest = [u for u in units if not u.regress]
    units = reg + rest
    nreg, nrest = 4, 16
    nchunks = nreg + nrest
    chunks = [reg[i::nreg] for i in range(nreg)] + [rest[i::nrest] for i in range(nrest)]

    def build(tag, which):
        jobs = []
        for ci in which:
            src = os.path.join(wd, f"chunk{ci}{tag}.rs")
            with open(src, "w") as f:
                f.write(program_src(chunks[ci]))
            jobs.append((src, os.path.join(wd, f"chunk{ci}{tag}.bin"), "link", ("-C", "opt-level=0")))
        return jobs, common.compile_many(jobs)

    jobs, res = build("", range(nchunks))
    bad = [ci for ci, (rc, _) in enumerate(res) if rc != 0]
    if bad:
        check_individually(wd, [u for ci in bad for u in chunks[ci] if not u.rejected], stats)
        jobs2, res2 = build("r", bad)
        for ci, j, r in zip(bad, jobs2, res2):
            jobs[ci], res[ci] = j, r
        still = [(ci, res[ci][1]) for ci in bad if res[ci][0] != 0]
        if still:
            raise RuntimeError("generated program does not compile although every unit was judged on its own: "
                               + still[0][1][-1500:])
    rows = []
    for ci, (src, out, _, _) in enumerate(jobs):
        rc, so, se = common.run_bin(out, timeout=120)
        if rc != 0:
            raise RuntimeError(f"generated program chunk {ci} exited {rc}: {se[-800:]}")
        for line in so.splitlines():
            p = line.split("\t")
            if len(p) != 4:
                raise RuntimeError("malformed line from generated program: " + line[:200])
            rows.append((p[0], p[1], p[2], p[3] == "in"))
    # `arr.safe.pat`: the property's own oracle for every parameter-pattern call site, always in scope: no array
    # (reject / panic) or the array std returns, fully written
    srows = []
    for req, imp, ora, ins in rows:
        if req.startswith("arr.pat."):
            ok = imp in ("reject", "panic") or imp == ora
            srows.append((req.replace("arr.pat.", "arr.safe.pat.", 1), "ok" if ok else imp, "ok", True))
    rows += srows
    # compile verdicts of the hygiene units (the std program with the same items is part of every chunk: accept)
    crows = [(u.compile_req, "reject" if u.rejected else "accept", "accept", u.scope, u.regress) for u in units if u.compile_req]
    regset = {u.req for u in reg}
    rows = ([r for r in rows if _is_reg(r[0], regset)] + [c[:4] for c in crows if c[4]]
            + [r for r in rows if not _is_reg(r[0], regset)] + [c[:4] for c in crows if not c[4]])
    stats["regression_units"] = len(reg)
    stats["units"] = len(units)
    stats["rows"] = len(rows)
    rej = [u for u in units if u.rejected]
    stats["n_units_rejected_by_rustc"] = len(rej)
    stats["units_rejected_by_rustc"] = sorted(u.compile_req or u.req for u in rej)[:80]
    stats["unexpected_verdicts"] = sorted((u.compile_req or u.req) for u in units if u.rejected == u.expect)[:40]
    if rej:
        stats["first_rejection"] = rej[0].stderr
    ctx["extra"]["c11x_programs"] = stats
    ctx["_units"] = units
    if ctx.get("only") is not None:
        rows = [r for r in rows if r[0] in ctx["only"]]
    return common.write_tsv(os.path.join(core.BUILD, "t_%s_progs_c11x.tsv" % ctx["pid"]), rows)


if __name__ == "__main__":
    import sys, time
    t0 = time.time()
    ctx = {"tier": sys.argv[1] if len(sys.argv) > 1 else "quick", "seed": 20260929, "pid": "C11", "only": None, "extra": {}}
    p = generate(ctx)
    st = ctx["extra"]["c11x_programs"]
    print(p, round(time.time() - t0, 1), "s", {k: v for k, v in st.items() if k not in ("units_rejected_by_rustc", "first_rejection")})
    if "-v" in sys.argv:
        for u in ctx["_units"]:
            if u.rejected:
                print("REJECTED", u.compile_req or u.req, "::", [l for l in u.stderr.splitlines() if l.startswith("error")][:2])
    print("unexpected:", st["unexpected_verdicts"])
