"""
C18 generated programs, second family: `parser_method!` as an EXPRESSION OF A PROGRAM (vlib/progs/c18.py
covers which literal matches; here the literals are fixed — `"ab" | "a" => B0, "b" => B1, _ => BD`, trim forms
`"ab" | "a" | "b"` — and what varies is everything around them):

 (a) POSITIONS (`pm.at.<pos>`): the macro's value in a `let`, an `if` condition, a `match` scrutinee / arm,
     two invocations as the arguments of one call, operand of `+`, `?` applied to it, inside a closure, inside
     `const fn`s of another return type and `const` items; branch BODIES written as expression / block / block
     followed by a comma / default with a trailing comma; bodies that log (each body at most once, only the
     chosen one), read the parser (the parser is advanced BEFORE the body runs), assign to the parser (the
     expansion must not write the place after the body), contain a nested `parser_method!` on the same parser,
     `return`, `break`, `continue`, `break <value>`, labeled `break` / `continue`.
 (b) PLACES (`pm.place.<shape>`): the place argument as field, tuple field, `*reference`, `*box`, `vec[i]`,
     `array[1]`, `(p)`, `s.inner.parser`, `self.parser` in a `&mut self` method and in a `const fn(mut self)`,
     `**rr`, `(*v)[0]`.
     PLACES WITH SIDE EFFECTS (`pm.placefx.<shape>`): `ps[pop(&mut cursor)]`, `ps[{ n += 1; st[n - 1] }]`,
     `*pick(&mut ps, &mut cursor)`: the k-th evaluation of the place expression designates the parser with the k-th
     index of a stream (last index repeated).  Observed: value | number of evaluations | all four parsers.
 (c) HYGIENE (`pm.hyg.<case>`): caller LOCALS named like the identifiers the expansion binds (`bytes`, `rem`,
     `brem` as found, `__konst_pm_bytes|rem|brem` since ff38c77) used in the bodies; the parser variable itself called
     so; caller ITEMS (const / static / unit struct / fn) with those names in scope (the as-found names must be
     tolerated: regression inputs of F18c; a caller constant with a MANGLED name is rejected — not a finding, rows of
     scope `m`: implementation vs model only); `Parser`, `Some`, `None`, `Ok`, `Err`, `Option`, `Result`, `core`, `std`
     shadowed by caller items; a caller trait that gives `Parser` / `str` / `[u8]` methods called `remainder`,
     `skip`, `skip_back`, `len`, `as_bytes`.

Oracle (same generated program): the equivalent hand-written chain of Parser method calls applied to the place
evaluated ONCE as a `&mut` receiver (`o_strip_prefix(&mut PLACE)` = `if let Ok(q) = p.strip_prefix("ab") { *p = q; 0 }
else if …`), its result selecting the same bodies in a plain `match` in the same position.

One *unit* = one macro call site.  Units are compiled together in chunks (in parallel); when a chunk does not compile
each of its units is compiled on its own (`--emit=metadata`), the units rustc rejects answer `reject` (the oracle's
version of the same unit always compiles — it is part of the same chunk), and the chunk is compiled again.

request grammar (lean/Driver/C18.lean, `handleUse`):
  pm.at.<pos>|pm.place.<shape>|pm.hyg.<case> <form> <base> <input-hex> <arms>  -> <value>|<start>|<end>|<remainder hex>
  pm.placefx.<shape> <form> <i0/i1/..> <in0,in1,in2,in3> <arms>
        -> <value>|<#evaluations>|<s:e:rem>;<s:e:rem>;<s:e:rem>;<s:e:rem>   |   panic|<#evaluations>
        (the four parsers start at offsets 0, 10, 20, 30)
"""
import os, random
from vlib import core
from vlib.progs import common

MATCH_FORMS = ["strip_prefix", "strip_suffix", "find_skip", "rfind_skip"]
TRIM_FORMS = ["trim_start_matches", "trim_end_matches"]
DUAL = {"strip_prefix": "strip_suffix", "strip_suffix": "strip_prefix", "find_skip": "rfind_skip",
        "rfind_skip": "find_skip", "trim_start_matches": "trim_end_matches", "trim_end_matches": "trim_start_matches"}
ARMS = "0:L22616222:6162,0:L226122:61,1:L226222:62"     # "ab" | "a" => 0, "b" => 1   (token text, rustc's bytes)
BINDERS = ["bytes", "rem", "brem"]                  # as found (F18c): must be tolerated
MANGLED = ["__konst_pm_bytes", "__konst_pm_rem", "__konst_pm_brem"]     # what the expansion binds since ff38c77
# the shapes that found F18b (5e6c5eb) and F18c (ff38c77): their rows come first in the transcript
REGRESSION_FIRST = [r"^pm\.at\.(brk|cont|brkval) r?find_skip ", r"^pm\.hyg\.item\.(const|static|unit)\.(bytes|rem|brem) "]

PRELUDE = r'''
#![allow(warnings)]
use std::cell::Cell;
use std::fmt::Display;
use std::panic::{catch_unwind, AssertUnwindSafe};

pub type KP<'a> = ::konst::Parser<'a>;
pub fn hex(b: &[u8]) -> String { if b.is_empty() { return "-".into(); } b.iter().map(|x| format!("{:02x}", x)).collect() }
pub fn mk<'a>(inp: &'a str, base: usize) -> KP<'a> { if base == 0 { KP::new(inp) } else { KP::with_start_offset(inp, base) } }
pub fn show(v: impl Display, p: KP<'_>) -> String {
    format!("{}|{}|{}|{}", v, p.start_offset(), p.end_offset(), hex(p.remainder().as_bytes()))
}
pub fn f2(x: u32, y: u32) -> u32 { x * 10 + y }
pub fn guarded(f: impl FnOnce() -> String) -> String {
    match catch_unwind(AssertUnwindSafe(f)) { Ok(s) => s, Err(_) => "panic".to_string() }
}

pub struct S<'a> { pub parser: KP<'a>, pub n: u32 }
pub struct Outer<'a> { pub tag: u8, pub inner: S<'a> }

// ---- the equivalent chain of Parser method calls (branch 0: "ab" | "a", branch 1: "b", 9: default) ----
pub const LITS: &[(u32, &str)] = &[(0, "ab"), (0, "a"), (1, "b")];
pub fn o_strip_prefix(p: &mut KP<'_>) -> u32 {
    if let Ok(q) = p.strip_prefix("ab") { *p = q; 0 }
    else if let Ok(q) = p.strip_prefix("a") { *p = q; 0 }
    else if let Ok(q) = p.strip_prefix("b") { *p = q; 1 }
    else { 9 }
}
pub fn o_strip_suffix(p: &mut KP<'_>) -> u32 {
    if let Ok(q) = p.strip_suffix("ab") { *p = q; 0 }
    else if let Ok(q) = p.strip_suffix("a") { *p = q; 0 }
    else if let Ok(q) = p.strip_suffix("b") { *p = q; 1 }
    else { 9 }
}
pub fn o_find_skip(p: &mut KP<'_>) -> u32 {
    // earliest position at which any alternative matches, among those the first listed
    let rem = p.remainder();
    let mut best: Option<(usize, usize)> = None;
    for (i, (_, l)) in LITS.iter().enumerate() {
        if let Some(pos) = rem.find(l) { if best.map_or(true, |(bp, _)| pos < bp) { best = Some((pos, i)); } }
    }
    match best { Some((_, i)) => { *p = p.find_skip(LITS[i].1).unwrap(); LITS[i].0 } None => 9 }
}
pub fn o_rfind_skip(p: &mut KP<'_>) -> u32 {
    // latest END position at which any alternative matches, among those the first listed
    let rem = p.remainder();
    let mut best: Option<(usize, usize)> = None;
    for (i, (_, l)) in LITS.iter().enumerate() {
        if let Some(pos) = rem.rfind(l) { let e = pos + l.len(); if best.map_or(true, |(be, _)| e > be) { best = Some((e, i)); } }
    }
    match best { Some((_, i)) => { *p = p.rfind_skip(LITS[i].1).unwrap(); LITS[i].0 } None => 9 }
}
pub fn o_trim_start_matches(p: &mut KP<'_>) {
    'outer: loop {
        for (_, l) in LITS { if let Ok(q) = p.strip_prefix(*l) { *p = q; continue 'outer; } }
        break;
    }
}
pub fn o_trim_end_matches(p: &mut KP<'_>) {
    'outer: loop {
        for (_, l) in LITS { if let Ok(q) = p.strip_suffix(*l) { *p = q; continue 'outer; } }
        break;
    }
}

// ---- side-effecting place expressions ----
thread_local! { pub static EVALS: Cell<usize> = Cell::new(0); }
pub fn note() { EVALS.with(|e| e.set(e.get() + 1)); }
pub fn evals() -> usize { EVALS.with(|e| e.get()) }
pub struct Cur<'s> { pub st: &'s [usize], pub pos: usize }
pub fn cur<'s>(st: &'s [usize]) -> Cur<'s> { Cur { st, pos: 0 } }
/// every call is one evaluation of the place expression; the k-th call yields the k-th index (last repeated)
pub fn pop(c: &mut Cur<'_>) -> usize { note(); let i = c.pos.min(c.st.len() - 1); c.pos += 1; c.st[i] }
pub fn pick<'r, 'a>(ps: &'r mut [KP<'a>; 4], c: &mut Cur<'_>) -> &'r mut KP<'a> { let i = pop(c); &mut ps[i] }
pub fn mk4<'a>(ins: &[&'a str; 4]) -> [KP<'a>; 4] {
    [KP::new(ins[0]), KP::with_start_offset(ins[1], 10), KP::with_start_offset(ins[2], 20), KP::with_start_offset(ins[3], 30)]
}
pub fn showfx(v: u32, ps: &[KP<'_>; 4]) -> String {
    format!("{}|{}|{}", v, evals(), ps.iter().map(|p| format!("{}:{}:{}", p.start_offset(), p.end_offset(), hex(p.remainder().as_bytes()))).collect::<Vec<_>>().join(";"))
}
pub fn observedfx(f: impl FnOnce() -> String) -> String {
    EVALS.with(|e| e.set(0));
    match catch_unwind(AssertUnwindSafe(f)) { Ok(s) => s, Err(_) => format!("panic|{}", evals()) }
}
'''

IMPORT = "use konst::parser_method;"
PATS0, PATS1 = '"ab" | "a"', '"b"'


def M(place, form, b0="0u32", b1="1u32", bd="9u32", s0=",", s1=",", sd="", oracle=False):
    """the macro (or the oracle chain selecting the same bodies) on `place`; s0/s1/sd = what follows each body"""
    if form in TRIM_FORMS:
        if oracle:
            return f"o_{form}(&mut {place})"
        return f'parser_method!{{{place}, {form}; "ab" | "a" | "b"}}'
    if oracle:
        return f"match o_{form}(&mut {place}) {{ 0 => {b0}, 1 => {b1}, _ => {bd} }}"
    return f"parser_method!{{{place}, {form}; {PATS0} => {b0}{s0} {PATS1} => {b1}{s1} _ => {bd}{sd} }}"


class Unit:
    def __init__(self, uid, req, form, kind, body, group="main", consts=None, scope="in"):
        self.uid, self.req, self.form, self.kind, self.group, self.scope = uid, req, form, kind, group, scope
        self.body = body              # function (oracle: bool) -> Rust text of the function body
        self.consts = consts          # kind == "const": list of input strings
        self.rejected = False
        self.stderr = ""

    def sig(self):
        if self.kind == "std":
            return "inp: &str, base: usize"
        if self.kind == "fx":
            return "st: &[usize], ins: &[&str; 4]"
        return "i: usize"

    def impl_fn(self, stub=False):
        body = '    "reject".to_string()' if stub else f"    {IMPORT}\n" + self.body(False)
        return f"pub fn impl_{self.uid}({self.sig()}) -> String {{\n{body}\n}}\n"

    def oracle_fn(self):
        return f"pub fn oracle_{self.uid}({self.sig()}) -> String {{\n{self.body(True)}\n}}\n"


MKP = "let mut p = mk(inp, base);"
LOG0, LOG1, LOGD = "{ log.push('0'); 0 }", "{ log.push('1'); 1 }", "{ log.push('d'); 9 }"
LBL0, LBL1 = "{ n += 10; k += 1; if k % 2 == 1 { continue 'outer; } }", "{ n += 100; break 'outer }"


def position_units():
    """(a): name -> builder(form, oracle) -> body text"""
    U = []

    def add(pos, forms, fn, group="main"):
        for f in forms:
            U.append(Unit(f"a{len(U)}", f"pm.at.{pos}", f, "std", (lambda o, fn=fn, f=f: fn(f, o)), group))

    mf = MATCH_FORMS
    add("let", mf, lambda f, o: f"    {MKP} let v: u32 = {M('p', f, oracle=o)}; show(v, p)")
    # the parser has been exhausted by `split` (its private `yielded_last_split` flag is set); after the macro a further
    # `split` must still report exhaustion, as it does after the chain of Parser calls
    # (added after seeded change C18-r5-1: `Parser::skip` rebuilt the parser with `with_start_offset`, losing the flag)
    EXH = "loop { match p.split(',') { Ok((_, q)) => p = q, Err(_) => break } }"
    def afterexh(f, o):
        if f in TRIM_FORMS:
            return f"    {MKP} {EXH} {M('p', f, oracle=o)}; let again = p.split(',').is_ok(); show(again as u32, p)"
        return f"    {MKP} {EXH} let v: u32 = {M('p', f, oracle=o)}; let again = p.split(',').is_ok(); show(v + 1000 * again as u32, p)"
    add("afterexh", mf + TRIM_FORMS, afterexh)
    add("ifc", mf, lambda f, o: f"    {MKP} let v: u32 = if {M('p', f, oracle=o)} == 0 {{ 50 }} else {{ 60 }}; show(v, p)")
    add("scrut", mf, lambda f, o: f"    {MKP} let v: u32 = match {M('p', f, oracle=o)} {{ 0 => 70, 1 => 71, _ => 79 }}; show(v, p)")
    add("marm", mf, lambda f, o: f"    {MKP} let v: u32 = match base {{ 0 => {M('p', f, oracle=o)}, _ => {M('p', f, oracle=o)} }}; show(v, p)")
    add("arg2", mf, lambda f, o: f"    {MKP} let v: u32 = f2({M('p', f, oracle=o)}, {M('p', f, oracle=o)}); show(v, p)")
    add("binop", mf, lambda f, o: f"    {MKP} let v: u32 = 1 + {M('p', f, oracle=o)} + 100; show(v, p)")
    add("try", mf, lambda f, o: (
        f"    fn pos(p: &mut KP<'_>) -> Result<u32, u32> {{ let v = {M('*p', f, 'Ok::<u32, u32>(0)', 'Err::<u32, u32>(1)', 'Ok::<u32, u32>(9)', oracle=o)}?; Ok(v + 100) }}\n"
        f"    {MKP} let v = match pos(&mut p) {{ Ok(v) => v, Err(e) => 1000 + e }}; show(v, p)"))
    add("closure", mf, lambda f, o: (
        f"    {MKP} let v: String = {{ let mut c = || -> String {{ format!(\"{{}}\", {M('p', f, oracle=o)} + 1) }}; c() }}; show(v, p)"))
    add("constfn", mf, lambda f, o: (
        f"    {'' if o else 'const '}fn pos<'a>(mut p: KP<'a>) -> (bool, KP<'a>) {{ let b = matches!({M('p', f, oracle=o)}, 0); (b, p) }}\n"
        f"    let (b, p) = pos(mk(inp, base)); show(b as u32, p)"))
    add("stmt", mf, lambda f, o: (
        f"    {MKP} let mut v = 77u32; {M('p', f, '{ v = 0; }', '{ v = 1 }', 'v = 9', s0='', oracle=o)}; show(v, p)"))
    # branch body syntax: expression / block / block followed by a comma / default with a trailing comma
    add("bf.exprcomma", mf, lambda f, o: f"    {MKP} let v: u32 = {M('p', f, sd=',', oracle=o)}; show(v, p)")
    add("bf.block", mf, lambda f, o: f"    {MKP} let v: u32 = {M('p', f, '{ 0u32 }', '{ 1u32 }', '{ 9u32 }', s0='', s1='', oracle=o)}; show(v, p)")
    add("bf.blockcomma", mf, lambda f, o: f"    {MKP} let v: u32 = {M('p', f, '{ 0u32 }', '{ 1u32 }', '{ 9u32 }', sd=',', oracle=o)}; show(v, p)")
    add("bf.mixed", mf, lambda f, o: f"    {MKP} let v: u32 = {M('p', f, '0u32', '{ let k = 1u32; k }', '{ 9u32 }', s1='', oracle=o)}; show(v, p)")
    add("bf.ifmatch", mf, lambda f, o: (
        f"    {MKP} let v: u32 = {M('p', f, 'if base == 0 { 0u32 } else { 0 }', 'match base { 0 => 1u32, _ => 1 }', 'if base > 0 { 9u32 } else { 9 }', oracle=o)}; show(v, p)"))
    # each body at most once, only the chosen one
    add("once", mf, lambda f, o: (
        f"    {MKP} let mut log = String::new(); let v: u32 = {M('p', f, LOG0, LOG1, LOGD, oracle=o)};\n"
        f"    show(format!(\"{{}}:{{}}\", v, log), p)"))
    # the parser is advanced before the body runs / is not written after it
    add("reads", mf, lambda f, o: (
        f"    {MKP} let v: u32 = {M('p', f, 'p.remainder().len() as u32', '50 + p.remainder().len() as u32', '100 + p.remainder().len() as u32', oracle=o)}; show(v, p)"))
    add("writes", mf, lambda f, o: (
        f"    {MKP} let v: u32 = {M('p', f, '{ p = p.skip(1); 0 }', '{ p = p.skip_back(1); 1 }', '{ p = p.skip(1); 9 }', oracle=o)}; show(v, p)"))
    # nested invocations on the same parser
    add("nested", mf, lambda f, o: f"    {MKP} let v: u32 = {M('p', f, '10 + ' + M('p', f, oracle=o), oracle=o)}; show(v, p)")
    add("nestedd", mf, lambda f, o: f"    {MKP} let v: u32 = {M('p', f, bd='90 + ' + M('p', DUAL[f], oracle=o), oracle=o)}; show(v, p)")
    add("nestedt", mf, lambda f, o: (
        f"    {MKP} let v: u32 = {M('p', f, '{ ' + M('p', 'trim_start_matches', oracle=o) + '; 0 }', bd='{ ' + M('p', 'trim_end_matches', oracle=o) + '; 9 }', oracle=o)}; show(v, p)"))
    # control flow inside the bodies: it must target what the caller wrote it in
    add("ret", mf, lambda f, o: (
        f"    fn pos(p: &mut KP<'_>) -> u32 {{ let v: u32 = {M('*p', f, 'return 40', bd='{ return 49; }', oracle=o)}; v + 100 }}\n"
        f"    {MKP} let v = pos(&mut p); show(v, p)"), group="flow")
    add("brk", mf, lambda f, o: (
        f"    {MKP} let mut n = 0u32; let mut i = 0;\n"
        f"    while i < 3 {{ i += 1; {M('p', f, '{ n += 10; }', '{ n += 100; break }', '{ n += 1; }', s0='', s1='', oracle=o)}; n += 1000; }}\n"
        f"    show(n, p)"), group="flow")
    add("cont", mf, lambda f, o: (
        f"    {MKP} let mut n = 0u32; let mut i = 0; let mut k = 0u32;\n"
        f"    while i < 3 {{ i += 1; {M('p', f, '{ n += 10; k += 1; if k % 2 == 1 { continue; } }', '{ n += 100; }', '{ n += 1; }', s0='', s1='', oracle=o)}; n += 1000; }}\n"
        f"    show(n, p)"), group="flow")
    add("brkval", mf, lambda f, o: (
        f"    {MKP} let mut n = 0u32; let mut i = 0;\n"
        f"    let r: u32 = loop {{ i += 1; if i > 3 {{ break 7 + n; }} let v: u32 = {M('p', f, 'break 40 + n', oracle=o)}; n += v; if v == 9 {{ break 50 + n; }} }};\n"
        f"    show(r, p)"), group="flow")
    add("lbl", mf, lambda f, o: (
        f"    {MKP} let mut n = 0u32; let mut i = 0; let mut k = 0u32;\n"
        f"    'outer: while i < 3 {{ i += 1; {M('p', f, LBL0, LBL1, '{ n += 1; }', s0='', s1='', oracle=o)}; n += 1000; }}\n"
        f"    show(n, p)"), group="flow")
    # the pattern-only forms (value `()`)
    tf = TRIM_FORMS
    add("tstmt", tf, lambda f, o: f"    {MKP} {M('p', f, oracle=o)}; show(0, p)")
    add("tlet", tf, lambda f, o: f"    {MKP} let () = {M('p', f, oracle=o)}; show(0, p)")
    add("ttail", tf, lambda f, o: f"    fn pos(p: &mut KP<'_>) {{ {M('*p', f, oracle=o)} }}\n    {MKP} pos(&mut p); show(0, p)")
    add("tconstfn", tf, lambda f, o: (
        f"    {'' if o else 'const '}fn pos<'a>(mut p: KP<'a>) -> (u8, KP<'a>) {{ {M('p', f, oracle=o)}; (0, p) }}\n"
        f"    let (v, p) = pos(mk(inp, base)); show(v, p)"))
    add("tclosure", tf, lambda f, o: f"    {MKP} {{ let mut c = || {{ {M('p', f, oracle=o)}; }}; c(); }} show(0, p)")
    add("tmarm", tf, lambda f, o: f"    {MKP} match base {{ 0 => {M('p', f, oracle=o)}, _ => {M('p', DUAL[f], oracle=o)}, }} show(0, p)")
    add("tloop", tf, lambda f, o: f"    {MKP} let mut i = 0; while i < 2 {{ i += 1; {M('p', f, oracle=o)}; if i == 1 {{ continue; }} }} show(0, p)")
    return U


CONST_INPUTS = ["", "ab", "abx", "xab", "bax", "xx", "xbxa", "aab"]


def const_units():
    """`const` item initialisers (compile-time evaluation, no enclosing function)"""
    U = []
    for f in MATCH_FORMS + TRIM_FORMS:
        def body(o, f=f):
            L = []
            for i, s in enumerate(CONST_INPUTS):
                val = f"let v: u32 = {M('p', f, oracle=o)};" if f in MATCH_FORMS else f"{M('p', f, oracle=o)}; let v = 0u32;"
                if o:
                    L.append(f"    fn c{i}() -> (u32, KP<'static>) {{ let mut p = KP::new(\"{s}\"); {val} (v, p) }}")
                else:
                    L.append(f"    const C{i}: (u32, KP<'static>) = {{ let mut p = KP::new(\"{s}\"); {val} (v, p) }};")
            arms = " ".join((f"{i} => c{i}()," if o else f"{i} => C{i},") for i in range(len(CONST_INPUTS)))
            L.append(f"    let (v, p) = match i {{ {arms} _ => unreachable!() }}; show(v, p)")
            return "\n".join(L)
        U.append(Unit(f"k{len(U)}", "pm.at.constitem", f, "const", body, "main", consts=CONST_INPUTS))
    return U


def place_units():
    """(b) side-effect-free place expressions of every syntactic shape"""
    U = []

    def add(shape, fn):
        for f in MATCH_FORMS + TRIM_FORMS:
            U.append(Unit(f"b{len(U)}", f"pm.place.{shape}", f, "std", (lambda o, fn=fn, f=f: fn(f, o)), "main"))

    def val(place, f, o, **kw):
        """statement(s) binding `v: u32` from the macro on `place`"""
        if f in TRIM_FORMS:
            return f"{M(place, f, oracle=o)}; let v = 0u32;"
        return f"let v: u32 = {M(place, f, oracle=o, **kw)};"

    add("field", lambda f, o: f"    let mut s = S {{ parser: mk(inp, base), n: 0 }}; {val('s.parser', f, o)} show(v, s.parser)")
    add("tfield", lambda f, o: f"    let mut t = (5u8, mk(inp, base)); {val('t.1', f, o)} show(v, t.1)")
    add("deref", lambda f, o: f"    fn pos(r: &mut KP<'_>) -> u32 {{ {val('*r', f, o)} v }}\n    {MKP} let v = pos(&mut p); show(v, p)")
    add("boxed", lambda f, o: f"    let mut b = Box::new(mk(inp, base)); {val('*b', f, o)} show(v, *b)")
    add("idx", lambda f, o: f"    let mut ps = vec![mk(\"bab\", 3), mk(inp, base)]; let i = ps.len() - 1; {val('ps[i]', f, o)} assert_eq!(ps[0].remainder(), \"bab\"); show(v, ps[1])")
    add("idxarr", lambda f, o: f"    let mut ps = [mk(\"bab\", 3), mk(inp, base), mk(\"a\", 1)]; {val('ps[1]', f, o)} assert_eq!((ps[0].remainder(), ps[2].remainder()), (\"bab\", \"a\")); show(v, ps[1])")
    add("paren", lambda f, o: f"    {MKP} {val('(p)', f, o)} show(v, p)")
    add("nestedf", lambda f, o: f"    let mut w = Outer {{ tag: 1, inner: S {{ parser: mk(inp, base), n: 0 }} }}; {val('w.inner.parser', f, o)} show(v, w.inner.parser)")
    add("selfm", lambda f, o: (
        f"    struct W<'a> {{ parser: KP<'a>, n: u32 }}\n"
        f"    impl<'a> W<'a> {{ fn m(&mut self) -> u32 {{ {val('self.parser', f, o, b0='{ self.n += 1; 0 }')} v + self.n * 0 }} }}\n"
        f"    let mut s = W {{ parser: mk(inp, base), n: 0 }}; let v = s.m(); show(v, s.parser)"))
    add("selfc", lambda f, o: (
        f"    struct W<'a> {{ parser: KP<'a>, n: u32 }}\n"
        f"    impl<'a> W<'a> {{ {'' if o else 'const '}fn c(mut self) -> (u32, Self) {{ {val('self.parser', f, o)} (v, self) }} }}\n"
        f"    let (v, s) = W {{ parser: mk(inp, base), n: 0 }}.c(); show(v, s.parser)"))
    add("refref", lambda f, o: f"    {MKP} {{ let mut r1 = &mut p; let rr = &mut r1; {val('**rr', f, o)} show(v, **rr) }}")
    add("derefidx", lambda f, o: f"    let mut store = vec![mk(inp, base)]; let r = &mut store; {val('(*r)[0]', f, o)} show(v, store[0])")
    return U


def placefx_units():
    """(b) place expressions with side effects"""
    U = []
    shapes = {
        "idxcall": ("let mut c = cur(st);", "ps[pop(&mut c)]"),
        "idxblock": ("let mut n = 0usize;", "ps[{ n += 1; note(); st[(n - 1).min(st.len() - 1)] }]"),
        "derefcall": ("let mut c = cur(st);", "*pick(&mut ps, &mut c)"),
    }
    for shape, (setup, place) in shapes.items():
        for f in MATCH_FORMS + TRIM_FORMS:
            def body(o, f=f, setup=setup, place=place):
                v = f"{M(place, f, oracle=o)}; let v = 0u32;" if f in TRIM_FORMS else f"let v: u32 = {M(place, f, oracle=o)};"
                return f"    let mut ps = mk4(ins); {setup} {v} showfx(v, &ps)"
            U.append(Unit(f"f{len(U)}", f"pm.placefx.{shape}", f, "fx", body, "main"))
    return U


def hygiene_units():
    """(c)"""
    U = []

    def add(case, fn, group, scope="in"):
        for f in MATCH_FORMS + TRIM_FORMS:
            U.append(Unit(f"h{len(U)}", f"pm.hyg.{case}", f, "std", (lambda o, fn=fn, f=f: fn(f, o)), group, scope=scope))

    def val(place, f, o, **kw):
        if f in TRIM_FORMS:
            return f"{M(place, f, oracle=o)}; let v = 0u32;"
        return f"let v: u32 = {M(place, f, oracle=o, **kw)};"

    # caller locals called like the expansion's binders, used by every body
    add("locals", lambda f, o: (
        f"    let bytes = 100u32; let rem = 20u32; let brem = 3u32; {MKP} "
        f"{val('p', f, o, b0='bytes + rem + brem', b1='bytes + rem + brem + 1', bd='bytes + rem + brem + 9')} show(v + bytes * 0, p)"), "main")
    # the parser variable itself called so
    for n in BINDERS:
        add(f"pvar.{n}", lambda f, o, n=n: (
            f"    let mut {n} = mk(inp, base); "
            f"{val(n, f, o, b0=f'0 + {n}.remainder().len() as u32 * 0', bd=f'9 + {n}.remainder().len() as u32 * 0')} show(v, {n})"), "main")
    # caller items with those names in scope at the invocation
    decl = {
        "const": lambda n: (f"const {n}: u32 = 0;", f"{n}"),
        "static": lambda n: (f"static {n}: u32 = 0;", f"{n}"),
        "unit": lambda n: (f"struct {n};", f"{{ let _x: {n} = {n}; 0 }}"),
        "fn": lambda n: (f"fn {n}() -> u32 {{ 0 }}", f"{n}()"),
    }
    for kind, mkd in decl.items():
        for n in BINDERS:
            d, use = mkd(n)
            add(f"item.{kind}.{n}", lambda f, o, d=d, use=use: (
                f"    {d} {MKP} {val('p', f, o, b0=f'0 + {use}', b1=f'1 + {use}', bd=f'9 + {use}')} show(v, p)"), "items")
    # a caller constant called like one of the (mangled) binders: rejected by construction of macro_rules; not a
    # finding (nobody writes such a name), compared with the model only
    for n in MANGLED:
        d, use = decl["const"](n)
        add(f"item.const.{n}", lambda f, o, d=d, use=use: (
            f"    {d} {MKP} {val('p', f, o, b0=f'0 + {use}', b1=f'1 + {use}', bd=f'9 + {use}')} show(v, p)"), "items", scope="m")
    # prelude / crate names shadowed by caller items
    add("shadow.prelude", lambda f, o: (
        f"    struct Parser; struct Some; struct None; struct Ok; struct Err; struct Option; struct Result; struct Vec; struct usize; mod core {{}} mod std {{}}\n"
        f"    let _unused = (Parser, Some, None, Ok, Err); {MKP} {val('p', f, o)} show(v, p)"), "shadow")
    add("shadow.methods", lambda f, o: (
        f"    trait Fake {{ fn remainder(&self) -> u8 {{ 0 }} fn skip(&self, n: u8) -> u8 {{ n }} fn skip_back(&self, n: u8) -> u8 {{ n }}\n"
        f"                 fn len(&self) -> u8 {{ 0 }} fn as_bytes(&self) -> u8 {{ 0 }} }}\n"
        f"    impl Fake for KP<'_> {{}} impl Fake for str {{}} impl Fake for [u8] {{}} impl Fake for &str {{}} impl Fake for &[u8] {{}}\n"
        f"    {MKP} {val('p', f, o)} show(v, p)"), "shadow")
    return U


# ---------------------------------------------------------------------------------------------
# inputs
# ---------------------------------------------------------------------------------------------

def words(alpha, n):
    out, layer = [""], [""]
    for _ in range(n):
        layer = [w + a for w in layer for a in alpha]
        out += layer
    return out


def std_inputs(tier):
    return words("abx", 4 if tier == "thorough" else 3)


def fx_cases(tier, rng):
    """(index stream, four inputs)"""
    streams = [[i] for i in range(3)] + [[i, j] for i in range(3) for j in range(3)]
    for _ in range(24 if tier == "thorough" else 10):
        streams.append([rng.randrange(0, 4) for _ in range(rng.randrange(3, 5))])
    streams += [[0, 1, 2, 3], [3, 2, 1, 0], [0, 0, 0, 1], [0, 1, 1, 1], [0, 1, 0, 0], [0, 0, 1, 0]]
    tuples = [("abab", "bcd", "cdefgh", "zzzzzzzz"), ("ab", "ab", "ab", "ab"), ("xab", "abx", "b", ""),
              ("", "a", "ab", "aba"), ("b", "xxxxb", "ax", "bbb"), ("xxa", "x", "xxxxxa", "xa")]
    pool = words("abx", 3)
    for _ in range(30 if tier == "thorough" else 8):
        tuples.append(tuple(rng.choice(pool) + rng.choice(["", "x" * rng.randrange(0, 4)]) for _ in range(4)))
    return streams, tuples


def hexs(s):
    return s.encode().hex() or "-"


def main_src(units, tier, seed):
    L = ["fn main() {", "    std::panic::set_hook(Box::new(|_| {}));"]
    ins = std_inputs(tier)
    L.append("    let inputs: Vec<&str> = vec![" + ", ".join(f'"{w}"' for w in ins) + "];")
    streams, tuples = fx_cases(tier, random.Random(seed ^ 0x18F))
    L.append("    let streams: Vec<Vec<usize>> = vec![" + ", ".join("vec![" + ", ".join(map(str, s)) + "]" for s in streams) + "];")
    L.append("    let tuples: Vec<[&str; 4]> = vec![" + ", ".join("[" + ", ".join(f'"{w}"' for w in t) + "]" for t in tuples) + "];")
    for u in units:
        if u.kind == "std":
            L.append(f"    for inp in &inputs {{ for base in [0usize, 7] {{ println!(\"{u.req} {u.form} {{}} {{}} {ARMS}\\t{{}}\\t{{}}\\t{u.scope}\", base, hex(inp.as_bytes()), "
                     f"guarded(|| impl_{u.uid}(inp, base)), guarded(|| oracle_{u.uid}(inp, base))); }} }}")
        elif u.kind == "fx":
            L.append(f"    for st in &streams {{ for t in &tuples {{ println!(\"{u.req} {u.form} {{}} {{}} {ARMS}\\t{{}}\\t{{}}\\tin\", "
                     f"st.iter().map(|i| i.to_string()).collect::<Vec<_>>().join(\"/\"), t.iter().map(|w| hex(w.as_bytes())).collect::<Vec<_>>().join(\",\"), "
                     f"observedfx(|| impl_{u.uid}(st, t)), observedfx(|| oracle_{u.uid}(st, t))); }} }}")
        else:
            for i, s in enumerate(u.consts):
                L.append(f"    println!(\"{u.req} {u.form} 0 {hexs(s)} {ARMS}\\t{{}}\\t{{}}\\tin\", guarded(|| impl_{u.uid}({i})), guarded(|| oracle_{u.uid}({i})));")
    L.append("}")
    return "\n".join(L) + "\n"


def program_src(units, tier, seed):
    parts = [PRELUDE]
    for u in units:
        parts.append(u.impl_fn(stub=u.rejected))
        parts.append(u.oracle_fn())
    parts.append(main_src(units, tier, seed))
    return "\n".join(parts)


def check_individually(wd, units, stats):
    jobs = []
    for u in units:
        src = os.path.join(wd, f"one_{u.uid}.rs")
        with open(src, "w") as f:
            f.write(PRELUDE + "\n" + u.impl_fn())
        jobs.append((src, os.path.join(wd, f"one_{u.uid}.rmeta"), "metadata"))
    res = common.compile_many(jobs)
    for u, (rc, err) in zip(units, res):
        u.rejected = (rc != 0)
        u.stderr = err[-700:] if rc != 0 else ""
    stats["individual_compiles"] = stats.get("individual_compiles", 0) + len(units)


def all_units():
    return position_units() + const_units() + place_units() + placefx_units() + hygiene_units()


def generate(ctx):
    tier, seed = ctx["tier"], ctx["seed"]
    wd = common.workdir("c18h")
    stats = {}
    units = all_units()
    # chunks: units of one group stay together (a group whose units rustc may reject — caller items named like a
    # binder, control flow in bodies — costs an individual pass only for its own chunks)
    chunks = []
    per_group = {"main": 9, "flow": 2, "items": 4, "shadow": 1}
    for g, k in per_group.items():
        us = [u for u in units if u.group == g]
        chunks += [us[i::k] for i in range(k) if us[i::k]]
    assert sum(len(c) for c in chunks) == len(units)

    def build(tag, which):
        jobs = []
        for ci in which:
            src = os.path.join(wd, f"chunk{ci}{tag}.rs")
            with open(src, "w") as f:
                f.write(program_src(chunks[ci], tier, seed))
            jobs.append((src, os.path.join(wd, f"chunk{ci}{tag}.bin"), "link", ("-C", "opt-level=0")))
        return jobs, common.compile_many(jobs)

    jobs, res = build("", range(len(chunks)))
    bad = [ci for ci, (rc, _) in enumerate(res) if rc != 0]
    if bad:
        check_individually(wd, [u for ci in bad for u in chunks[ci]], stats)
        jobs2, res2 = build("r", bad)
        for k, ci in enumerate(bad):
            jobs[ci], res[ci] = jobs2[k], res2[k]
        still = [(ci, res[ci][1]) for ci in bad if res[ci][0] != 0]
        if still:
            raise RuntimeError("generated program does not compile although every unit was judged on its own "
                               "(the ORACLE side of a unit must always compile): " + still[0][1][-1500:])
    rows = []
    for ci, (src, out, _, _) in enumerate(jobs):
        rc, so, se = common.run_bin(out, timeout=120)
        if rc != 0:
            raise RuntimeError(f"generated program chunk {ci} exited {rc}: {se[-800:]}")
        for line in so.splitlines():
            p = line.split("\t")
            if len(p) != 4:
                raise RuntimeError("malformed line from generated program: " + line[:200])
            rows.append((p[0], p[1], p[2], p[3]))
    import re
    first = [re.compile(r) for r in REGRESSION_FIRST]
    rows.sort(key=lambda r: 0 if any(rx.search(r[0]) for rx in first) else 1)      # stable
    rej = [u for u in units if u.rejected]
    stats["units"] = len(units)
    stats["rows"] = len(rows)
    stats["n_units_rejected_by_rustc"] = len(rej)
    stats["units_rejected_by_rustc"] = sorted(u.req + " " + u.form for u in rej)[:80]
    if rej:
        stats["first_rejection"] = rej[0].stderr
    ctx["extra"]["c18_use_programs"] = stats
    tsv = os.path.join(core.BUILD, "t_C18_c18h.tsv")
    with open(tsv, "w") as f:
        for req, imp, ora, scope in rows:
            f.write(f"{req}\t{imp}\t{ora}\t{scope}\n")
    return tsv


if __name__ == "__main__":
    import sys, time
    t0 = time.time()
    ctx = {"tier": sys.argv[1] if len(sys.argv) > 1 else "quick", "seed": 20260929, "pid": "C18", "only": None, "extra": {}}
    p = generate(ctx)
    print(p, round(time.time() - t0, 1), "s", ctx["extra"])
