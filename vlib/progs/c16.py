"""
C16 generated programs: the comparison MACROS (`const_eq!`, `const_cmp!`, `const_eq_for!(slice|option|range|
range_inclusive; ..)`, `const_cmp_for!(slice|option; ..)`, `assertc_eq!`, `assertc_ne!`) as *expressions of a
program*, which the in-process harness (harness/src/c16.rs: variables in, value out) cannot observe:

 (a) ARGUMENT EXPRESSIONS WITH SIDE EFFECTS.  The two argument expressions are not idempotent: `pop(&mut cur)`
     (a call that advances a cursor, shape `se`) or a block that increments a counter (`{ n += 1; vals[n - 1] }`,
     shape `sb`).  The k-th evaluation of an argument expression produces the k-th value of its *stream* (the
     last value is repeated).  Observed: the macro's value, how often each argument expression was evaluated,
     and in which order.  Oracle: the same two expressions handed to std's `==` / `Ord::cmp` / `assert_eq!` /
     `assert_ne!` (each evaluated exactly once, left before right, compared by value).
 (b) NON-TAIL POSITIONS.  The macro's value is post-processed (`.reverse()`, `matches!(.., Less)`,
     `== Ordering::Less`, a second key that has priority, `if let`, `match`, two `let`s, `!`), inside a closure
     and inside `const fn`s whose return type differs from the macro's value, and in `const` item initialisers;
     element comparators as key closure / two-argument closure / function path.  A macro that leaves the
     enclosing function (`return`) instead of being an expression either changes these values or does not
     type-check any more (observed as `reject`; std's expression in the same position always compiles).

One *unit* = one macro call site (macro form x position / shape).  Units are compiled together in a few chunks
(in parallel); when a chunk does not compile each of its units is compiled on its own (`--emit=metadata`), the
units rustc rejects answer `reject`, and the chunk is compiled again (same scheme as vlib/progs/c19.py).

request grammar (see lean/Driver/C16.lean):
  <eq|cmp>.<se|sb>.<via> <ty> <left stream> <right stream>   -> <t|f|lt|eq|gt|panic>|<#left>|<#right>|<order l/r..>
  assertc.<se|sb>.<eq|ne> <ty> <left stream> <right stream>  -> <ok|panic>|<#left>|<#right>|<order>
        stream = values separated by `/`
  <eq|cmp>.at.<position>.<via> <ty> <a> <b> [<p1> <p2>]      -> value of the position (see POS_* below)
  assertc.at.stmt.<eq|ne> <ty> <a> <b>                        -> 7 | panic
"""
import os, random
from vlib import core
from vlib.progs import common

PRELUDE = r'''
#![allow(warnings)]
use std::cell::RefCell;
use std::cmp::Ordering;
use std::ops::{Range, RangeInclusive};
use std::panic::{catch_unwind, AssertUnwindSafe};
use konst::{assertc_eq, assertc_ne, const_cmp, const_cmp_for, const_eq, const_eq_for};
use konst::primitive::cmp::cmp_u8;

pub fn o(x: Ordering) -> String { match x { Ordering::Less => "lt", Ordering::Equal => "eq", Ordering::Greater => "gt" }.to_string() }
pub fn bs(x: bool) -> String { if x { "t" } else { "f" }.to_string() }

// ---- element comparators passed as function paths ----
pub const fn cmp_ref_u8(l: &u8, r: &u8) -> Ordering { cmp_u8(*l, *r) }
pub const fn eq_ref_u8(l: &u8, r: &u8) -> bool { *l == *r }
pub const fn eq_refref_u8(l: &&u8, r: &&u8) -> bool { **l == **r }

// ---- the log of argument evaluations ----
thread_local! { pub static LOG: RefCell<String> = RefCell::new(String::new()); }
pub fn note(tag: char) { LOG.with(|l| l.borrow_mut().push(tag)); }
pub fn log_take() -> String { LOG.with(|l| std::mem::take(&mut *l.borrow_mut())) }
/// a cursor over the values that successive evaluations of one argument expression produce
pub struct Cur<'a, V: Clone> { pub vals: &'a [V], pub pos: usize, pub tag: char }
pub fn cur<'a, V: Clone>(vals: &'a [V], tag: char) -> Cur<'a, V> { Cur { vals, pos: 0, tag } }
/// advances the cursor: every call is one evaluation of the argument expression
pub fn pop<'a, V: Clone>(c: &mut Cur<'a, V>) -> V {
    note(c.tag);
    let i = c.pos.min(c.vals.len() - 1);
    c.pos += 1;
    c.vals[i].clone()
}
/// result, number of evaluations of the left / right argument expression, order of the evaluations
pub fn observed(f: impl FnOnce() -> String) -> String {
    log_take();
    let r = match catch_unwind(AssertUnwindSafe(f)) { Ok(s) => s, Err(_) => "panic".to_string() };
    let mut log = log_take();
    let nl = log.chars().filter(|c| *c == 'l').count();
    let nr = log.chars().filter(|c| *c == 'r').count();
    if log.len() > 24 { log.truncate(24); log.push('+'); }
    format!("{}|{}|{}|{}", r, nl, nr, if log.is_empty() { "-".to_string() } else { log })
}
pub fn guarded(f: impl FnOnce() -> String) -> String {
    match catch_unwind(AssertUnwindSafe(f)) { Ok(s) => s, Err(_) => "panic".to_string() }
}

// ---- request tokens ----
pub fn sh_u8(v: &u8) -> String { v.to_string() }
pub fn sh_slice(v: &Vec<u8>) -> String { format!("[{}]", v.iter().map(|x| x.to_string()).collect::<Vec<_>>().join(";")) }
pub fn sh_str(v: &String) -> String { if v.is_empty() { "-".to_string() } else { v.bytes().map(|b| format!("{:02x}", b)).collect() } }
pub fn sh_opt(v: &Option<u8>) -> String { match v { None => "none".to_string(), Some(x) => format!("some:{}", x) } }
pub fn sh_range(v: &Range<u8>) -> String { format!("{}|{}", v.start, v.end) }
pub fn sh_rangeinc(v: &RangeInclusive<u8>) -> String { format!("{}|{}|0", v.start(), v.end()) }
pub fn sh_stream<D>(s: &Vec<D>, sh: fn(&D) -> String) -> String { s.iter().map(|d| sh(d)).collect::<Vec<_>>().join("/") }
'''

# ---------------------------------------------------------------------------------------------
# value types:  key -> request <ty>, owned type D, parameter type A, A from `d: &D`, macro argument from a
# parameter named `l`, value type V of the side-effect cursors, V from `d: &D`, token function
# ---------------------------------------------------------------------------------------------
TYPES = {
    "u8": dict(ty="u8", D="u8", A="u8", conv="*{d}", arg="{p}", V="u8", vconv="*{d}", sh="sh_u8"),
    "slice": dict(ty="slice_u8", D="Vec<u8>", A="&[u8]", conv="&{d}[..]", arg="{p}", V="&[u8]", vconv="&{d}[..]", sh="sh_slice"),
    "str": dict(ty="str", D="String", A="&str", conv="{d}.as_str()", arg="{p}", V="&str", vconv="{d}.as_str()", sh="sh_str"),
    "opt": dict(ty="u8", D="Option<u8>", A="Option<u8>", conv="*{d}", arg="{p}", V="Option<u8>", vconv="*{d}", sh="sh_opt"),
    "range": dict(ty="range_u8", D="Range<u8>", A="&Range<u8>", conv="{d}", arg="*{p}", V="Range<u8>", vconv="{d}.clone()", sh="sh_range"),
    "rangeinc": dict(ty="rangeinc_u8", D="RangeInclusive<u8>", A="&RangeInclusive<u8>", conv="{d}", arg="*{p}",
                     V="RangeInclusive<u8>", vconv="{d}.clone()", sh="sh_rangeinc"),
}

# macro forms: (what, via, type key, macro expression over {l} {r})
FORMS = [
    ("cmp", "macro", "u8", "const_cmp!({l}, {r})"),
    ("cmp", "macro", "slice", "const_cmp!({l}, {r})"),
    ("cmp", "macro", "str", "const_cmp!({l}, {r})"),
    ("cmp", "optmacro", "opt", "const_cmp!({l}, {r})"),
    ("cmp", "for", "slice", "const_cmp_for!(slice; {l}, {r})"),
    ("cmp", "forkey", "slice", "const_cmp_for!(slice; {l}, {r}, |x| *x)"),
    ("cmp", "forcl", "slice", "const_cmp_for!(slice; {l}, {r}, |a, b| cmp_u8(*a, *b))"),
    ("cmp", "forpath", "slice", "const_cmp_for!(slice; {l}, {r}, cmp_ref_u8)"),
    ("cmp", "optfor", "opt", "const_cmp_for!(option; {l}, {r})"),
    ("cmp", "optforkey", "opt", "const_cmp_for!(option; {l}, {r}, |x| *x)"),
    ("cmp", "optforcl", "opt", "const_cmp_for!(option; {l}, {r}, |a, b| cmp_u8(*a, *b))"),
    ("cmp", "optforpath", "opt", "const_cmp_for!(option; {l}, {r}, cmp_ref_u8)"),
    ("eq", "macro", "u8", "const_eq!({l}, {r})"),
    ("eq", "macro", "slice", "const_eq!({l}, {r})"),
    ("eq", "macro", "str", "const_eq!({l}, {r})"),
    ("eq", "macro", "range", "const_eq!({l}, {r})"),
    ("eq", "macro", "rangeinc", "const_eq!({l}, {r})"),
    ("eq", "optmacro", "opt", "const_eq!({l}, {r})"),
    ("eq", "for", "slice", "const_eq_for!(slice; {l}, {r})"),
    ("eq", "forkey", "slice", "const_eq_for!(slice; {l}, {r}, |x| *x)"),
    ("eq", "forcl", "slice", "const_eq_for!(slice; {l}, {r}, |a, b| *a == *b)"),
    ("eq", "forpath", "slice", "const_eq_for!(slice; {l}, {r}, eq_ref_u8)"),
    ("eq", "optfor", "opt", "const_eq_for!(option; {l}, {r})"),
    ("eq", "optforkey", "opt", "const_eq_for!(option; {l}, {r}, |x| *x)"),
    ("eq", "optforcl", "opt", "const_eq_for!(option; {l}, {r}, |a, b| *a == *b)"),
    ("eq", "optforpath", "opt", "const_eq_for!(option; {l}, {r}, eq_ref_u8)"),
    ("eq", "for", "range", "const_eq_for!(range; {l}, {r})"),
    ("eq", "forkey", "range", "const_eq_for!(range; {l}, {r}, |x| *x)"),
    ("eq", "forcl", "range", "const_eq_for!(range; {l}, {r}, |a, b| *a == *b)"),
    ("eq", "forpath", "range", "const_eq_for!(range; {l}, {r}, eq_ref_u8)"),
    ("eq", "for", "rangeinc", "const_eq_for!(range_inclusive; {l}, {r})"),
    ("eq", "forkey", "rangeinc", "const_eq_for!(range_inclusive; {l}, {r}, |x| **x)"),
    ("eq", "forcl", "rangeinc", "const_eq_for!(range_inclusive; {l}, {r}, |a, b| **a == **b)"),
    ("eq", "forpath", "rangeinc", "const_eq_for!(range_inclusive; {l}, {r}, eq_refref_u8)"),
]
ASSERT_FORMS = [
    ("assertc", "eq", "u8", "assertc_eq!({l}, {r})", "assert_eq!({l}, {r})"),
    ("assertc", "ne", "u8", "assertc_ne!({l}, {r})", "assert_ne!({l}, {r})"),
    ("assertc", "eq", "str", "assertc_eq!({l}, {r})", "assert_eq!({l}, {r})"),
    ("assertc", "ne", "str", "assertc_ne!({l}, {r})", "assert_ne!({l}, {r})"),
]

ORACLE = {"cmp": "({l}).cmp(&({r}))", "eq": "(({l}) == ({r}))"}

# positions: name -> (extra parameters, return type, body over {M} (the macro on l, r) and {Ms} (on r, l),
#                     rendering of the returned value `v`, const fn?)
POS_CMP = {
    # the value post-processed by a method
    "rev": ("", "Ordering", "{M}.reverse()", "o(v)", True),
    # a const fn returning a different type than the macro's value
    "islt": ("", "bool", "matches!({M}, Ordering::Less)", "bs(v)", True),
    "eqlt": ("", "bool", "{M} == Ordering::Less", "bs(v)", False),
    # combined with a second key that has priority (computed after the macro)
    "key2": (", p1: u8, p2: u8", "Ordering",
             "let by = {M}; if p1 != p2 {{ return if p1 < p2 {{ Ordering::Less }} else {{ Ordering::Greater }}; }} by", "o(v)", True),
    "ifv": ("", "u8", "let mut n = 10u8; if let Ordering::Less = {M} {{ n += 1; }} n", "v.to_string()", True),
    "match": ("", "i8", "match {M} {{ Ordering::Less => -1, Ordering::Equal => 0, Ordering::Greater => 1 }}", "v.to_string()", True),
    # inside the caller's loop, followed by the caller's own `continue`
    "loop": ("", "u8", "let mut n = 0u8; let mut i = 0; while i < 3 {{ i += 1; if let Ordering::Less = {M} {{ n += 10; continue; }} n += 1; }} n",
             "v.to_string()", True),
    "let2": ("", "(Ordering, Ordering)", "let x = {M}; let y = {Ms}; (x, y)", "format!(\"{}|{}\", o(v.0), o(v.1))", True),
}
POS_EQ = {
    "not": ("", "bool", "!{M}", "bs(v)", True),
    "key2": (", p1: u8, p2: u8", "bool", "let same = {M}; let differs = !(same && p1 == p2); differs", "bs(v)", True),
    "ifv": ("", "u8", "let mut n = 10u8; if {M} {{ n += 1; }} n", "v.to_string()", True),
    "match": ("", "i8", "match {M} {{ true => 1, false => 0 }}", "v.to_string()", True),
    "loop": ("", "u8", "let mut n = 0u8; let mut i = 0; while i < 3 {{ i += 1; if {M} {{ n += 10; continue; }} n += 1; }} n",
             "v.to_string()", True),
    "let2": ("", "(bool, bool)", "let x = {M}; let y = {Ms}; (x, y)", "format!(\"{}|{}\", bs(v.0), bs(v.1))", True),
}
KEYS = [(0, 1), (1, 1), (2, 1)]


class Unit:
    def __init__(self, uid, req, tkey, kind, impl_body, oracle_body, extra=None):
        self.uid = uid
        self.req = req            # request operator, e.g. cmp.at.rev.for
        self.tkey = tkey
        self.kind = kind          # pair | key2 | stream | const
        self.impl_body = impl_body
        self.oracle_body = oracle_body
        self.extra = extra        # const: list of (token a, token b)
        self.rejected = False
        self.stderr = ""

    def sig(self):
        T = TYPES[self.tkey]
        if self.kind == "pair":
            return f"l: {T['A']}, r: {T['A']}"
        if self.kind == "key2":
            return f"l: {T['A']}, r: {T['A']}, p1: u8, p2: u8"
        if self.kind == "stream":
            return f"ls: &[{T['V']}], rs: &[{T['V']}]"
        return "i: usize"

    def impl_fn(self, stub=False):
        body = '"reject".to_string()' if stub else self.impl_body
        return f"pub fn impl_{self.uid}({self.sig()}) -> String {{\n{body}\n}}\n"

    def oracle_fn(self):
        return f"pub fn oracle_{self.uid}({self.sig()}) -> String {{\n{self.oracle_body}\n}}\n"


def lit(tkey, v):
    """rust literal of a value given as python data"""
    if tkey == "u8":
        return f"{v}u8"
    if tkey == "slice":
        return "vec![" + ", ".join(f"{x}u8" for x in v) + "]"
    if tkey == "str":
        return "String::from(\"" + "".join("\\u{%x}" % ord(c) for c in v) + "\")"
    if tkey == "opt":
        return "None" if v is None else f"Some({v}u8)"
    if tkey == "range":
        return f"({v[0]}u8..{v[1]}u8)"
    return f"({v[0]}u8..={v[1]}u8)"


def const_lit(tkey, v):
    """(type, rust const expression) of a value"""
    if tkey == "u8":
        return "u8", f"{v}"
    if tkey == "slice":
        return "&[u8]", "&[" + ", ".join(str(x) for x in v) + "]"
    if tkey == "str":
        return "&str", "\"" + "".join("\\u{%x}" % ord(c) for c in v) + "\""
    if tkey == "opt":
        return "Option<u8>", "None" if v is None else f"Some({v})"
    if tkey == "range":
        return "Range<u8>", f"{v[0]}..{v[1]}"
    return "RangeInclusive<u8>", f"{v[0]}..={v[1]}"


def token(tkey, v):
    if tkey == "u8":
        return str(v)
    if tkey == "slice":
        return "[" + ";".join(str(x) for x in v) + "]"
    if tkey == "str":
        return v.encode().hex() or "-"
    if tkey == "opt":
        return "none" if v is None else f"some:{v}"
    if tkey == "range":
        return f"{v[0]}|{v[1]}"
    return f"{v[0]}|{v[1]}|0"


def words(alpha, n):
    out, layer = [[]], [[]]
    for _ in range(n):
        layer = [w + [a] for w in layer for a in alpha]
        out += layer
    return out


def values(tkey, tier, rng):
    """the values whose ordered pairs every `pair` unit of this type sees"""
    big = tier == "thorough"
    if tkey == "u8":
        return [0, 1, 2, 127, 128, 255] if big else [0, 1, 2, 255]
    if tkey == "slice":
        v = words([0, 1, 2], 3 if big else 2)
        # longer slices sharing a prefix: differ late, proper prefixes, the shorter one lexicographically greater
        base = [rng.randrange(0, 4) for _ in range(9)]
        v += [base, base[:5], base[:8] + [base[8] + 1], base[:4] + [200], [255], [255, 0]]
        return v
    if tkey == "str":
        return ["", "a", "b", "ab", "ñ"] + (["aa", "\U0010ffff"] if big else [])
    if tkey == "opt":
        return [None, 0, 1, 255] + ([2, 128] if big else [])
    bounds = [0, 1, 255] + ([128] if big else [])
    return [(s, e) for s in bounds for e in bounds]


def stream_values(tkey):
    if tkey == "u8":
        return [0, 1, 2]
    if tkey == "slice":
        return [[], [1], [1, 2], [2, 1], [1, 2, 3]]
    if tkey == "str":
        return ["", "a", "ab"]
    if tkey == "opt":
        return [None, 0, 1]
    return [(0, 1), (1, 1), (0, 255)]


def streams(tkey, tier, rng):
    """streams of 1..4 values: all of length <= 2, a seeded sample of longer ones"""
    vals = stream_values(tkey)
    s = [[a] for a in vals] + [[a, b] for a in vals for b in vals]
    for _ in range(12 if tier == "thorough" else 5):
        s.append([rng.choice(vals) for _ in range(rng.randrange(3, 5))])
    return s


# ---------------------------------------------------------------------------------------------
# units
# ---------------------------------------------------------------------------------------------

def position_units(tier, rng):
    units = []
    n = 0

    def uid():
        nonlocal n
        n += 1
        return f"p{n}"

    for what, via, tkey, mac in FORMS:
        T = TYPES[tkey]
        la, ra = T["arg"].format(p="l"), T["arg"].format(p="r")
        M, Ms = mac.format(l=la, r=ra), mac.format(l=ra, r=la)
        O, Os = ORACLE[what].format(l=la, r=ra), ORACLE[what].format(l=ra, r=la)
        fmt = "o" if what == "cmp" else "bs"
        for pos, (xp, rty, body, show, cf) in (POS_CMP if what == "cmp" else POS_EQ).items():
            args = "l, r, p1, p2" if xp else "l, r"
            sig = f"l: {T['A']}, r: {T['A']}{xp}"
            imp = (f"    {'const ' if cf else ''}fn pos({sig}) -> {rty} {{ {body.format(M=M, Ms=Ms)} }}\n"
                   f"    let v = pos({args}); {show}")
            ora = (f"    fn pos({sig}) -> {rty} {{ {body.format(M=O, Ms=Os)} }}\n"
                   f"    let v = pos({args}); {show}")
            units.append(Unit(uid(), f"{what}.at.{pos}.{via}", tkey, "key2" if xp else "pair", imp, ora))
        # inside a closure that returns a different type than the macro's value
        sigc = f"l: {T['A']}, r: {T['A']}"
        units.append(Unit(uid(), f"{what}.at.closure.{via}", tkey, "pair",
                          f"    let pos = |{sigc}| -> String {{ {fmt}({M}) }};\n    pos(l, r)",
                          f"    let pos = |{sigc}| -> String {{ {fmt}({O}) }};\n    pos(l, r)"))
        # `const` item initialisers (compile-time evaluation, no enclosing function); the value post-processed
        vals = values(tkey, "quick", random.Random(1))
        prs = [(a, b) for a in vals for b in vals]
        rng.shuffle(prs)
        prs = prs[:12 if tier == "thorough" else 6]
        post = ".reverse()" if what == "cmp" else ""
        neg = "" if what == "cmp" else "!"
        decls, items, arms_i, arms_o = [], [], [], []
        for i, (a, b) in enumerate(prs):
            ta, ca = const_lit(tkey, a)
            _, cb = const_lit(tkey, b)
            decls.append(f"    const A{i}: {ta} = {ca}; const B{i}: {ta} = {cb};")
            items.append(f"    const C{i}: {'Ordering' if what == 'cmp' else 'bool'} = {neg}{mac.format(l=f'A{i}', r=f'B{i}')}{post};")
            arms_i.append(f"{i} => {fmt}(C{i}),")
            arms_o.append(f"{i} => {fmt}({neg}{ORACLE[what].format(l=f'A{i}', r=f'B{i}')}{post}),")
        cname = "constrev" if what == "cmp" else "constnot"
        units.append(Unit(uid(), f"{what}.at.{cname}.{via}", tkey, "const",
                          "\n".join(decls + items) + "\n    match i { " + " ".join(arms_i) + " _ => unreachable!() }",
                          "\n".join(decls) + "\n    match i { " + " ".join(arms_o) + " _ => unreachable!() }",
                          extra=[(token(tkey, a), token(tkey, b)) for a, b in prs]))
    # the documented `try_equal!` form of a comparator closure: the macro call is the tail of a function that returns
    # `Ordering`, and `try_equal!` returns the first non-equal component straight out of that function
    # (comparing the high nibble, then the low nibble, is the order of the bytes themselves)
    # (added after seeded change C16-r5-1: the slice arm swapped the operands when the left one is longer and reversed
    # the result after the loop, which an early `return` skips)
    units.append(Unit(uid(), "cmp.at.tail.fortry", "slice", "pair",
                      "    const fn pos(l: &[u8], r: &[u8]) -> Ordering { const_cmp_for!(slice; l, r, |a, b| { konst::try_equal!(cmp_u8(*a / 16, *b / 16)); cmp_u8(*a % 16, *b % 16) }) }\n"
                      "    let v = pos(l, r); o(v)",
                      "    fn pos(l: &[u8], r: &[u8]) -> Ordering { l.cmp(r) }\n    let v = pos(l, r); o(v)"))
    # assertc_eq! / assertc_ne! as a statement of a const fn that returns something else
    for what, via, tkey, mac, ora in ASSERT_FORMS:
        T = TYPES[tkey]
        sig = f"l: {T['A']}, r: {T['A']}"
        units.append(Unit(uid(), f"assertc.at.stmt.{via}", tkey, "pair",
                          f"    const fn pos({sig}) -> u8 {{ {mac.format(l='l', r='r')}; 7 }}\n    pos(l, r).to_string()",
                          f"    fn pos({sig}) -> u8 {{ {ora.format(l='l', r='r')}; 7 }}\n    pos(l, r).to_string()"))
    return units


def side_effect_units():
    units = []
    n = 0
    forms = [(w, v, t, m, ORACLE[w]) for (w, v, t, m) in FORMS] + list(ASSERT_FORMS)
    for what, via, tkey, mac, ora in forms:
        # the macro is the tail expression of a closure of the macro's own value type: what is observed here
        # is the evaluation of the ARGUMENTS, whatever the enclosing return type (positions: position_units)
        fmt = {"cmp": "o((|| -> Ordering {{ {} }})())", "eq": "bs((|| -> bool {{ {} }})())",
               "assertc": "{{ {}; \"ok\".to_string() }}"}[what]
        for shape in ("se", "sb"):
            n += 1
            if shape == "se":
                # a call that advances a cursor
                setup = "    let mut cl = cur(ls, 'l'); let mut cr = cur(rs, 'r');\n"
                la, ra = "pop(&mut cl)", "pop(&mut cr)"
            else:
                # a block that increments a counter
                setup = "    let mut nl = 0usize; let mut nr = 0usize;\n"
                la = "{ nl += 1; note('l'); ls[(nl - 1).min(ls.len() - 1)].clone() }"
                ra = "{ nr += 1; note('r'); rs[(nr - 1).min(rs.len() - 1)].clone() }"
            units.append(Unit(f"s{n}", f"{what}.{shape}.{via}", tkey, "stream",
                              setup + "    " + fmt.format(mac.format(l=la, r=ra)),
                              setup + "    " + fmt.format(ora.format(l=la, r=ra))))
    return units


# ---------------------------------------------------------------------------------------------
# programs
# ---------------------------------------------------------------------------------------------

def main_src(units, tier, seed):
    L = ["fn main() {", "    std::panic::set_hook(Box::new(|_| {}));"]
    used = sorted({u.tkey for u in units})
    for tk in used:
        T = TYPES[tk]
        rng = random.Random(seed * 31 + sum(map(ord, tk)))
        vals = values(tk, tier, rng)
        L.append(f"    let v_{tk}: Vec<{T['D']}> = vec![" + ", ".join(lit(tk, v) for v in vals) + "];")
        ss = streams(tk, tier, rng)
        L.append(f"    let s_{tk}: Vec<Vec<{T['D']}>> = vec![" + ", ".join("vec![" + ", ".join(lit(tk, v) for v in s) + "]" for s in ss) + "];")
    for u in units:
        T = TYPES[u.tkey]
        tk, ty, sh = u.tkey, T["ty"], T["sh"]
        ca, cb = T["conv"].format(d="a"), T["conv"].format(d="b")
        if u.kind == "pair":
            L.append(f"    for a in &v_{tk} {{ for b in &v_{tk} {{ println!(\"{u.req} {ty} {{}} {{}}\\t{{}}\\t{{}}\\tin\", {sh}(a), {sh}(b), "
                     f"guarded(|| impl_{u.uid}({ca}, {cb})), guarded(|| oracle_{u.uid}({ca}, {cb}))); }} }}")
        elif u.kind == "key2":
            keys = ", ".join(f"({p}u8, {q}u8)" for p, q in KEYS)
            L.append(f"    for a in &v_{tk} {{ for b in &v_{tk} {{ for (p1, p2) in [{keys}] {{ println!(\"{u.req} {ty} {{}} {{}} {{}} {{}}\\t{{}}\\t{{}}\\tin\", {sh}(a), {sh}(b), p1, p2, "
                     f"guarded(|| impl_{u.uid}({ca}, {cb}, p1, p2)), guarded(|| oracle_{u.uid}({ca}, {cb}, p1, p2))); }} }} }}")
        elif u.kind == "stream":
            vc = T["vconv"].format(d="d")
            L.append(f"    for a in &s_{tk} {{ for b in &s_{tk} {{ let ls: Vec<{T['V']}> = a.iter().map(|d| {vc}).collect(); let rs: Vec<{T['V']}> = b.iter().map(|d| {vc}).collect(); "
                     f"println!(\"{u.req} {ty} {{}} {{}}\\t{{}}\\t{{}}\\tin\", sh_stream(a, {sh}), sh_stream(b, {sh}), "
                     f"observed(|| impl_{u.uid}(&ls, &rs)), observed(|| oracle_{u.uid}(&ls, &rs))); }} }}")
        else:
            for i, (ta, tb) in enumerate(u.extra):
                L.append(f"    println!(\"{u.req} {ty} {ta} {tb}\\t{{}}\\t{{}}\\tin\", guarded(|| impl_{u.uid}({i})), guarded(|| oracle_{u.uid}({i})));")
    L.append("}")
    return "\n".join(L) + "\n"


def program_src(units, tier, seed):
    parts = [PRELUDE]
    for u in units:
        parts.append(u.impl_fn(stub=u.rejected))
        parts.append(u.oracle_fn())
    parts.append(main_src(units, tier, seed))
    return "\n".join(parts)


def check_individually(wd, units, stats):
    jobs = []
    for u in units:
        src = os.path.join(wd, f"one_{u.uid}.rs")
        with open(src, "w") as f:
            f.write(PRELUDE + "\n" + u.impl_fn())
        jobs.append((src, os.path.join(wd, f"one_{u.uid}.rmeta"), "metadata"))
    res = common.compile_many(jobs)
    for u, (rc, err) in zip(units, res):
        u.rejected = (rc != 0)
        u.stderr = err[-600:] if rc != 0 else ""
    stats["individual_compiles"] = stats.get("individual_compiles", 0) + len(units)


def generate(ctx):
    tier, seed = ctx["tier"], ctx["seed"]
    wd = common.workdir("c16")
    stats = {}
    rng = random.Random(seed ^ 0xC16)
    units = position_units(tier, rng) + side_effect_units()
    nchunks = 16
    chunks = [units[i::nchunks] for i in range(nchunks)]

    def build(tag):
        jobs = []
        for ci, ch in enumerate(chunks):
            src = os.path.join(wd, f"chunk{ci}{tag}.rs")
            with open(src, "w") as f:
                f.write(program_src(ch, tier, seed))
            jobs.append((src, os.path.join(wd, f"chunk{ci}{tag}.bin"), "link", ("-C", "opt-level=0")))
        return jobs, common.compile_many(jobs)

    jobs, res = build("")
    bad = [ci for ci, (rc, _) in enumerate(res) if rc != 0]
    if bad:
        # find the units rustc rejects, stub them (they answer `reject`), rebuild those chunks
        check_individually(wd, [u for ci in bad for u in chunks[ci]], stats)
        jobs2, res2 = build("r")
        for ci in bad:
            jobs[ci], res[ci] = jobs2[ci], res2[ci]
        still = [(ci, res[ci][1]) for ci in bad if res[ci][0] != 0]
        if still:
            raise RuntimeError("generated program does not compile although every unit was judged on its own: "
                               + still[0][1][-1500:])
    rows = []
    for ci, (src, out, _, _) in enumerate(jobs):
        rc, so, se = common.run_bin(out)
        if rc != 0:
            raise RuntimeError(f"generated program chunk {ci} exited {rc}: {se[-800:]}")
        for line in so.splitlines():
            p = line.split("\t")
            if len(p) != 4:
                raise RuntimeError("malformed line from generated program: " + line[:200])
            rows.append((p[0], p[1], p[2], p[3] == "in"))
    stats["units"] = len(units)
    stats["rows"] = len(rows)
    stats["units_rejected_by_rustc"] = sorted(u.req + " " + TYPES[u.tkey]["ty"] for u in units if u.rejected)[:60]
    stats["n_units_rejected_by_rustc"] = sum(1 for u in units if u.rejected)
    rej = [u for u in units if u.rejected]
    if rej:
        stats["first_rejection"] = rej[0].stderr
    ctx["extra"]["c16_programs"] = stats
    if ctx.get("only") is not None:
        rows = [r for r in rows if r[0] in ctx["only"]]
    return common.write_tsv(os.path.join(core.BUILD, "t_C16_c16progs.tsv"), rows)


if __name__ == "__main__":
    import sys, time
    t0 = time.time()
    ctx = {"tier": sys.argv[1] if len(sys.argv) > 1 else "quick", "seed": 20260929, "pid": "C16", "only": None, "extra": {}}
    p = generate(ctx)
    print(p, round(time.time() - t0, 1), "s", ctx["extra"])
