"""
C10: generated programs that expand the REAL iterator-DSL macros (eval!, for_each!, collect_const!)
on type-correct method chains and print, per chain x consumer x input, konst's value and the value of
the identical std chain (where std has one).

request:  chain <ad,ad,..|-> <consumer> <input>
scope:    in  = compared with std;   m = std has no such chain (does not type-check) or a documented
          exception applies: only implementation vs model is compared.

CLOSURE CALLS.  For a bounded sample of the chains (all of depth <= 2, a few hundred deeper ones) every
closure of the chain and of the consumer (and the loop body of for_each!) additionally records
(position of its method, argument) in a call log, with identical closure text in the konst macro and in
the std chain:
  calls <ads> <consumer> <input>               value|[pos:arg;pos:arg;..]
  hostile <ads> <consumer> <pos>:<arg> <input> the closure of method <pos> panics when called on <arg>:
                                               panic|[calls up to and including that one], or as `calls`
Methods are numbered from 0 = copied(); the consumer is the last one.  Poison points of `hostile` rows: calls
that occur in only one of the two logs, one call of the std log, and one (closure, source value) pair chosen
independently of both logs (a call that may or may not happen).
On the std side of the calls/hostile programs the SOURCE is `NoTra(s.iter().copied())`, a plain forwarding
wrapper (next / next_back / size_hint) that does not opt into std's internal TrustedRandomAccess shortcut.  With
it std runs the generic, documented adapter code; without it the shortcut elides closure calls irregularly:
`map(f).zip(short)` does not advance the first iterator once the second is exhausted (documented by std as
"at most one time": the generic code does it once, as konst does), and `map(f).skip(1).take(2).fold(..)` calls
`f` on the skipped element of `[0,5,6,7]` but not on that of `[0]`.  The value comparison (`chain` requests)
keeps the plain slice iterator.
"""
import os, random, itertools
from vlib.progs import common

# ---- shared closure library (the Lean driver has the same names: lean/Driver/C10.lean) ----------
# type tags: I = i64, P = (usize, i64) after enumerate, Z = (i64, i64) after zip, R = Range<i64>
MAPS = {"m1": "|x| x * 2 + 1", "m2": "|x| x - 3"}
PREDS_REF = {"p1": "|&x| x % 2 == 0", "p2": "|&x| x > 1", "p3": "|&x| x < 3"}       # filter/take_while/skip_while/find/rfind
PREDS_VAL = {"p1": "|x| x % 2 == 0", "p2": "|x| x > 1", "p3": "|x| x < 3"}          # all/any/position/rposition
FMAPS = {"fm1": "|x| if x % 3 != 0 { Some(x + 1) } else { None }"}
FLATS = {"f1": "|x| x..x + 2", "f2": "|x| 0..x.rem_euclid(3)"}
ZIPS = {"z1": [7, 8], "z2": [10, 11, 12, 13, 14, 15, 16, 17]}

# closures as (parameter pattern, logged argument expression, body): the plain text is `pat body`, the logging
# variant is `pat { cx.call(<position>, &(arg)); body }` (same text for konst and std)
CLOS = {}
for _k, _v in MAPS.items():
    CLOS["map:" + _k] = ("|x|", "x", _v[4:])
for _k in PREDS_REF:
    CLOS["ref:" + _k] = ("|&x|", "x", PREDS_REF[_k][5:])
    CLOS["val:" + _k] = ("|x|", "x", PREDS_VAL[_k][4:])
CLOS["fm:fm1"] = ("|x|", "x", FMAPS["fm1"][4:])
for _k, _v in FLATS.items():
    CLOS["flat:" + _k] = ("|x|", "x", _v[4:])
CLOS["map:mp"] = ("|(i, x)|", "(i, x)", "x * 10 + i as i64")
CLOS["ref:pp"] = ("|&(i, x)|", "(i, x)", "i % 2 == 0")
CLOS["map:mz"] = ("|(a, b)|", "(a, b)", "a * 100 + b")
CLOS["map:mr1"] = ("|x|", "x", "x..x + 2")
CLOS["fold:a1"] = ("|a, x|", "(a, x)", "(a * 3 + x).rem_euclid(1000003)")


def clos_text(key, pos=None):
    pat, arg, body = CLOS[key]
    if pos is None:
        return f"{pat} {body}"
    return f"{pat} {{ cx.call({pos}, &({arg})); {body} }}"


# (token, from type, to type, konst text, std text, closure key or None)
def adapters():
    A = []
    def cl(tok, f, t, method, key):
        A.append((tok, f, t, f"{method}({clos_text(key)})", f".{method}({clos_text(key)})", (method, key)))
    for k, v in MAPS.items():
        cl(f"map:{k}", "I", "I", "map", "map:" + k)
    for k in ("p1", "p2"):
        cl(f"filter:{k}", "I", "I", "filter", "ref:" + k)
    cl("filter_map:fm1", "I", "I", "filter_map", "fm:fm1")
    for k, v in FLATS.items():
        cl(f"flat_map:{k}", "I", "I", "flat_map", "flat:" + k)
    for n in (0, 1, 2, 5):
        for t in "IPZR":
            A.append((f"take:{n}", t, t, f"take({n})", f".take({n})", None))
    for n in (0, 1, 3):
        for t in "IPZ":
            A.append((f"skip:{n}", t, t, f"skip({n})", f".skip({n})", None))
    cl("take_while:p3", "I", "I", "take_while", "ref:p3")
    cl("skip_while:p3", "I", "I", "skip_while", "ref:p3")
    cl("skip_while:p1", "I", "I", "skip_while", "ref:p1")
    A.append(("enumerate", "I", "P", "enumerate()", ".enumerate()", None))
    cl("map:mp", "P", "I", "map", "map:mp")
    A.append(("filter:pp", "P", "P", "filter(|&(i, _)| i % 2 == 0)", ".filter(|&(i, _)| i % 2 == 0)", ("filter", "ref:pp")))
    for k, v in ZIPS.items():
        arr = ", ".join(f"{x}i64" for x in v)
        A.append((f"zip:{k}", "I", "Z", f"zip(konst::slice::iter_copied(&[{arr}]))", f".zip([{arr}].into_iter())", None))
    cl("map:mz", "Z", "I", "map", "map:mz")
    cl("map:mr1", "I", "R", "map", "map:mr1")
    A.append(("flatten", "R", "I", "flatten()", ".flatten()", None))
    for t in "IPZR":
        A.append(("rev", t, t, "rev()", ".rev()", None))
    return A


def logged_text(a, pos):
    """(konst text, std text) of adapter `a` with its closure logging its calls as position `pos`"""
    if a[5] is None:
        return a[3], a[4]
    method, key = a[5]
    return f"{method}({clos_text(key, pos)})", f".{method}({clos_text(key, pos)})"


ADS = adapters()
POSITIONAL = ("take:", "skip:", "zip:")

# (token, konst text, std text, reversing, needs)
CONSUMERS = [
    ("count", "count()", ".count()", False),
    ("all:p1", f"all({PREDS_VAL['p1']})", f".all({PREDS_VAL['p1']})", False),
    ("any:p2", f"any({PREDS_VAL['p2']})", f".any({PREDS_VAL['p2']})", False),
    ("find:p1", f"find({PREDS_REF['p1']})", f".find({PREDS_REF['p1']})", False),
    ("find_map:fm1", f"find_map({FMAPS['fm1']})", f".find_map({FMAPS['fm1']})", False),
    ("rfind:p1", f"rfind({PREDS_REF['p1']})", f".rfind({PREDS_REF['p1']})", True),
    ("fold:a1", "fold(1i64, |a, x| (a * 3 + x).rem_euclid(1000003))", ".fold(1i64, |a, x| (a * 3 + x).rem_euclid(1000003))", False),
    ("rfold:a1", "rfold(1i64, |a, x| (a * 3 + x).rem_euclid(1000003))", ".rfold(1i64, |a, x| (a * 3 + x).rem_euclid(1000003))", True),
    ("next", "next()", ".next()", False),
    ("nth:0", "nth(0)", ".nth(0)", False),
    ("nth:1", "nth(1)", ".nth(1)", False),
    ("nth:3", "nth(3)", ".nth(3)", False),
    ("position:p2", f"position({PREDS_VAL['p2']})", f".position({PREDS_VAL['p2']})", False),
    # documented: konst's rposition counts from the back = std's rev().position()
    ("rposition:p2", f"rposition({PREDS_VAL['p2']})", f".rev().position({PREDS_VAL['p2']})", True),
]
PREDS_VAL["p9"] = "|x| x == 9"
BIG_CONSUMERS = {c[0]: c for c in CONSUMERS}
BIG_CONSUMERS["position:p9"] = ("position:p9", "position(|x| x == 9)", ".position(|x| x == 9)", False)
BIG_CONSUMERS["rposition:p9"] = ("rposition:p9", "rposition(|x| x == 9)", ".rev().position(|x| x == 9)", True)
for _n in (299, 65536, 70001):
    BIG_CONSUMERS[f"nth:{_n}"] = (f"nth:{_n}", f"nth({_n})", f".nth({_n})", False)


CONS_CLOS = {"all": "val", "any": "val", "find": "ref", "find_map": "fm", "rfind": "ref",
             "position": "val", "rposition": "val"}


def cons_logged(c, pos):
    """(konst text, std text) of consumer `c` with its closure logging its calls as position `pos`"""
    tok, kt, st, rv = c
    name, _, arg = tok.partition(":")
    if name in CONS_CLOS:
        t = clos_text(CONS_CLOS[name] + ":" + arg, pos)
        if name == "rposition":
            return f"rposition({t})", f".rev().position({t})"
        return f"{name}({t})", f".{name}({t})"
    if name in ("fold", "rfold"):
        t = clos_text("fold:" + arg, pos)
        return f"{name}(1i64, {t})", f".{name}(1i64, {t})"
    return kt, st


def logged_chain_text(c):
    """(konst method list, std iterator expression) of chain `c` with logging closures"""
    ktext, sexpr = "", "NoTra(s.iter().copied())"
    for i, a in enumerate(c):
        k, st = logged_text(a, i + 1)
        ktext += ", " + k
        sexpr += st
    return ktext, sexpr


def ipositions(c, cons_tok):
    """positions of the closures whose argument is a plain source-typed number"""
    out = [i + 1 for i, a in enumerate(c) if a[5] is not None and a[1] == "I"]
    if cons_tok == "forEach" or cons_tok.split(":")[0] in CONS_CLOS:
        out.append(len(c) + 1)
    return out


def std_caps(chain):
    """(double_ended, exact_size) of the std iterator after the chain, or None if it does not
    type-check (a rev() applied to a non-double-ended iterator)"""
    de, es = True, True                      # slice.iter().copied()
    for tok in chain:
        name = tok.split(":")[0]
        if name == "rev":
            if not de:
                return None
        elif name in ("filter", "filter_map"):
            es = False
        elif name in ("flat_map", "flatten"):
            es = False                      # inner ranges are double-ended
        elif name in ("take", "skip", "enumerate"):
            de = de and es
        elif name == "zip":
            de = de and es                  # the zipped array iterator is DE + ES
        elif name in ("take_while", "skip_while"):
            de, es = False, False
    return de, es


def gen_chains(tier, rng):
    by_from = {}
    for a in ADS:
        by_from.setdefault(a[1], []).append(a)
    chains = []

    def rec(prefix, ty, depth, nrev):
        if ty == "I":
            chains.append(list(prefix))
        if depth == 0:
            return
        for a in by_from[ty]:
            r = nrev + (1 if a[0] == "rev" else 0)
            if r > 1:
                continue
            if a[0] == "rev" and prefix and prefix[-1][0] == "rev":
                continue
            rec(prefix + [a], a[2], depth - 1, r)

    full_depth = 2        # exhaustive up to depth 2 in both tiers (depth 3 = 6300 chains: > 10 min of rustc)
    rec([], "I", full_depth, 0)
    exhaustive = len(chains)
    # seeded sample of deeper chains
    want = 400 if tier == "quick" else 2500
    seen = {tuple(a[0] for a in c) for c in chains}
    tries = 0
    while want > 0 and tries < 200000:
        tries += 1
        depth = rng.choice([3, 4] if tier == "quick" else [3, 3, 4, 4, 5])
        c, ty, nrev = [], "I", 0
        for _ in range(depth):
            opts = [a for a in by_from[ty] if not (a[0] == "rev" and nrev >= 1)]
            a = rng.choice(opts)
            if a[0] == "rev":
                nrev += 1
            c.append(a)
            ty = a[2]
        if ty != "I":
            continue
        key = tuple(a[0] for a in c)
        if key in seen:
            continue
        seen.add(key)
        chains.append(c)
        want -= 1
    # a few LONG chains (depth 5-7; at most two item-multiplying adapters so that sizes stay bounded)
    want_long = 60 if tier == "quick" else 400
    tries = 0
    while want_long > 0 and tries < 200000:
        tries += 1
        depth = rng.choice([5, 6, 7])
        c, ty, nrev, nflat = [], "I", 0, 0
        for _ in range(depth):
            opts = [a for a in by_from[ty] if not (a[0] == "rev" and nrev >= 1)
                    and not (a[0].startswith(("flat_map", "map:mr1")) and nflat >= 2)]
            a = rng.choice(opts)
            if a[0] == "rev":
                nrev += 1
            if a[0].startswith(("flat_map", "map:mr1")):
                nflat += 1
            c.append(a)
            ty = a[2]
        if ty != "I":
            continue
        key = tuple(a[0] for a in c)
        if key in seen:
            continue
        seen.add(key)
        chains.append(c)
        want_long -= 1
    return chains, exhaustive


def inputs_small():
    out = [[]]
    for n in range(1, 5):
        for t in itertools.product(range(4), repeat=n):
            out.append(list(t))
    return out


CONST_INPUTS = [[], [1], [0, 1, 2, 3], [3, 1, 2, 0, 2]]

# LARGE cases: counters of take/skip/enumerate/position/nth far beyond the small scopes
# (chain tokens with konst/std text, consumer token, input as run-length spec [(value, count), ..])
BIG = [
    (["take:4294967296"], "forEach", [(1, 5), (2, 9)]),
    (["take:12884901890"], "count", [(3, 14)]),
    (["take:18446744073709551615"], "forEach", [(1, 3)]),
    (["skip:4294967299"], "next", [(2, 14)]),
    (["skip:4294967296", "take:3"], "forEach", [(2, 14)]),
    (["skip:3", "take:4294967297"], "count", [(2, 300)]),
    (["enumerate", "map:mp"], "forEach", [(1, 300)]),
    (["enumerate", "filter:pp", "map:mp"], "count", [(2, 70000)]),
    (["filter:p2", "enumerate", "map:mp"], "nth:299", [(3, 400)]),
    ([], "position:p9", [(0, 65536), (9, 1)]),
    ([], "position:p9", [(0, 70000)]),
    ([], "rposition:p9", [(9, 1), (0, 69999)]),
    (["map:m2"], "position:p9", [(0, 300), (12, 1), (0, 5)]),
    ([], "nth:65536", [(0, 65536), (7, 1), (0, 3)]),
    ([], "nth:70001", [(0, 70000)]),
    ([], "count", [(1, 70000)]),
    (["skip:65537"], "next", [(0, 65537), (5, 1)]),
    (["take:65537"], "count", [(0, 70000)]),
    (["flat_map:f1"], "count", [(1, 40000)]),
    (["enumerate", "map:mp", "rev"], "next", [(1, 300)]),
]


# REGRESSION corpus of the closure-call programs (emitted and run FIRST, independent of tier and seed):
# the shapes of repaired defects, with the poisoned calls that made them visible
#   F21 (fixed by 9827f8a): a closure-taking method before take(n) ran on one item more than in std
#   F22 (fixed by 7ecb606): with take(0) after flat_map/flatten the methods before it ran on the first item
# (chain tokens, consumer, inputs, poisoned calls `pos:arg`)
REGRESSIONS = [
    (["map:m2", "take:2"], "fold:a1", [[1, 2, 0], [0, 0, 0], [3]], ["1:0"]),          # F21: map(|x| 10 / x), take(2) over [1,2,0]
    (["map:m1", "take:1"], "forEach", [[0, 0], [1, 2, 3]], ["1:0", "1:2"]),
    (["filter:p2", "take:0"], "count", [[0], [2, 3]], ["1:0", "1:2"]),
    (["filter:p1", "take:1"], "next", [[0, 1, 2], [1, 0, 3, 2]], ["1:1", "1:3", "1:2"]),
    (["filter_map:fm1", "take:1"], "find:p1", [[1, 0], [2, 2, 0]], ["1:0", "1:2"]),
    (["take_while:p3", "take:2"], "all:p1", [[0, 0, 0], [2, 0, 5]], ["1:0", "1:5"]),
    (["skip_while:p3", "take:1"], "position:p2", [[0, 5, 1], [5, 7]], ["1:5", "1:7"]),
    (["flat_map:f2", "take:2"], "any:p2", [[1, 1, 0], [2, 0, 2]], ["1:0", "1:2"]),
    (["map:m1", "skip:1", "take:1", "map:m2"], "nth:1", [[0, 1, 2, 3]], ["1:2", "1:3"]),
    (["flat_map:f1", "take:0"], "count", [[1, 2], [0]], ["1:1", "1:0"]),                  # F22
    (["map:m1", "flat_map:f1", "take:0"], "fold:a1", [[1, 2]], ["1:1", "2:3"]),
    (["map:mr1", "flatten", "take:0"], "forEach", [[1, 2]], ["1:1"]),
    (["filter:p2", "flat_map:f2", "map:m1", "take:0"], "next", [[0, 3, 2]], ["1:0", "1:3", "2:3"]),
    (["flat_map:f1", "flat_map:f2", "take:0"], "count", [[1, 2]], ["1:1", "2:1"]),
    (["flat_map:f1", "take:1"], "count", [[1, 2, 3]], ["1:2", "1:3"]),
]


def scope_of(toks, cons_tok, cons_rev):
    """returns (scope, has_std)"""
    has_rev = "rev" in toks or cons_rev
    if has_rev:
        idx = toks.index("rev") if "rev" in toks else len(toks)
        before = toks[:idx]
        if any(t.startswith(POSITIONAL) for t in before):
            return "in"          # F7 region: compared with std; matched against known_findings.jsonl
        if "enumerate" in before:
            return "m"           # documented exception (numbers in iteration order): model only
    return "in"


def generate(ctx):
    tier, seed = ctx["tier"], ctx["seed"]
    rng = random.Random(seed)
    d = common.workdir("C10")
    chains, exhaustive = gen_chains(tier, rng)
    small = inputs_small()
    few = ([x for x in small if len(x) <= 2] + [[rng.randrange(4) for _ in range(rng.choice([3, 4, 5, 6]))] for _ in range(20)]
           # long inputs over a larger alphabet
           + [[rng.randrange(10) for _ in range(rng.choice([9, 12, 16, 23]))] for _ in range(8)])

    funcs = []   # rust source of each function + its driver call
    nprog = 0
    for ci, c in enumerate(chains):
        toks = [a[0] for a in c]
        ktext = "".join(", " + a[3] for a in c)
        stext = "".join(a[4] for a in c)
        caps = std_caps(toks)
        desc = ",".join(toks) if toks else "-"
        depth = len(c)
        # consumers: for_each on every chain; eval consumers on all shallow chains, 3 sampled on deep ones
        if depth <= 1:
            conss = list(CONSUMERS)
        else:
            conss = rng.sample(CONSUMERS, 3)
        use_inputs = "SMALL" if depth <= 1 else "FEW"
        # for_each
        std_ok = caps is not None
        sc = scope_of(toks, "forEach", False)
        body_k = f"let mut log: Vec<i64> = Vec::new(); konst::iter::for_each!{{x in s, copied(){ktext} => log.push(x);}} items(&log)"
        body_s = f"let mut log: Vec<i64> = Vec::new(); for x in s.iter().copied(){stext} {{ log.push(x); }} items(&log)" if std_ok else 'let _ = s; "?".to_string()'
        funcs.append((f"chain {desc} forEach", body_k, body_s, sc if std_ok else "m", use_inputs))
        for tok, kt, st, rv in conss:
            nrev = toks.count("rev") + (1 if rv else 0)
            if nrev > 1:
                continue
            ok = std_ok
            if ok and rv:
                de, es = caps
                if not de or (tok.startswith("rposition") and not es):
                    ok = False
            sc = scope_of(toks, tok, rv)
            body_k = f"show(konst::iter::eval!(s, copied(){ktext}, {kt}))"
            body_s = f"show(s.iter().copied(){stext}{st})" if ok else 'let _ = s; "?".to_string()'
            funcs.append((f"chain {desc} {tok}", body_k, body_s, sc if ok else "m", use_inputs))
        # collect_const (const context, fixed inputs)
        if depth <= 2 or rng.random() < 0.3:
            for inp in CONST_INPUTS:
                arr = ", ".join(f"{x}i64" for x in inp)
                body_k = f"const A: &[i64] = &konst::iter::collect_const!(i64 => &[{arr}] as &[i64], copied(){ktext}); let _ = s; items(A)"
                body_s = f"let a: &[i64] = &[{arr}]; let v: Vec<i64> = a.iter().copied(){stext}.collect(); let _ = s; items(&v)" if std_ok else 'let _ = s; "?".to_string()'
                inp_s = "[" + ";".join(map(str, inp)) + "]"
                funcs.append((f"chain {desc} collect", body_k, body_s, (scope_of(toks, "collect", False) if std_ok else "m"), "CONST:" + inp_s))

    # LARGE cases (hoisted counters far beyond the small scopes)
    by_tok = {}
    for a in ADS:
        by_tok.setdefault(a[0], a)
    def big_ad(tok):
        if tok in by_tok:
            return by_tok[tok]
        name, n = tok.split(":")
        return (tok, "I", "I", f"{name}({n})", f".{name}({n})")
    for toks, ctok, spec in BIG:
        c = [big_ad(x) for x in toks]
        ktext = "".join(", " + a[3] for a in c)
        stext = "".join(a[4] for a in c)
        desc = ",".join(toks) if toks else "-"
        build = "let mut v: Vec<i64> = Vec::new(); " + " ".join(f"v.extend(std::iter::repeat({val}i64).take({cnt}));" for val, cnt in spec)
        inp_s = "[" + ";".join(f"{val}*{cnt}" for val, cnt in spec) + "]"
        sc = scope_of(toks, ctok, BIG_CONSUMERS[ctok][3] if ctok in BIG_CONSUMERS else False)
        if ctok == "forEach":
            body_k = f"{build} let s: &[i64] = &v; let mut log: Vec<i64> = Vec::new(); konst::iter::for_each!{{x in s, copied(){ktext} => log.push(x);}} items(&log)"
            body_s = f"{build} let s: &[i64] = &v; let mut log: Vec<i64> = Vec::new(); for x in s.iter().copied(){stext} {{ log.push(x); }} items(&log)"
        else:
            _, kt, st, rv = BIG_CONSUMERS[ctok]
            body_k = f"{build} let s: &[i64] = &v; show(konst::iter::eval!(s, copied(){ktext}, {kt}))"
            body_s = f"{build} let s: &[i64] = &v; show(s.iter().copied(){stext}{st})"
        funcs.append((f"chain {desc} {ctok}", "let _ = s; " + body_k, "let _ = s; " + body_s, sc, "CONST:" + inp_s))

    # closure-call variants (bounded sample: rustc-bound)
    lrng = random.Random(seed + 101)
    n_deep = 160 if tier == "quick" else 1000
    lchains = chains[:exhaustive] + lrng.sample(chains[exhaustive:], min(n_deep, len(chains) - exhaustive))
    ntiny = len([x for x in small if len(x) <= 2])
    extra_in = [[lrng.choice([0, 1, 2, 3, 5, 7]) for _ in range(lrng.choice([3, 4, 5, 6, 7]))] for _ in range(16)]
    lfew = [x for x in small if len(x) <= 1] + few[ntiny:] + extra_in
    small3 = [x for x in small if len(x) <= 3] + extra_in
    lfuncs = []   # (request tail, konst body, std body or None, scope, inputs, positions of number-typed closures)
    for c in lchains:
        toks = [a[0] for a in c]
        caps = std_caps(toks)
        desc = ",".join(toks) if toks else "-"
        ktext, sexpr = logged_chain_text(c)
        cpos = len(c) + 1
        std_ok = caps is not None
        use_inputs = "SMALL3" if len(c) <= 1 else "LFEW"
        sc = scope_of(toks, "forEach", False)
        body_k = f"let mut out: Vec<i64> = Vec::new(); konst::iter::for_each!{{x in s, copied(){ktext} => cx.call({cpos}, &x); out.push(x);}} items(&out)"
        body_s = f"let mut out: Vec<i64> = Vec::new(); for x in {sexpr} {{ cx.call({cpos}, &x); out.push(x); }} items(&out)"
        lfuncs.append((f"{desc} forEach", body_k, body_s if std_ok else None, sc if std_ok else "m", use_inputs, ipositions(c, "forEach")))
        conss = list(CONSUMERS) if len(c) <= 1 else lrng.sample(CONSUMERS, 2)
        for cc in conss:
            tok, kt, st, rv = cc
            if toks.count("rev") + (1 if rv else 0) > 1:
                continue
            ok = std_ok
            if ok and rv:
                de, es = caps
                if not de or (tok.startswith("rposition") and not es):
                    ok = False
            sc = scope_of(toks, tok, rv)
            kt, st = cons_logged(cc, cpos)
            lfuncs.append((f"{desc} {tok}", f"show(konst::iter::eval!(s, copied(){ktext}, {kt}))",
                           f"show({sexpr}{st})" if ok else None, sc if ok else "m", use_inputs, ipositions(c, tok)))

    # regression corpus (own binary, its rows come first)
    by_tok0 = {}
    for a in ADS:
        by_tok0.setdefault(a[0], a)
    cons_by_tok = {c[0]: c for c in CONSUMERS}
    regfuncs = []
    for toks, ctok, inps, pins in REGRESSIONS:
        c = [by_tok0[t] for t in toks]
        ktext, sexpr = logged_chain_text(c)
        cpos = len(c) + 1
        desc = ",".join(toks)
        if ctok == "forEach":
            bk = f"let mut out: Vec<i64> = Vec::new(); konst::iter::for_each!{{x in s, copied(){ktext} => cx.call({cpos}, &x); out.push(x);}} items(&out)"
            bs = f"let mut out: Vec<i64> = Vec::new(); for x in {sexpr} {{ cx.call({cpos}, &x); out.push(x); }} items(&out)"
        else:
            kt, st = cons_logged(cons_by_tok[ctok], cpos)
            bk = f"show(konst::iter::eval!(s, copied(){ktext}, {kt}))"
            bs = f"show({sexpr}{st})"
        regfuncs.append((f"{desc} {ctok}", bk, bs, scope_of(toks, ctok, False), inps, pins))

    # split into modules compiled in parallel
    nmod = 16
    mods = [[] for _ in range(nmod)]
    for i, f in enumerate(funcs):
        mods[i % nmod].append(f)
    lmods = [[] for _ in range(nmod)]
    for i, f in enumerate(lfuncs):
        lmods[i % nmod].append(f)
    prelude = r'''
#![allow(unused, clippy::all)]
use std::fmt::Write as _;
use std::cell::RefCell;
use std::panic::{catch_unwind, AssertUnwindSafe};
// ---- closure-call log ------------------------------------------------------------------------
trait Enc { fn enc(&self) -> String; }
impl Enc for i64 { fn enc(&self) -> String { format!("{}", self) } }
impl Enc for (usize, i64) { fn enc(&self) -> String { format!("({},{})", self.0, self.1) } }
impl Enc for (i64, i64) { fn enc(&self) -> String { format!("({},{})", self.0, self.1) } }
struct Ctx { log: RefCell<Vec<String>>, hp: usize, hk: String }
impl Ctx {
    // called first thing in every closure body: record (method position, argument); panic if poisoned
    fn call<T: Enc>(&self, pos: usize, a: &T) {
        let e = a.enc();
        let hit = pos == self.hp && e == self.hk;
        self.log.borrow_mut().push(format!("{}:{}", pos, e));
        if hit { panic!("poisoned closure call"); }
    }
}
type LF = fn(&[i64], &Ctx) -> String;
fn run(f: LF, s: &[i64], hp: usize, hk: &str) -> String {
    let cx = Ctx { log: RefCell::new(Vec::new()), hp, hk: hk.to_string() };
    let r = catch_unwind(AssertUnwindSafe(|| f(s, &cx)));
    let log = cx.log.into_inner();
    format!("{}|[{}]", match r { Ok(v) => v, Err(_) => "panic".to_string() }, log.join(";"))
}
fn log_of(r: &str) -> Vec<String> {
    let l = &r[r.find('|').unwrap() + 2..r.len() - 1];
    if l.is_empty() { vec![] } else { l.split(';').map(|x| x.to_string()).collect() }
}
fn both(req: &str, k: LF, st: Option<LF>, s: &[i64], sc: &str, ipos: &[usize], pins: &[&str]) {
    let kr = run(k, s, usize::MAX, "");
    let sr = st.map(|f| run(f, s, usize::MAX, ""));
    println!("calls {} {}\t{}\t{}\t{}", req, inp_s(s), kr, sr.as_deref().unwrap_or("?"), sc);
    let kl = log_of(&kr);
    let sl = sr.as_ref().map(|r| log_of(r));
    let mut cand: Vec<String> = pins.iter().map(|x| x.to_string()).collect();   // explicitly requested poisoned calls
    let npin = cand.len();
    if let Some(sl) = &sl {
        // calls that occur (more often) in one log than in the other
        let mut cnt: std::collections::BTreeMap<&str, i64> = std::collections::BTreeMap::new();
        for e in kl.iter() { *cnt.entry(e).or_insert(0) += 1; }
        for e in sl.iter() { *cnt.entry(e).or_insert(0) -= 1; }
        for e in kl.iter().chain(sl.iter()) { if cnt[e.as_str()] != 0 && !cand.contains(e) && cand.len() < npin + 2 { cand.push(e.clone()); } }
    }
    let mut h: u64 = 0xcbf29ce484222325;
    for b in req.bytes().chain(s.iter().map(|x| *x as u8)) { h = (h ^ b as u64).wrapping_mul(0x100000001b3); }
    let base = sl.as_ref().unwrap_or(&kl);
    if !base.is_empty() { let e = &base[(h % base.len() as u64) as usize]; if !cand.contains(e) { cand.push(e.clone()); } }
    if !ipos.is_empty() && !s.is_empty() {
        // a (closure, source value) pair chosen independently of both logs
        let e = format!("{}:{}", ipos[((h >> 16) % ipos.len() as u64) as usize], s[((h >> 32) % s.len() as u64) as usize]);
        if !cand.contains(&e) && cand.len() < npin + 3 { cand.push(e); }
    }
    for e in cand.iter() {
        let (hp, hk) = e.split_once(':').unwrap();
        let hp: usize = hp.parse().unwrap();
        let kr = run(k, s, hp, hk);
        let sr = st.map(|f| run(f, s, hp, hk));
        println!("hostile {} {} {}\t{}\t{}\t{}", req, e, inp_s(s), kr, sr.as_deref().unwrap_or("?"), sc);
    }
}
// the std source without the TrustedRandomAccess shortcut (see the module docstring)
struct NoTra<I>(I);
impl<I: Iterator> Iterator for NoTra<I> {
    type Item = I::Item;
    fn next(&mut self) -> Option<I::Item> { self.0.next() }
    fn size_hint(&self) -> (usize, Option<usize>) { self.0.size_hint() }
}
impl<I: DoubleEndedIterator> DoubleEndedIterator for NoTra<I> { fn next_back(&mut self) -> Option<I::Item> { self.0.next_back() } }
impl<I: ExactSizeIterator> ExactSizeIterator for NoTra<I> {}
// ----------------------------------------------------------------------------------------------
fn items(v: &[i64]) -> String { let mut s = String::from("["); for (i, x) in v.iter().enumerate() { if i > 0 { s.push(';'); } write!(s, "{}", x).unwrap(); } s.push(']'); s }
trait Show { fn show(&self) -> String; }
impl Show for bool { fn show(&self) -> String { if *self { "t".into() } else { "f".into() } } }
impl Show for usize { fn show(&self) -> String { format!("{}", self) } }
impl Show for i64 { fn show(&self) -> String { format!("{}", self) } }
impl Show for Option<i64> { fn show(&self) -> String { match self { None => "none".into(), Some(x) => format!("some:{}", x) } } }
impl Show for Option<usize> { fn show(&self) -> String { match self { None => "none".into(), Some(x) => format!("some:{}", x) } } }
fn show<T: Show>(x: T) -> String { x.show() }
fn parse_inputs(s: &str) -> Vec<Vec<i64>> { s.split('|').map(|w| if w.is_empty() { vec![] } else { w.split(',').map(|t| t.parse().unwrap()).collect() }).collect() }
fn inp_s(v: &[i64]) -> String { items(v) }
'''
    def enc(inps):
        return "|".join(",".join(map(str, x)) for x in inps)
    jobs, bins = [], []
    for mi, fs in enumerate(mods):
        if not fs:
            continue
        src = [prelude]
        calls = []
        for fi, (req, bk, bs, sc, inputs) in enumerate(fs):
            src.append(f"fn k_{fi}(s: &[i64]) -> String {{ {bk} }}")
            src.append(f"fn s_{fi}(s: &[i64]) -> String {{ {bs} }}")
            if inputs.startswith("CONST:"):
                calls.append(f'    println!("{req} {inputs[6:]}\\t{{}}\\t{{}}\\t{sc}", k_{fi}(&[]), s_{fi}(&[]));')
            else:
                var = "small" if inputs == "SMALL" else "few"
                calls.append(f'    for s in {var}.iter() {{ println!("{req} {{}}\\t{{}}\\t{{}}\\t{sc}", inp_s(s), k_{fi}(s), s_{fi}(s)); }}')
        for fi, (req, bk, bs, sc, inputs, ipos) in enumerate(lmods[mi]):
            src.append(f"fn lk_{fi}(s: &[i64], cx: &Ctx) -> String {{ {bk} }}")
            if bs is not None:
                src.append(f"fn ls_{fi}(s: &[i64], cx: &Ctx) -> String {{ {bs} }}")
            var = "small3" if inputs == "SMALL3" else "lfew"
            sfn = f"Some(ls_{fi})" if bs is not None else "None"
            calls.append(f'    for s in {var}.iter() {{ both("{req}", lk_{fi}, {sfn}, s, "{sc}", &{ipos}, &[]); }}')
        src.append("fn main() {")
        src.append("    std::panic::set_hook(Box::new(|_| {}));")
        src.append(f'    let small = parse_inputs("{enc(small)}");')
        src.append(f'    let few = parse_inputs("{enc(few)}");')
        src.append(f'    let small3 = parse_inputs("{enc(small3)}");')
        src.append(f'    let lfew = parse_inputs("{enc(lfew)}");')
        src.extend(calls)
        src.append("}")
        p = os.path.join(d, f"m{mi}.rs")
        open(p, "w").write("\n".join(src))
        jobs.append((p, os.path.join(d, f"m{mi}"), "link"))
        bins.append(os.path.join(d, f"m{mi}"))
    src = [prelude]
    calls = []
    for fi, (req, bk, bs, sc, inps, pins) in enumerate(regfuncs):
        src.append(f"fn lk_{fi}(s: &[i64], cx: &Ctx) -> String {{ {bk} }}")
        src.append(f"fn ls_{fi}(s: &[i64], cx: &Ctx) -> String {{ {bs} }}")
        pins_s = "[" + ", ".join('"%s"' % x for x in pins) + "]"
        calls.append(f'    for s in parse_inputs("{enc(inps)}").iter() {{ both("{req}", lk_{fi}, Some(ls_{fi}), s, "{sc}", &[], &{pins_s}); }}')
    src.append("fn main() {")
    src.append("    std::panic::set_hook(Box::new(|_| {}));")
    src.extend(calls)
    src.append("}")
    p = os.path.join(d, "mreg.rs")
    open(p, "w").write("\n".join(src))
    jobs.insert(0, (p, os.path.join(d, "mreg"), "link"))
    bins.insert(0, os.path.join(d, "mreg"))
    res = common.compile_many(jobs)
    for (rc, err), j in zip(res, jobs):
        if rc != 0:
            raise RuntimeError(f"generated program {j[0]} does not compile against /repo: {err[:3000]}")
    tsv = os.path.join(d, "c10.tsv")
    import concurrent.futures
    with open(tsv, "w") as out, concurrent.futures.ThreadPoolExecutor(max_workers=8) as ex:
        for b, (rc, so, se) in zip(bins, ex.map(lambda b: common.run_bin(b, timeout=600), bins)):
            if rc != 0:
                raise RuntimeError(f"{b} exited {rc}: {se[:2000]}")
            out.write(so)
    ctx["extra"]["programs"] = len(funcs)
    ctx["extra"]["closure_call_programs"] = len(lfuncs)
    ctx["extra"]["closure_call_chains"] = len(lchains)
    ctx["extra"]["closure_call_regressions"] = len(regfuncs)
    ctx["extra"]["chains"] = len(chains)
    ctx["extra"]["chains_exhaustive_depth"] = 2
    ctx["extra"]["chains_exhaustive"] = exhaustive
    ctx["extra"]["max_chain_depth"] = max(len(c) for c in chains)
    return tsv
