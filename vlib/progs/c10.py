"""
C10: generated programs that expand the REAL iterator-DSL macros (eval!, for_each!, collect_const!)
on type-correct method chains and print, per chain x consumer x input, konst's value and the value of
the identical std chain (where std has one).

request:  chain <ad,ad,..|-> <consumer> <input>
scope:    in  = compared with std;   m = std has no such chain (does not type-check) or a documented
          exception applies: only implementation vs model is compared.
"""
import os, random, itertools
from vlib.progs import common

# ---- shared closure library (the Lean driver has the same names: lean/Driver/C10.lean) ----------
# type tags: I = i64, P = (usize, i64) after enumerate, Z = (i64, i64) after zip, R = Range<i64>
MAPS = {"m1": "|x| x * 2 + 1", "m2": "|x| x - 3"}
PREDS_REF = {"p1": "|&x| x % 2 == 0", "p2": "|&x| x > 1", "p3": "|&x| x < 3"}       # filter/take_while/skip_while/find/rfind
PREDS_VAL = {"p1": "|x| x % 2 == 0", "p2": "|x| x > 1", "p3": "|x| x < 3"}          # all/any/position/rposition
FMAPS = {"fm1": "|x| if x % 3 != 0 { Some(x + 1) } else { None }"}
FLATS = {"f1": "|x| x..x + 2", "f2": "|x| 0..x.rem_euclid(3)"}
ZIPS = {"z1": [7, 8], "z2": [10, 11, 12, 13, 14, 15, 16, 17]}

# (token, from type, to type, konst text, std text)
def adapters():
    A = []
    for k, v in MAPS.items():
        A.append((f"map:{k}", "I", "I", f"map({v})", f".map({v})"))
    for k in ("p1", "p2"):
        A.append((f"filter:{k}", "I", "I", f"filter({PREDS_REF[k]})", f".filter({PREDS_REF[k]})"))
    A.append(("filter_map:fm1", "I", "I", f"filter_map({FMAPS['fm1']})", f".filter_map({FMAPS['fm1']})"))
    for k, v in FLATS.items():
        A.append((f"flat_map:{k}", "I", "I", f"flat_map({v})", f".flat_map({v})"))
    for n in (0, 1, 2, 5):
        for t in "IPZR":
            A.append((f"take:{n}", t, t, f"take({n})", f".take({n})"))
    for n in (0, 1, 3):
        for t in "IPZ":
            A.append((f"skip:{n}", t, t, f"skip({n})", f".skip({n})"))
    A.append(("take_while:p3", "I", "I", f"take_while({PREDS_REF['p3']})", f".take_while({PREDS_REF['p3']})"))
    A.append(("skip_while:p3", "I", "I", f"skip_while({PREDS_REF['p3']})", f".skip_while({PREDS_REF['p3']})"))
    A.append(("skip_while:p1", "I", "I", f"skip_while({PREDS_REF['p1']})", f".skip_while({PREDS_REF['p1']})"))
    A.append(("enumerate", "I", "P", "enumerate()", ".enumerate()"))
    A.append(("map:mp", "P", "I", "map(|(i, x)| x * 10 + i as i64)", ".map(|(i, x)| x * 10 + i as i64)"))
    A.append(("filter:pp", "P", "P", "filter(|&(i, _)| i % 2 == 0)", ".filter(|&(i, _)| i % 2 == 0)"))
    for k, v in ZIPS.items():
        arr = ", ".join(f"{x}i64" for x in v)
        A.append((f"zip:{k}", "I", "Z", f"zip(konst::slice::iter_copied(&[{arr}]))", f".zip([{arr}].into_iter())"))
    A.append(("map:mz", "Z", "I", "map(|(a, b)| a * 100 + b)", ".map(|(a, b)| a * 100 + b)"))
    A.append(("map:mr1", "I", "R", "map(|x| x..x + 2)", ".map(|x| x..x + 2)"))
    A.append(("flatten", "R", "I", "flatten()", ".flatten()"))
    for t in "IPZR":
        A.append(("rev", t, t, "rev()", ".rev()"))
    return A


ADS = adapters()
POSITIONAL = ("take:", "skip:", "zip:")

# (token, konst text, std text, reversing, needs)
CONSUMERS = [
    ("count", "count()", ".count()", False),
    ("all:p1", f"all({PREDS_VAL['p1']})", f".all({PREDS_VAL['p1']})", False),
    ("any:p2", f"any({PREDS_VAL['p2']})", f".any({PREDS_VAL['p2']})", False),
    ("find:p1", f"find({PREDS_REF['p1']})", f".find({PREDS_REF['p1']})", False),
    ("find_map:fm1", f"find_map({FMAPS['fm1']})", f".find_map({FMAPS['fm1']})", False),
    ("rfind:p1", f"rfind({PREDS_REF['p1']})", f".rfind({PREDS_REF['p1']})", True),
    ("fold:a1", "fold(1i64, |a, x| (a * 3 + x).rem_euclid(1000003))", ".fold(1i64, |a, x| (a * 3 + x).rem_euclid(1000003))", False),
    ("rfold:a1", "rfold(1i64, |a, x| (a * 3 + x).rem_euclid(1000003))", ".rfold(1i64, |a, x| (a * 3 + x).rem_euclid(1000003))", True),
    ("next", "next()", ".next()", False),
    ("nth:0", "nth(0)", ".nth(0)", False),
    ("nth:1", "nth(1)", ".nth(1)", False),
    ("nth:3", "nth(3)", ".nth(3)", False),
    ("position:p2", f"position({PREDS_VAL['p2']})", f".position({PREDS_VAL['p2']})", False),
    # documented: konst's rposition counts from the back = std's rev().position()
    ("rposition:p2", f"rposition({PREDS_VAL['p2']})", f".rev().position({PREDS_VAL['p2']})", True),
]
PREDS_VAL["p9"] = "|x| x == 9"
BIG_CONSUMERS = {c[0]: c for c in CONSUMERS}
BIG_CONSUMERS["position:p9"] = ("position:p9", "position(|x| x == 9)", ".position(|x| x == 9)", False)
BIG_CONSUMERS["rposition:p9"] = ("rposition:p9", "rposition(|x| x == 9)", ".rev().position(|x| x == 9)", True)
for _n in (299, 65536, 70001):
    BIG_CONSUMERS[f"nth:{_n}"] = (f"nth:{_n}", f"nth({_n})", f".nth({_n})", False)


def std_caps(chain):
    """(double_ended, exact_size) of the std iterator after the chain, or None if it does not
    type-check (a rev() applied to a non-double-ended iterator)"""
    de, es = True, True                      # slice.iter().copied()
    for tok in chain:
        name = tok.split(":")[0]
        if name == "rev":
            if not de:
                return None
        elif name in ("filter", "filter_map"):
            es = False
        elif name in ("flat_map", "flatten"):
            es = False                      # inner ranges are double-ended
        elif name in ("take", "skip", "enumerate"):
            de = de and es
        elif name == "zip":
            de = de and es                  # the zipped array iterator is DE + ES
        elif name in ("take_while", "skip_while"):
            de, es = False, False
    return de, es


def gen_chains(tier, rng):
    by_from = {}
    for a in ADS:
        by_from.setdefault(a[1], []).append(a)
    chains = []

    def rec(prefix, ty, depth, nrev):
        if ty == "I":
            chains.append(list(prefix))
        if depth == 0:
            return
        for a in by_from[ty]:
            r = nrev + (1 if a[0] == "rev" else 0)
            if r > 1:
                continue
            if a[0] == "rev" and prefix and prefix[-1][0] == "rev":
                continue
            rec(prefix + [a], a[2], depth - 1, r)

    full_depth = 2        # exhaustive up to depth 2 in both tiers (depth 3 = 6300 chains: > 10 min of rustc)
    rec([], "I", full_depth, 0)
    exhaustive = len(chains)
    # seeded sample of deeper chains
    want = 400 if tier == "quick" else 2500
    seen = {tuple(a[0] for a in c) for c in chains}
    tries = 0
    while want > 0 and tries < 200000:
        tries += 1
        depth = rng.choice([3, 4] if tier == "quick" else [3, 3, 4, 4, 5])
        c, ty, nrev = [], "I", 0
        for _ in range(depth):
            opts = [a for a in by_from[ty] if not (a[0] == "rev" and nrev >= 1)]
            a = rng.choice(opts)
            if a[0] == "rev":
                nrev += 1
            c.append(a)
            ty = a[2]
        if ty != "I":
            continue
        key = tuple(a[0] for a in c)
        if key in seen:
            continue
        seen.add(key)
        chains.append(c)
        want -= 1
    # a few LONG chains (depth 5-7; at most two item-multiplying adapters so that sizes stay bounded)
    want_long = 60 if tier == "quick" else 400
    tries = 0
    while want_long > 0 and tries < 200000:
        tries += 1
        depth = rng.choice([5, 6, 7])
        c, ty, nrev, nflat = [], "I", 0, 0
        for _ in range(depth):
            opts = [a for a in by_from[ty] if not (a[0] == "rev" and nrev >= 1)
                    and not (a[0].startswith(("flat_map", "map:mr1")) and nflat >= 2)]
            a = rng.choice(opts)
            if a[0] == "rev":
                nrev += 1
            if a[0].startswith(("flat_map", "map:mr1")):
                nflat += 1
            c.append(a)
            ty = a[2]
        if ty != "I":
            continue
        key = tuple(a[0] for a in c)
        if key in seen:
            continue
        seen.add(key)
        chains.append(c)
        want_long -= 1
    return chains, exhaustive


def inputs_small():
    out = [[]]
    for n in range(1, 5):
        for t in itertools.product(range(4), repeat=n):
            out.append(list(t))
    return out


CONST_INPUTS = [[], [1], [0, 1, 2, 3], [3, 1, 2, 0, 2]]

# LARGE cases: counters of take/skip/enumerate/position/nth far beyond the small scopes
# (chain tokens with konst/std text, consumer token, input as run-length spec [(value, count), ..])
BIG = [
    (["take:4294967296"], "forEach", [(1, 5), (2, 9)]),
    (["take:12884901890"], "count", [(3, 14)]),
    (["take:18446744073709551615"], "forEach", [(1, 3)]),
    (["skip:4294967299"], "next", [(2, 14)]),
    (["skip:4294967296", "take:3"], "forEach", [(2, 14)]),
    (["skip:3", "take:4294967297"], "count", [(2, 300)]),
    (["enumerate", "map:mp"], "forEach", [(1, 300)]),
    (["enumerate", "filter:pp", "map:mp"], "count", [(2, 70000)]),
    (["filter:p2", "enumerate", "map:mp"], "nth:299", [(3, 400)]),
    ([], "position:p9", [(0, 65536), (9, 1)]),
    ([], "position:p9", [(0, 70000)]),
    ([], "rposition:p9", [(9, 1), (0, 69999)]),
    (["map:m2"], "position:p9", [(0, 300), (12, 1), (0, 5)]),
    ([], "nth:65536", [(0, 65536), (7, 1), (0, 3)]),
    ([], "nth:70001", [(0, 70000)]),
    ([], "count", [(1, 70000)]),
    (["skip:65537"], "next", [(0, 65537), (5, 1)]),
    (["take:65537"], "count", [(0, 70000)]),
    (["flat_map:f1"], "count", [(1, 40000)]),
    (["enumerate", "map:mp", "rev"], "next", [(1, 300)]),
]


def scope_of(toks, cons_tok, cons_rev):
    """returns (scope, has_std)"""
    has_rev = "rev" in toks or cons_rev
    if has_rev:
        idx = toks.index("rev") if "rev" in toks else len(toks)
        before = toks[:idx]
        if any(t.startswith(POSITIONAL) for t in before):
            return "in"          # F7 region: compared with std; matched against known_findings.jsonl
        if "enumerate" in before:
            return "m"           # documented exception (numbers in iteration order): model only
    return "in"


def generate(ctx):
    tier, seed = ctx["tier"], ctx["seed"]
    rng = random.Random(seed)
    d = common.workdir("C10")
    chains, exhaustive = gen_chains(tier, rng)
    small = inputs_small()
    few = ([x for x in small if len(x) <= 2] + [[rng.randrange(4) for _ in range(rng.choice([3, 4, 5, 6]))] for _ in range(20)]
           # long inputs over a larger alphabet
           + [[rng.randrange(10) for _ in range(rng.choice([9, 12, 16, 23]))] for _ in range(8)])

    funcs = []   # rust source of each function + its driver call
    nprog = 0
    for ci, c in enumerate(chains):
        toks = [a[0] for a in c]
        ktext = "".join(", " + a[3] for a in c)
        stext = "".join(a[4] for a in c)
        caps = std_caps(toks)
        desc = ",".join(toks) if toks else "-"
        depth = len(c)
        # consumers: for_each on every chain; eval consumers on all shallow chains, 3 sampled on deep ones
        if depth <= 1:
            conss = list(CONSUMERS)
        else:
            conss = rng.sample(CONSUMERS, 3)
        use_inputs = "SMALL" if depth <= 1 else "FEW"
        # for_each
        std_ok = caps is not None
        sc = scope_of(toks, "forEach", False)
        body_k = f"let mut log: Vec<i64> = Vec::new(); konst::iter::for_each!{{x in s, copied(){ktext} => log.push(x);}} items(&log)"
        body_s = f"let mut log: Vec<i64> = Vec::new(); for x in s.iter().copied(){stext} {{ log.push(x); }} items(&log)" if std_ok else 'let _ = s; "?".to_string()'
        funcs.append((f"chain {desc} forEach", body_k, body_s, sc if std_ok else "m", use_inputs))
        for tok, kt, st, rv in conss:
            nrev = toks.count("rev") + (1 if rv else 0)
            if nrev > 1:
                continue
            ok = std_ok
            if ok and rv:
                de, es = caps
                if not de or (tok.startswith("rposition") and not es):
                    ok = False
            sc = scope_of(toks, tok, rv)
            body_k = f"show(konst::iter::eval!(s, copied(){ktext}, {kt}))"
            body_s = f"show(s.iter().copied(){stext}{st})" if ok else 'let _ = s; "?".to_string()'
            funcs.append((f"chain {desc} {tok}", body_k, body_s, sc if ok else "m", use_inputs))
        # collect_const (const context, fixed inputs)
        if depth <= 2 or rng.random() < 0.3:
            for inp in CONST_INPUTS:
                arr = ", ".join(f"{x}i64" for x in inp)
                body_k = f"const A: &[i64] = &konst::iter::collect_const!(i64 => &[{arr}] as &[i64], copied(){ktext}); let _ = s; items(A)"
                body_s = f"let a: &[i64] = &[{arr}]; let v: Vec<i64> = a.iter().copied(){stext}.collect(); let _ = s; items(&v)" if std_ok else 'let _ = s; "?".to_string()'
                inp_s = "[" + ";".join(map(str, inp)) + "]"
                funcs.append((f"chain {desc} collect", body_k, body_s, (scope_of(toks, "collect", False) if std_ok else "m"), "CONST:" + inp_s))

    # LARGE cases (hoisted counters far beyond the small scopes)
    by_tok = {}
    for a in ADS:
        by_tok.setdefault(a[0], a)
    def big_ad(tok):
        if tok in by_tok:
            return by_tok[tok]
        name, n = tok.split(":")
        return (tok, "I", "I", f"{name}({n})", f".{name}({n})")
    for toks, ctok, spec in BIG:
        c = [big_ad(x) for x in toks]
        ktext = "".join(", " + a[3] for a in c)
        stext = "".join(a[4] for a in c)
        desc = ",".join(toks) if toks else "-"
        build = "let mut v: Vec<i64> = Vec::new(); " + " ".join(f"v.extend(std::iter::repeat({val}i64).take({cnt}));" for val, cnt in spec)
        inp_s = "[" + ";".join(f"{val}*{cnt}" for val, cnt in spec) + "]"
        sc = scope_of(toks, ctok, BIG_CONSUMERS[ctok][3] if ctok in BIG_CONSUMERS else False)
        if ctok == "forEach":
            body_k = f"{build} let s: &[i64] = &v; let mut log: Vec<i64> = Vec::new(); konst::iter::for_each!{{x in s, copied(){ktext} => log.push(x);}} items(&log)"
            body_s = f"{build} let s: &[i64] = &v; let mut log: Vec<i64> = Vec::new(); for x in s.iter().copied(){stext} {{ log.push(x); }} items(&log)"
        else:
            _, kt, st, rv = BIG_CONSUMERS[ctok]
            body_k = f"{build} let s: &[i64] = &v; show(konst::iter::eval!(s, copied(){ktext}, {kt}))"
            body_s = f"{build} let s: &[i64] = &v; show(s.iter().copied(){stext}{st})"
        funcs.append((f"chain {desc} {ctok}", "let _ = s; " + body_k, "let _ = s; " + body_s, sc, "CONST:" + inp_s))

    # split into modules compiled in parallel
    nmod = 16
    mods = [[] for _ in range(nmod)]
    for i, f in enumerate(funcs):
        mods[i % nmod].append(f)
    prelude = r'''
#![allow(unused, clippy::all)]
use std::fmt::Write as _;
fn items(v: &[i64]) -> String { let mut s = String::from("["); for (i, x) in v.iter().enumerate() { if i > 0 { s.push(';'); } write!(s, "{}", x).unwrap(); } s.push(']'); s }
trait Show { fn show(&self) -> String; }
impl Show for bool { fn show(&self) -> String { if *self { "t".into() } else { "f".into() } } }
impl Show for usize { fn show(&self) -> String { format!("{}", self) } }
impl Show for i64 { fn show(&self) -> String { format!("{}", self) } }
impl Show for Option<i64> { fn show(&self) -> String { match self { None => "none".into(), Some(x) => format!("some:{}", x) } } }
impl Show for Option<usize> { fn show(&self) -> String { match self { None => "none".into(), Some(x) => format!("some:{}", x) } } }
fn show<T: Show>(x: T) -> String { x.show() }
fn parse_inputs(s: &str) -> Vec<Vec<i64>> { s.split('|').map(|w| if w.is_empty() { vec![] } else { w.split(',').map(|t| t.parse().unwrap()).collect() }).collect() }
fn inp_s(v: &[i64]) -> String { items(v) }
'''
    def enc(inps):
        return "|".join(",".join(map(str, x)) for x in inps)
    jobs, bins = [], []
    for mi, fs in enumerate(mods):
        if not fs:
            continue
        src = [prelude]
        calls = []
        for fi, (req, bk, bs, sc, inputs) in enumerate(fs):
            src.append(f"fn k_{fi}(s: &[i64]) -> String {{ {bk} }}")
            src.append(f"fn s_{fi}(s: &[i64]) -> String {{ {bs} }}")
            if inputs.startswith("CONST:"):
                calls.append(f'    println!("{req} {inputs[6:]}\\t{{}}\\t{{}}\\t{sc}", k_{fi}(&[]), s_{fi}(&[]));')
            else:
                var = "small" if inputs == "SMALL" else "few"
                calls.append(f'    for s in {var}.iter() {{ println!("{req} {{}}\\t{{}}\\t{{}}\\t{sc}", inp_s(s), k_{fi}(s), s_{fi}(s)); }}')
        src.append("fn main() {")
        src.append(f'    let small = parse_inputs("{enc(small)}");')
        src.append(f'    let few = parse_inputs("{enc(few)}");')
        src.extend(calls)
        src.append("}")
        p = os.path.join(d, f"m{mi}.rs")
        open(p, "w").write("\n".join(src))
        jobs.append((p, os.path.join(d, f"m{mi}"), "link"))
        bins.append(os.path.join(d, f"m{mi}"))
    res = common.compile_many(jobs)
    for (rc, err), j in zip(res, jobs):
        if rc != 0:
            raise RuntimeError(f"generated program {j[0]} does not compile against /repo: {err[:3000]}")
    tsv = os.path.join(d, "c10.tsv")
    with open(tsv, "w") as out:
        for b in bins:
            rc, so, se = common.run_bin(b, timeout=600)
            if rc != 0:
                raise RuntimeError(f"{b} exited {rc}: {se[:2000]}")
            out.write(so)
    ctx["extra"]["programs"] = len(funcs)
    ctx["extra"]["chains"] = len(chains)
    ctx["extra"]["chains_exhaustive_depth"] = 2
    ctx["extra"]["chains_exhaustive"] = exhaustive
    ctx["extra"]["max_chain_depth"] = max(len(c) for c in chains)
    return tsv
