"""
Support for the "programs" properties: generated Rust programs are compiled with rustc against the
konst rlib that cargo has just built from /repo's working tree (via the harness crate), then run.
"""
import os, json, subprocess, hashlib, concurrent.futures, shutil
from vlib import core

_RLIB = None


def konst_rlib():
    """path of the libkonst rlib the harness build produced (exact artifact, from cargo's JSON)"""
    global _RLIB
    if _RLIB:
        return _RLIB
    with core.build_lock():
        p = subprocess.run(["cargo", "build", "--offline", "--message-format=json"], cwd=core.HARNESS,
                           env=core.ENV, stdout=subprocess.PIPE, stderr=subprocess.PIPE, text=True)
    if p.returncode != 0:
        raise RuntimeError("cargo build failed: " + p.stderr[-2000:])
    rlib = None
    for line in p.stdout.splitlines():
        try:
            m = json.loads(line)
        except ValueError:
            continue
        if m.get("reason") == "compiler-artifact" and m.get("target", {}).get("name") == "konst":
            for f in m.get("filenames", []):
                if f.endswith(".rlib"):
                    rlib = f
    if not rlib:
        raise RuntimeError("konst rlib not found in cargo output")
    _RLIB = rlib
    return rlib


def rustc_cmd(src, out, emit="link", extra=()):
    rlib = konst_rlib()
    deps = os.path.dirname(rlib)
    cmd = ["rustc", "--edition", "2021", "-L", "dependency=" + deps, "--extern", "konst=" + rlib,
           "-C", "opt-level=1", "-C", "debug-assertions=on", "-C", "overflow-checks=on",
           "-A", "warnings", "--cap-lints", "allow"]
    if emit == "metadata":
        cmd += ["--emit=metadata", "--crate-type", "lib", "-o", out]
    else:
        cmd += ["-o", out]
    cmd += list(extra) + [src]
    return cmd


def compile_one(src, out, emit="link", extra=(), timeout=1800):
    p = subprocess.run(rustc_cmd(src, out, emit, extra), stdout=subprocess.PIPE, stderr=subprocess.PIPE,
                       text=True, timeout=timeout)
    return p.returncode, p.stderr


def compile_many(jobs, workers=16):
    """jobs: list of (src, out, emit); returns list of (rc, stderr) in order"""
    konst_rlib()
    with concurrent.futures.ThreadPoolExecutor(max_workers=workers) as ex:
        futs = [ex.submit(compile_one, *j) for j in jobs]
        return [f.result() for f in futs]


def run_bin(path, args=(), timeout=300, inp=None):
    try:
        p = subprocess.run([path] + list(args), stdout=subprocess.PIPE, stderr=subprocess.PIPE, text=True,
                           timeout=timeout, input=inp)
        return p.returncode, p.stdout, p.stderr
    except subprocess.TimeoutExpired as e:
        return -9, (e.stdout or b"").decode() if isinstance(e.stdout, bytes) else (e.stdout or ""), "timeout"


def workdir(pid):
    # one directory per property and generator tier (a quick and a thorough run may overlap)
    d = os.path.join(core.BUILD, "progs_" + pid + "_" + os.environ.get("KV_GEN_TIER", "quick"))
    shutil.rmtree(d, ignore_errors=True)
    os.makedirs(d)
    return d


def write_tsv(path, rows):
    """rows: (request, impl, oracle, in_scope: bool)"""
    with open(path, "w") as f:
        for req, imp, ora, ins in rows:
            f.write(f"{req}\t{imp}\t{ora}\t{'in' if ins else 'out'}\n")
    return path
