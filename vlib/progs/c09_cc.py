"""
C09, const-evaluation side: `konst::iter::collect_const!` over ranges with fixed bounds, as `const` items.

One small program per element type (13) is compiled against the konst rlib built from /repo's working tree
and run; it prints `request<TAB>values` for `A..B`, `A..=B`, each plain, with the macro's `rev()` and with
`into_iter!(..).rev()`.  One further program (no konst) prints what std's ranges yield for the same bounds.
`A.., take(K)` with A up to 3 below the type's MAX (`rg.rftop.cc <ty> <a> <k>`): one `const` per case, each on its own
source line; a const evaluation that panics is a compile error that rustc attributes to that line (`--error-format=json`,
E0080 "evaluation panicked") = the result `panic`; the remaining cases are compiled again without the panicking ones and
printed (`[v:..;..]`, with a final `end` when the array has fewer than K elements).  Oracle: `(A..).take(K)` under
`catch_unwind` in the std-only program (same rustc flags: debug assertions and overflow checks on).
A program that does not compile (const evaluation error) or whose const evaluation does not finish within
the timeout (a broken iterator that never returns `None`) yields the result `compile-error` /
`compile-timeout` for its rows, i.e. a disagreement with the oracle - not a broken check.
"""
import os, json, subprocess, concurrent.futures
from vlib import core
from vlib.progs import common

INTS = ["u8", "u16", "u32", "u64", "u128", "usize", "i8", "i16", "i32", "i64", "i128", "isize"]


def int_cases(t, thorough):
    mn, mx = f"<{t}>::MIN", f"<{t}>::MAX"
    cs = [(mn, f"{mn} + 3"), (f"{mx} - 3", mx), (f"{mx} - 2", f"{mx} - 2"), (mx, mx), (mn, mn), (mx, mn),
          (f"{mn} + 2", mn), (mx, f"{mx} - 2"), ("3", "9"), (f"{mx} - 1", mx), (mn, f"{mn} + 1")]
    if t.startswith("i"):
        cs += [("-2", "3"), ("-1", "0"), ("0", "-1")]
    if thorough:
        cs += [(f"{mn} + 1", f"{mn} + 6"), (f"{mx} - 6", f"{mx} - 1"), ("10", "10"), ("11", "10"), ("0", "17")]
    return cs


def char_cases(thorough):
    c = lambda n: "'\\u{%X}'" % n
    cs = [(c(0), c(3)), (c(0xD7FD), c(0xE002)), (c(0xD7FF), c(0xE000)), (c(0xE000), c(0xD7FF)),
          (c(0x10FFFC), c(0x10FFFF)), (c(0x10FFFF), c(0x10FFFF)), (c(0), c(0)), (c(0x10FFFF), c(0)),
          (c(0x61), c(0x67)), (c(0xD7FF), c(0xD7FF)), (c(0xE000), c(0xE000)), (c(0xD7FE), c(0xD7FF)),
          (c(0xE000), c(0xE001))]
    if thorough:
        cs += [(c(0xD7F0), c(0xE010)), (c(0x10FFF0), c(0x10FFFF)), (c(0xE010), c(0xD7F0))]
    return cs


PRELUDE = """
#![allow(unused)]
fn fin(v: Vec<String>) -> String { format!("[{}]", v.join(";")) }
"""


def show_fn(t):
    if t == "char":
        return "fn show(x: char) -> String { (x as u32).to_string() }\n"
    return f"fn show(x: {t}) -> String {{ x.to_string() }}\n"


def konst_program(t, cases):
    out = [PRELUDE, show_fn(t), f"fn sh(s: &[{t}]) -> String {{ fin(s.iter().map(|x| show(*x)).collect()) }}\n",
           "fn main() {\n"]
    for a, b in cases:
        out.append(f"""    {{
        const A: {t} = {a};
        const B: {t} = {b};
        const R: &[{t}] = &konst::iter::collect_const!({t} => A..B);
        const R_REV: &[{t}] = &konst::iter::collect_const!({t} => A..B, rev());
        const R_IREV: &[{t}] = &konst::iter::collect_const!({t} => konst::iter::into_iter!(A..B).rev());
        const I: &[{t}] = &konst::iter::collect_const!({t} => A..=B);
        const I_REV: &[{t}] = &konst::iter::collect_const!({t} => &(A..=B), rev());
        const I_IREV: &[{t}] = &konst::iter::collect_const!({t} => konst::iter::into_iter!(A..=B).rev());
        let (a, b) = (show(A), show(B));
        println!("rg.range.cc {t} {{}} {{}}\\t{{}}", a, b, sh(R));
        println!("rg.range.cc.rev {t} {{}} {{}}\\t{{}}", a, b, sh(R_REV));
        println!("rg.range.cc.irev {t} {{}} {{}}\\t{{}}", a, b, sh(R_IREV));
        println!("rg.rangeinc.cc {t} {{}} {{}}\\t{{}}", a, b, sh(I));
        println!("rg.rangeinc.cc.rev {t} {{}} {{}}\\t{{}}", a, b, sh(I_REV));
        println!("rg.rangeinc.cc.irev {t} {{}} {{}}\\t{{}}", a, b, sh(I_IREV));
    }}
""")
    out.append("}\n")
    return "".join(out)


def oracle_program(all_cases, all_top=()):
    out = [PRELUDE, "fn main() {\n"]
    for t, cases in all_cases:
        out.append("    {\n        " + show_fn(t))
        for a, b in cases:
            out.append(f"""        {{
            const A: {t} = {a};
            const B: {t} = {b};
            let (a, b) = (show(A), show(B));
            println!("rg.range.cc {t} {{}} {{}}\\t{{}}", a, b, fin((A..B).map(show).collect()));
            println!("rg.range.cc.rev {t} {{}} {{}}\\t{{}}", a, b, fin((A..B).rev().map(show).collect()));
            println!("rg.range.cc.irev {t} {{}} {{}}\\t{{}}", a, b, fin((A..B).rev().map(show).collect()));
            println!("rg.rangeinc.cc {t} {{}} {{}}\\t{{}}", a, b, fin((A..=B).map(show).collect()));
            println!("rg.rangeinc.cc.rev {t} {{}} {{}}\\t{{}}", a, b, fin((A..=B).rev().map(show).collect()));
            println!("rg.rangeinc.cc.irev {t} {{}} {{}}\\t{{}}", a, b, fin((A..=B).rev().map(show).collect()));
        }}
""")
        out.append("    }\n")
    out.append(oracle_top(all_top))
    out.append("}\n")
    return "".join(out)


# ---- `A.., take(K)` close to the type's MAX -------------------------------------------------------------------

def type_max(t):
    if t == "char":
        return 0x10FFFF
    bits = 64 if t in ("usize", "isize") else int(t[1:])
    return 2 ** (bits - 1) - 1 if t.startswith("i") else 2 ** bits - 1


def top_cases(t, thorough):
    """(d, k): start = MAX - d, `take(k)`"""
    cs = []
    for d in range(0, 5 if thorough else 4):
        ks = {0, d - 1, d, d + 1, d + 3} | ({d + 2, d + 6} if thorough else set())
        cs += [(d, k) for k in sorted(ks) if k >= 0]
    return cs


def top_lit(t, d):
    return "'\\u{%X}'" % (0x10FFFF - d) if t == "char" else f"<{t}>::MAX - {d}"


def top_req(t, d, k):
    return f"rg.rftop.cc {t} {type_max(t) - d} {k}"


TOP_SHOW = """
fn top(idx: usize, k: usize, v: Vec<String>) {
    let mut v: Vec<String> = v.into_iter().map(|x| format!("v:{}", x)).collect();
    if v.len() < k { v.push("end".to_string()); }
    println!("TOP {}\\t{}", idx, fin(v));
}
"""


def konst_top_program(t, cases):
    """cases: [(idx, d, k)]; returns (source, {line number: idx})"""
    head = PRELUDE + show_fn(t) + TOP_SHOW + "fn main() {\n"
    lines = head.split("\n")
    line_of = {}
    body = []
    n = len(lines)  # the next line appended gets this 1-based number
    for idx, d, k in cases:
        body.append(f"    {{ const R: &[{t}] = &konst::iter::collect_const!({t} => {top_lit(t, d)}.., take({k})); "
                    f"top({idx}, {k}, R.iter().map(|x| show(*x)).collect()); }}")
        line_of[n] = idx
        n += 1
    return head + "\n".join(body) + "\n}\n", line_of


def oracle_top(all_top):
    out = []
    for t, cases in all_top:
        out.append("    {\n        " + show_fn(t))
        for d, k in cases:
            out.append(f"""        {{
            let r = std::panic::catch_unwind(|| {{
                let mut v: Vec<String> = ({top_lit(t, d)}..).take({k}).map(|x| format!("v:{{}}", show(x))).collect();
                if v.len() < {k} {{ v.push("end".to_string()); }}
                fin(v)
            }});
            println!("{top_req(t, d, k)}\\t{{}}", r.unwrap_or("panic".to_string()));
        }}
""")
        out.append("    }\n")
    return "".join(out)


def _panicked_lines(stderr, src):
    """source lines of `src` that a const-evaluation panic (E0080 "evaluation panicked") is attributed to"""
    def walk(o, acc):
        if isinstance(o, dict):
            if o.get("file_name") == src and "line_start" in o:
                acc.add(o["line_start"])
            for v in o.values():
                walk(v, acc)
        elif isinstance(o, list):
            for v in o:
                walk(v, acc)
    hit = set()
    for line in stderr.splitlines():
        try:
            d = json.loads(line)
        except ValueError:
            continue
        if d.get("level") == "error" and (d.get("code") or {}).get("code") == "E0080" and "panicked" in d.get("message", ""):
            walk(d, hit)
    return hit


def top_results(d, t, tag, cases, timeout):
    """cases: [(idx, d, k)] -> {idx: result}; at most 3 compilations (each drops the consts that panicked)"""
    res = {}
    remaining = list(cases)
    for attempt in range(3):
        if not remaining:
            break
        src, binp = os.path.join(d, f"top_{t}_{tag}{attempt}.rs"), os.path.join(d, f"top_{t}_{tag}{attempt}")
        text, line_of = konst_top_program(t, remaining)
        open(src, "w").write(text)
        try:
            rc, err = common.compile_one(src, binp, extra=("--error-format=json",), timeout=timeout)
        except subprocess.TimeoutExpired:
            for idx, _, _ in remaining:
                res[idx] = "compile-timeout"
            return res
        if rc == 0:
            rc2, so, se = common.run_bin(binp, timeout=60)
            for line in so.splitlines():
                if line.startswith("TOP ") and "\t" in line:
                    k, val = line[4:].split("\t", 1)
                    res[int(k)] = val
            for idx, _, _ in remaining:
                res.setdefault(idx, "run-failed")
            return res
        hit = {line_of[l] for l in _panicked_lines(err, src) if l in line_of}
        if not hit:
            break
        for idx in hit:
            res[idx] = "panic"
        remaining = [c for c in remaining if c[0] not in hit]
    for idx, _, _ in remaining:
        res.setdefault(idx, "compile-error")
    return res


def _compile(src, out, timeout):
    try:
        rc, err = common.compile_one(src, out, timeout=timeout)
        return ("ok", "") if rc == 0 else ("compile-error", err)
    except subprocess.TimeoutExpired:
        return ("compile-timeout", "")


def _rows(stdout):
    rows = []
    for line in stdout.splitlines():
        if "\t" in line:
            req, val = line.split("\t", 1)
            rows.append((req, val))
    return rows


def generate(ctx):
    thorough = ctx["tier"] == "thorough"
    d = common.workdir(ctx["pid"] + "_cc")
    all_cases = [(t, int_cases(t, thorough)) for t in INTS] + [("char", char_cases(thorough))]
    common.konst_rlib()
    # oracle (std only)
    osrc, obin = os.path.join(d, "oracle.rs"), os.path.join(d, "oracle")
    all_top = [(t, top_cases(t, thorough)) for t in INTS + ["char"]]
    open(osrc, "w").write(oracle_program(all_cases, all_top))
    st, err = _compile(osrc, obin, 300)
    if st != "ok":
        raise RuntimeError("oracle program does not compile: " + err[-1500:])
    rc, so, se = common.run_bin(obin)
    if rc != 0:
        raise RuntimeError("oracle program failed: " + se[-500:])
    oracle = _rows(so)
    # konst side, one program per type, compiled in parallel; a hanging const evaluation is cut off
    jobs = []
    for t, cases in all_cases:
        src, binp = os.path.join(d, f"cc_{t}.rs"), os.path.join(d, f"cc_{t}")
        open(src, "w").write(konst_program(t, cases))
        jobs.append((t, src, binp))
    timeout = 60 if thorough else 30
    # `A.., take(K)`: per type one program with the cases predicted to panic at MAX (k > d: the emitted loop pulls
    # exactly k items, the (d+1)-th is the step at MAX) and one with the others; the prediction only balances the
    # work, the results come from rustc (a const that panics in the second program costs one more compilation)
    top_jobs = []
    for t, cases in all_top:
        idx = [(i, dd, k) for i, (dd, k) in enumerate(cases)]
        top_jobs.append((t, "p", [c for c in idx if c[2] > c[1]]))
        top_jobs.append((t, "v", [c for c in idx if c[2] <= c[1]]))
    with concurrent.futures.ThreadPoolExecutor(max_workers=16) as ex:
        top_f = [ex.submit(top_results, d, t, tag, cs, timeout) for t, tag, cs in top_jobs]
        res = list(ex.map(lambda j: _compile(j[1], j[2], timeout), jobs))
        top_res = {}
        for (t, tag, cs), f in zip(top_jobs, top_f):
            for i, val in f.result().items():
                top_res[(t, i)] = val
    top_impl = {}
    top_scope = {}
    for t, cases in all_top:
        for i, (dd, k) in enumerate(cases):
            top_impl[top_req(t, dd, k)] = top_res.get((t, i), "missing")
            # `take(k)` pulls exactly k items (countdown tested before the source is pulled): k == d, where a
            # (k+1)-th pull would be the step at MAX and fail the const evaluation, is in scope like every other k
            top_scope[top_req(t, dd, k)] = True
    impl = {}
    status = {}
    for (t, src, binp), (st, err) in zip(jobs, res):
        status[t] = st
        if st == "ok":
            rc, so, se = common.run_bin(binp, timeout=60)
            if rc != 0:
                status[t] = "run-failed"
            for req, val in _rows(so):
                impl[req] = val
    ctx["extra"]["cc_programs"] = status
    rows = []
    for req, ora in oracle:
        t = req.split(" ")[1]
        if req in top_impl:
            rows.append((req, top_impl[req], ora, top_scope[req]))
            continue
        imp = impl.get(req, status[t] if status[t] != "ok" else "missing")
        rows.append((req, imp, ora, True))
    return common.write_tsv(os.path.join(core.BUILD, f"t_{ctx['pid']}_c09cc.tsv"), rows)
