"""
C09, const-evaluation side: `konst::iter::collect_const!` over ranges with fixed bounds, as `const` items.

One small program per element type (13) is compiled against the konst rlib built from /repo's working tree
and run; it prints `request<TAB>values` for `A..B`, `A..=B`, each plain, with the macro's `rev()` and with
`into_iter!(..).rev()`.  One further program (no konst) prints what std's ranges yield for the same bounds.
A program that does not compile (const evaluation error) or whose const evaluation does not finish within
the timeout (a broken iterator that never returns `None`) yields the result `compile-error` /
`compile-timeout` for its rows, i.e. a disagreement with the oracle - not a broken check.
"""
import os, subprocess, concurrent.futures
from vlib import core
from vlib.progs import common

INTS = ["u8", "u16", "u32", "u64", "u128", "usize", "i8", "i16", "i32", "i64", "i128", "isize"]


def int_cases(t, thorough):
    mn, mx = f"<{t}>::MIN", f"<{t}>::MAX"
    cs = [(mn, f"{mn} + 3"), (f"{mx} - 3", mx), (f"{mx} - 2", f"{mx} - 2"), (mx, mx), (mn, mn), (mx, mn),
          (f"{mn} + 2", mn), (mx, f"{mx} - 2"), ("3", "9"), (f"{mx} - 1", mx), (mn, f"{mn} + 1")]
    if t.startswith("i"):
        cs += [("-2", "3"), ("-1", "0"), ("0", "-1")]
    if thorough:
        cs += [(f"{mn} + 1", f"{mn} + 6"), (f"{mx} - 6", f"{mx} - 1"), ("10", "10"), ("11", "10"), ("0", "17")]
    return cs


def char_cases(thorough):
    c = lambda n: "'\\u{%X}'" % n
    cs = [(c(0), c(3)), (c(0xD7FD), c(0xE002)), (c(0xD7FF), c(0xE000)), (c(0xE000), c(0xD7FF)),
          (c(0x10FFFC), c(0x10FFFF)), (c(0x10FFFF), c(0x10FFFF)), (c(0), c(0)), (c(0x10FFFF), c(0)),
          (c(0x61), c(0x67)), (c(0xD7FF), c(0xD7FF)), (c(0xE000), c(0xE000)), (c(0xD7FE), c(0xD7FF)),
          (c(0xE000), c(0xE001))]
    if thorough:
        cs += [(c(0xD7F0), c(0xE010)), (c(0x10FFF0), c(0x10FFFF)), (c(0xE010), c(0xD7F0))]
    return cs


PRELUDE = """
#![allow(unused)]
fn fin(v: Vec<String>) -> String { format!("[{}]", v.join(";")) }
"""


def show_fn(t):
    if t == "char":
        return "fn show(x: char) -> String { (x as u32).to_string() }\n"
    return f"fn show(x: {t}) -> String {{ x.to_string() }}\n"


def konst_program(t, cases):
    out = [PRELUDE, show_fn(t), f"fn sh(s: &[{t}]) -> String {{ fin(s.iter().map(|x| show(*x)).collect()) }}\n",
           "fn main() {\n"]
    for a, b in cases:
        out.append(f"""    {{
        const A: {t} = {a};
        const B: {t} = {b};
        const R: &[{t}] = &konst::iter::collect_const!({t} => A..B);
        const R_REV: &[{t}] = &konst::iter::collect_const!({t} => A..B, rev());
        const R_IREV: &[{t}] = &konst::iter::collect_const!({t} => konst::iter::into_iter!(A..B).rev());
        const I: &[{t}] = &konst::iter::collect_const!({t} => A..=B);
        const I_REV: &[{t}] = &konst::iter::collect_const!({t} => &(A..=B), rev());
        const I_IREV: &[{t}] = &konst::iter::collect_const!({t} => konst::iter::into_iter!(A..=B).rev());
        let (a, b) = (show(A), show(B));
        println!("rg.range.cc {t} {{}} {{}}\\t{{}}", a, b, sh(R));
        println!("rg.range.cc.rev {t} {{}} {{}}\\t{{}}", a, b, sh(R_REV));
        println!("rg.range.cc.irev {t} {{}} {{}}\\t{{}}", a, b, sh(R_IREV));
        println!("rg.rangeinc.cc {t} {{}} {{}}\\t{{}}", a, b, sh(I));
        println!("rg.rangeinc.cc.rev {t} {{}} {{}}\\t{{}}", a, b, sh(I_REV));
        println!("rg.rangeinc.cc.irev {t} {{}} {{}}\\t{{}}", a, b, sh(I_IREV));
    }}
""")
    out.append("}\n")
    return "".join(out)


def oracle_program(all_cases):
    out = [PRELUDE, "fn main() {\n"]
    for t, cases in all_cases:
        out.append("    {\n        " + show_fn(t))
        for a, b in cases:
            out.append(f"""        {{
            const A: {t} = {a};
            const B: {t} = {b};
            let (a, b) = (show(A), show(B));
            println!("rg.range.cc {t} {{}} {{}}\\t{{}}", a, b, fin((A..B).map(show).collect()));
            println!("rg.range.cc.rev {t} {{}} {{}}\\t{{}}", a, b, fin((A..B).rev().map(show).collect()));
            println!("rg.range.cc.irev {t} {{}} {{}}\\t{{}}", a, b, fin((A..B).rev().map(show).collect()));
            println!("rg.rangeinc.cc {t} {{}} {{}}\\t{{}}", a, b, fin((A..=B).map(show).collect()));
            println!("rg.rangeinc.cc.rev {t} {{}} {{}}\\t{{}}", a, b, fin((A..=B).rev().map(show).collect()));
            println!("rg.rangeinc.cc.irev {t} {{}} {{}}\\t{{}}", a, b, fin((A..=B).rev().map(show).collect()));
        }}
""")
        out.append("    }\n")
    out.append("}\n")
    return "".join(out)


def _compile(src, out, timeout):
    try:
        rc, err = common.compile_one(src, out, timeout=timeout)
        return ("ok", "") if rc == 0 else ("compile-error", err)
    except subprocess.TimeoutExpired:
        return ("compile-timeout", "")


def _rows(stdout):
    rows = []
    for line in stdout.splitlines():
        if "\t" in line:
            req, val = line.split("\t", 1)
            rows.append((req, val))
    return rows


def generate(ctx):
    thorough = ctx["tier"] == "thorough"
    d = common.workdir(ctx["pid"] + "_cc")
    all_cases = [(t, int_cases(t, thorough)) for t in INTS] + [("char", char_cases(thorough))]
    common.konst_rlib()
    # oracle (std only)
    osrc, obin = os.path.join(d, "oracle.rs"), os.path.join(d, "oracle")
    open(osrc, "w").write(oracle_program(all_cases))
    st, err = _compile(osrc, obin, 300)
    if st != "ok":
        raise RuntimeError("oracle program does not compile: " + err[-1500:])
    rc, so, se = common.run_bin(obin)
    if rc != 0:
        raise RuntimeError("oracle program failed: " + se[-500:])
    oracle = _rows(so)
    # konst side, one program per type, compiled in parallel; a hanging const evaluation is cut off
    jobs = []
    for t, cases in all_cases:
        src, binp = os.path.join(d, f"cc_{t}.rs"), os.path.join(d, f"cc_{t}")
        open(src, "w").write(konst_program(t, cases))
        jobs.append((t, src, binp))
    timeout = 60 if thorough else 30
    with concurrent.futures.ThreadPoolExecutor(max_workers=13) as ex:
        res = list(ex.map(lambda j: _compile(j[1], j[2], timeout), jobs))
    impl = {}
    status = {}
    for (t, src, binp), (st, err) in zip(jobs, res):
        status[t] = st
        if st == "ok":
            rc, so, se = common.run_bin(binp, timeout=60)
            if rc != 0:
                status[t] = "run-failed"
            for req, val in _rows(so):
                impl[req] = val
    ctx["extra"]["cc_programs"] = status
    rows = []
    for req, ora in oracle:
        t = req.split(" ")[1]
        imp = impl.get(req, status[t] if status[t] != "ok" else "missing")
        rows.append((req, imp, ora, True))
    return common.write_tsv(os.path.join(core.BUILD, f"t_{ctx['pid']}_c09cc.tsv"), rows)
