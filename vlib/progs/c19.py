"""
C19 - option::/result:: macros, try_!/try_opt!, try_rebind!/rebind_if_ok!, min!/max!(_by(_key)).

The implementation side is GENERATED RUST that expands the real macros of /repo's working tree.
A program is assembled from *units*: one unit = one macro call site (macro x argument form, or
macro x tuple arity x pattern kinds).  A unit has an `impl_<id>` function (the konst macro) and an
`oracle_<id>` function (std method / hand-written `match` / `?`), and the data (both variants x
boundary payloads, all key pairs) is looped over at run time, so few call sites are compiled.

rustc's accept/reject verdict per unit: all units are first compiled together (in a few chunks, in
parallel).  If a chunk does not compile, each of its units is compiled on its own (`--emit=metadata`,
via common.compile_many); units that rustc rejects get a stub that answers `reject`, and the chunk is
compiled again.  Units that are expected to be rejected (more patterns than tuple components, seven
patterns, ...) are always compiled on their own first.

request grammar (one line per case; see lean/Driver/C19.lean):
  opt.<macro> <none|some:v|some:none|some:some:v> <form> [<extra>]   -> <value>|calls:<n>
  res.<macro> <ok:v|err:e> <form>                                     -> <value>|calls:<n>
  try.<macro> <value> <form>                                          -> ret:<residual>|calls:<n> / val:<v>|calls:<n>
  rebind.<macro> <ok:v1,..,vn | err:e:n> <kinds>                      -> accept:<flow>:<slot;..> / reject
  rebind.<macro> <ok:v1,..,vn | err:e:n> o:<place>,<place>,..         -> accept:<flow>:<x0,x1,x2>;<tp>;<arr>;<lets|-> / reject
      (order-observing: places xN | aN = arr[ix(xN)] | t0 t1 = tp.0 tp.1 | at = arr[ix(tp.0)] | lN = let xN |
       LN = let xN: i64 | w = _ ; the oracle is the hand-written sequence `p0 = t.0; p1 = t.1; ...`)
  mm.<macro> <form> <akey>:<aid> <bkey>:<bid>                         -> id of the returned argument
  ev.* / evo.* (argument expressions with side effects) and hy.<tag> <base request> (positions, caller names and
  items named like the expansion's binders): units of vlib/progs/c19_hyg.py, compiled in the same chunks
"""
import os, random, itertools
from vlib import core
from vlib.progs import common
from vlib.progs import c19_hyg

I32MAX, I32MIN = 2147483647, -2147483648
I64MAX, I64MIN = 9223372036854775807, -9223372036854775808

PRELUDE = r'''
#![allow(warnings)]
use std::sync::atomic::{AtomicU32, Ordering::SeqCst};
use std::cmp::Ordering;
pub static CALLS: AtomicU32 = AtomicU32::new(0);
pub fn tick() { CALLS.fetch_add(1, SeqCst); }
pub fn reset() { CALLS.store(0, SeqCst); }
pub fn calls() -> u32 { CALLS.load(SeqCst) }
pub fn wc(v: String) -> String { format!("{}|calls:{}", v, calls()) }

// ---- the closure library (the same functions exist in lean/Driver/C19.lean) ----
pub fn fb0() -> i64 { tick(); 7 }
pub fn fbe0() -> i64 { tick(); 77 }
pub fn fbs0() -> Option<i64> { tick(); Some(7) }
pub fn fbn0() -> Option<i64> { tick(); None }
pub fn m1(x: i64) -> i64 { tick(); x * 3 + 1 }
pub fn at1(x: i64) -> Option<i64> { tick(); if x >= 0 { Some(x + 1) } else { None } }
pub fn pred(x: &i64) -> bool { tick(); *x > 0 }
pub fn e1(e: i64) -> i64 { tick(); e * 2 + 1 }
pub fn rat1(x: i64) -> Result<i64, i64> { tick(); if x >= 0 { Ok(x + 1) } else { Err(x - 1) } }
pub fn roe1(e: i64) -> Result<i64, i64> { tick(); if e >= 0 { Ok(e + 2) } else { Err(e - 2) } }

pub fn fo(o: Option<i64>) -> String { match o { Some(x) => format!("some:{}", x), None => "none".to_string() } }
pub fn foo(o: Option<Option<i64>>) -> String { match o { Some(x) => format!("some:{}", fo(x)), None => "none".to_string() } }
pub fn fr(r: Result<i64, i64>) -> String { match r { Ok(x) => format!("ok:{}", x), Err(e) => format!("err:{}", e) } }
pub fn fi(x: i64) -> String { x.to_string() }

// ---- keyed values with a distinguishable identity (ordering looks at the key only) ----
#[derive(Debug, Clone, Copy)]
pub struct Keyed { pub key: i64, pub id: u8 }
konst::impl_cmp!{
    impl Keyed;
    pub const fn const_eq(&self, other: &Self) -> bool { self.key == other.key }
    pub const fn const_cmp(&self, other: &Self) -> Ordering {
        if self.key < other.key { Ordering::Less } else if self.key > other.key { Ordering::Greater } else { Ordering::Equal }
    }
}
impl PartialEq for Keyed { fn eq(&self, o: &Self) -> bool { self.key == o.key } }
impl Eq for Keyed {}
impl PartialOrd for Keyed { fn partial_cmp(&self, o: &Self) -> Option<Ordering> { Some(self.cmp(o)) } }
impl Ord for Keyed { fn cmp(&self, o: &Self) -> Ordering { self.key.cmp(&o.key) } }
pub const fn cmp_key(l: &Keyed, r: &Keyed) -> Ordering {
    if l.key < r.key { Ordering::Less } else if l.key > r.key { Ordering::Greater } else { Ordering::Equal }
}
pub const fn key_of(x: &Keyed) -> i64 { x.key }

// ---- rebind helpers ----
pub trait Show { fn show(&self) -> String; }
impl Show for i64 { fn show(&self) -> String { self.to_string() } }
macro_rules! show_tuple { ($($t:ident $i:tt),*) => {
    impl Show for ($($t,)*) { fn show(&self) -> String {
        let v: Vec<String> = vec![$(self.$i.to_string()),*]; format!("({})", v.join(","))
    } }
} }
show_tuple!(A 0, B 1);
show_tuple!(A 0, B 1, C 2);
show_tuple!(A 0, B 1, C 2, D 3);
show_tuple!(A 0, B 1, C 2, D 3, E 4);
show_tuple!(A 0, B 1, C 2, D 3, E 4, F 5);
type A = i64; type B = i64; type C = i64; type D = i64; type E = i64; type F = i64;
pub struct St<T> { pub f: T }
pub fn let_slot(lets: &Option<Vec<String>>, i: usize) -> String {
    match lets { Some(v) => v[i].clone(), None => "-".to_string() }
}
// ---- order-observing rebind bench: a small store whose places depend on each other ----
pub fn ix(v: i64) -> usize { v.rem_euclid(8) as usize }
pub fn store_show(x0: i64, x1: i64, x2: i64, tp: (i64, i64), arr: &[i64; 8], lets: &Option<Vec<String>>) -> String {
    let a: Vec<String> = arr.iter().map(|v| v.to_string()).collect();
    let l = match lets { Some(v) if !v.is_empty() => v.join(","), _ => "-".to_string() };
    format!("{},{},{};{},{};{};{}", x0, x1, x2, tp.0, tp.1, a.join(","), l)
}
'''


class Unit:
    """one macro call site"""
    def __init__(self, uid, argkind, impl_body, oracle_body, req, scope=True, expect_reject=False,
                 argty=None, has_oracle=True):
        self.uid = uid                # rust identifier suffix
        self.argkind = argkind        # opt | optopt | res | mm | rb
        self.impl_body = impl_body    # body of fn impl_<uid>(<args>) -> String
        self.oracle_body = oracle_body
        self.req = req                # rust format string pieces: (prefix, suffix) around the rendered argument
        self.scope = scope
        self.expect_reject = expect_reject
        self.argty = argty            # rebind: payload type
        self.has_oracle = has_oracle
        self.rejected = False
        self.data = None              # rebind: list of rust expressions + request tokens

    def sig(self):
        if getattr(self, "sig_override", None):
            return self.sig_override
        return {
            "opt": "o: Option<i64>", "optopt": "o: Option<Option<i64>>", "res": "r: Result<i64, i64>",
            "mm": "a: Keyed, b: Keyed", "rb": f"r: Result<{self.argty}, i64>",
        }[self.argkind]

    def impl_fn(self, stub=False):
        body = '"reject".to_string()' if stub else self.impl_body
        return f"pub fn impl_{self.uid}({self.sig()}) -> String {{\n{body}\n}}\n"

    def oracle_fn(self):
        body = self.oracle_body if self.has_oracle else '"?".to_string()'
        return f"pub fn oracle_{self.uid}({self.sig()}) -> String {{\n{body}\n}}\n"


# ---------------------------------------------------------------------------------------------
# option:: / result:: / try units
# ---------------------------------------------------------------------------------------------

def counted(expr, fmt):
    return f"    reset();\n    let v = {expr};\n    wc({fmt}(v))"


def opt_res_units():
    U = []

    def add(fam, macro, form, impl, oracle, fmt, extra="", argkind=None, scope=True):
        uid = f"{fam}_{macro}_{form}{('_' + extra) if extra else ''}"
        ak = argkind or ("opt" if fam == "opt" else "res")
        suffix = f" {form}" + (f" {extra}" if extra else "")
        U.append(Unit(uid, ak, counted(impl, fmt), counted(oracle, fmt), (f"{fam}.{macro} ", suffix), scope=scope))

    # ---- option ----
    add("opt", "unwrap_or", "val", "konst::option::unwrap_or!(o, fb0())", "o.unwrap_or(fb0())", "fi")
    add("opt", "unwrap_or_else", "cl", "konst::option::unwrap_or_else!(o, || { tick(); 7 })", "o.unwrap_or_else(|| { tick(); 7 })", "fi")
    add("opt", "unwrap_or_else", "fn", "konst::option::unwrap_or_else!(o, fb0)", "o.unwrap_or_else(fb0)", "fi")
    add("opt", "unwrap_or_else", "var", "{ let f = || { tick(); 7i64 }; konst::option::unwrap_or_else!(o, f) }",
        "{ let f = || { tick(); 7i64 }; o.unwrap_or_else(f) }", "fi")
    add("opt", "ok_or", "val", "konst::option::ok_or!(o, fbe0())", "o.ok_or(fbe0())", "fr")
    add("opt", "ok_or_else", "cl", "konst::option::ok_or_else!(o, || { tick(); 77 })", "o.ok_or_else(|| { tick(); 77 })", "fr")
    add("opt", "ok_or_else", "fn", "konst::option::ok_or_else!(o, fbe0)", "o.ok_or_else(fbe0)", "fr")
    add("opt", "ok_or_else", "var", "{ let f = || { tick(); 77i64 }; konst::option::ok_or_else!(o, f) }",
        "{ let f = || { tick(); 77i64 }; o.ok_or_else(f) }", "fr")
    add("opt", "map", "cl", "konst::option::map!(o, |x| { tick(); x * 3 + 1 })", "o.map(|x| { tick(); x * 3 + 1 })", "fo")
    add("opt", "map", "fn", "konst::option::map!(o, m1)", "o.map(m1)", "fo")
    add("opt", "map", "var", "{ let f = |x: i64| { tick(); x * 3 + 1 }; konst::option::map!(o, f) }",
        "{ let f = |x: i64| { tick(); x * 3 + 1 }; o.map(f) }", "fo")
    add("opt", "and_then", "cl", "konst::option::and_then!(o, |x| { tick(); if x >= 0 { Some(x + 1) } else { None } })",
        "o.and_then(|x| { tick(); if x >= 0 { Some(x + 1) } else { None } })", "fo")
    add("opt", "and_then", "fn", "konst::option::and_then!(o, at1)", "o.and_then(at1)", "fo")
    for ex, cl, fn in (("s", "Some(7)", "fbs0"), ("n", "None", "fbn0")):
        add("opt", "or_else", "cl", f"konst::option::or_else!(o, || {{ tick(); {cl} }})", f"o.or_else(|| {{ tick(); {cl} }})", "fo", ex)
        add("opt", "or_else", "fn", f"konst::option::or_else!(o, {fn})", f"o.or_else({fn})", "fo", ex)
    add("opt", "filter", "cl", "konst::option::filter!(o, |x| { tick(); *x > 0 })", "o.filter(|x| { tick(); *x > 0 })", "fo")
    add("opt", "filter", "clref", "konst::option::filter!(o, |&x| { tick(); x > 0 })", "o.filter(|&x| { tick(); x > 0 })", "fo")
    add("opt", "filter", "fn", "konst::option::filter!(o, pred)", "o.filter(pred)", "fo")
    add("opt", "copied", "fn", "konst::option::copied(o.as_ref())", "o.as_ref().copied()", "fo")
    add("opt", "flatten", "m", "konst::option::flatten!(o)", "o.flatten()", "fo", argkind="optopt")
    # not named by the property (out of scope): unwrap
    add("opt", "unwrap", "m",
        "match std::panic::catch_unwind(|| konst::option::unwrap!(o)) { Ok(x) => x.to_string(), Err(_) => \"panic\".to_string() }",
        "match std::panic::catch_unwind(|| o.unwrap()) { Ok(x) => x.to_string(), Err(_) => \"panic\".to_string() }",
        "", scope=False)

    # ---- result ----
    add("res", "unwrap_or", "val", "konst::result::unwrap_or!(r, fb0())", "r.unwrap_or(fb0())", "fi")
    add("res", "unwrap_or_else", "cl", "konst::result::unwrap_or_else!(r, |e| { tick(); e * 2 + 1 })", "r.unwrap_or_else(|e| { tick(); e * 2 + 1 })", "fi")
    add("res", "unwrap_or_else", "fn", "konst::result::unwrap_or_else!(r, e1)", "r.unwrap_or_else(e1)", "fi")
    add("res", "unwrap_or_else", "var", "{ let f = |e: i64| { tick(); e * 2 + 1 }; konst::result::unwrap_or_else!(r, f) }",
        "{ let f = |e: i64| { tick(); e * 2 + 1 }; r.unwrap_or_else(f) }", "fi")
    # std has no Result::unwrap_err_or_else: the oracle is the documented behaviour, a hand-written match
    add("res", "unwrap_err_or_else", "cl", "konst::result::unwrap_err_or_else!(r, |x| { tick(); x * 2 + 1 })",
        "match r { Err(e) => e, Ok(x) => { tick(); x * 2 + 1 } }", "fi")
    add("res", "unwrap_err_or_else", "fn", "konst::result::unwrap_err_or_else!(r, e1)", "match r { Err(e) => e, Ok(x) => e1(x) }", "fi")
    add("res", "ok", "m", "konst::result::ok!(r)", "r.ok()", "fo")
    add("res", "err", "m", "konst::result::err!(r)", "r.err()", "fo")
    add("res", "map", "cl", "konst::result::map!(r, |x| { tick(); x * 3 + 1 })", "r.map(|x| { tick(); x * 3 + 1 })", "fr")
    add("res", "map", "fn", "konst::result::map!(r, m1)", "r.map(m1)", "fr")
    add("res", "map_err", "cl", "konst::result::map_err!(r, |e| { tick(); e * 2 + 1 })", "r.map_err(|e| { tick(); e * 2 + 1 })", "fr")
    add("res", "map_err", "fn", "konst::result::map_err!(r, e1)", "r.map_err(e1)", "fr")
    add("res", "and_then", "cl", "konst::result::and_then!(r, |x| { tick(); if x >= 0 { Ok(x + 1) } else { Err(x - 1) } })",
        "r.and_then(|x| { tick(); if x >= 0 { Ok(x + 1) } else { Err(x - 1) } })", "fr")
    add("res", "and_then", "fn", "konst::result::and_then!(r, rat1)", "r.and_then(rat1)", "fr")
    add("res", "or_else", "cl", "konst::result::or_else!(r, |e| { tick(); if e >= 0 { Ok(e + 2) } else { Err(e - 2) } })",
        "r.or_else(|e| { tick(); if e >= 0 { Ok(e + 2) } else { Err(e - 2) } })", "fr")
    add("res", "or_else", "fn", "konst::result::or_else!(r, roe1)", "r.or_else(roe1)", "fr")

    # ---- try_! / try_opt!: the macro sits in a closure so that `return` is observable ----
    def addtry(macro, form, ak, impl_stmt, oracle_stmt, okfmt):
        uid = f"try_{macro}_{form}"
        if ak == "res":
            tpl = ("    reset();\n    let f = || -> Result<i64, i64> {{ let v: i64 = {stmt}; Ok(v) }};\n"
                   "    let out = match f() {{ Ok(v) => format!(\"val:{{}}\", v), Err(e) => format!(\"ret:err:{{}}\", e) }};\n    wc(out)")
        else:
            tpl = ("    reset();\n    let f = || -> Option<i64> {{ let v: i64 = {stmt}; Some(v) }};\n"
                   "    let out = match f() {{ Some(v) => format!(\"val:{{}}\", v), None => \"ret:none\".to_string() }};\n    wc(out)")
        U.append(Unit(uid, ak, tpl.format(stmt=impl_stmt), tpl.format(stmt=oracle_stmt), (f"try.{macro} ", f" {form}")))

    addtry("try_", "plain", "res", "konst::try_!(r)", "r?", None)
    addtry("try_", "me", "res", "konst::try_!(r, map_err = |e| { tick(); e * 2 + 1 })", "r.map_err(|e| { tick(); e * 2 + 1 })?", None)
    addtry("try_", "me0", "res", "konst::try_!(r, map_err = | | { tick(); 77 })", "r.map_err(|_| { tick(); 77 })?", None)
    addtry("try_opt", "plain", "opt", "konst::try_opt!(o)", "o?", None)
    return U


# ---------------------------------------------------------------------------------------------
# min/max units
# ---------------------------------------------------------------------------------------------

def mm_units():
    U = []

    def add(macro, form, impl, oracle):
        U.append(Unit(f"mm_{macro}_{form}", "mm", f"    let r: Keyed = {impl};\n    r.id.to_string()",
                      f"    let r: Keyed = {oracle};\n    r.id.to_string()", (f"mm.{macro} {form} ", "")))

    for m in ("min", "max"):
        add(m, "cc", f"konst::{m}!(a, b)", f"std::cmp::{m}(a, b)")
        by = m + "_by"
        o_by = f"std::cmp::{by}(a, b, |l, r| l.key.cmp(&r.key))"
        add(by, "cl", f"konst::{by}!(a, b, |l, r| konst::const_cmp!(l.key, r.key))", o_by)
        add(by, "clt", f"konst::{by}!(a, b, |l: &Keyed, r: &Keyed| konst::const_cmp!(l.key, r.key))", o_by)
        add(by, "clp", f"konst::{by}!(a, b, |&l, &r| konst::const_cmp!(l.key, r.key))", o_by)
        add(by, "clr", f"konst::{by}!(a, b, |l, r| -> Ordering {{ konst::const_cmp!(l.key, r.key) }})", o_by)
        add(by, "fn", f"konst::{by}!(a, b, cmp_key)", f"std::cmp::{by}(a, b, cmp_key)")
        bk = m + "_by_key"
        o_bk = f"std::cmp::{bk}(a, b, |x| x.key)"
        add(bk, "cl", f"konst::{bk}!(a, b, |x| x.key)", o_bk)
        add(bk, "clt", f"konst::{bk}!(a, b, |x: &Keyed| x.key)", o_bk)
        add(bk, "clp", f"konst::{bk}!(a, b, |&x| x.key)", o_bk)
        add(bk, "clr", f"konst::{bk}!(a, b, |x| -> i64 {{ x.key }})", o_bk)
        add(bk, "fn", f"konst::{bk}!(a, b, key_of)", f"std::cmp::{bk}(a, b, key_of)")
    # informational, OUT of scope: the order in which the two argument expressions are evaluated
    for mname, call_k, call_s in (
            ("min", "konst::min!(A, B)", "std::cmp::min(A, B)"), ("max", "konst::max!(A, B)", "std::cmp::max(A, B)"),
            ("min_by", "konst::min_by!(A, B, cmp_key)", "std::cmp::min_by(A, B, cmp_key)"),
            ("max_by", "konst::max_by!(A, B, cmp_key)", "std::cmp::max_by(A, B, cmp_key)"),
            ("min_by_key", "konst::min_by_key!(A, B, key_of)", "std::cmp::min_by_key(A, B, key_of)"),
            ("max_by_key", "konst::max_by_key!(A, B, key_of)", "std::cmp::max_by_key(A, B, key_of)")):
        def body(c):
            c = c.replace("A", "{ log.borrow_mut().push('a'); a }").replace("B", "{ log.borrow_mut().push('b'); b }")
            return f"    let log = std::cell::RefCell::new(String::new());\n    let _r: Keyed = {c};\n    log.into_inner()"
        u = Unit(f"mmo_{mname}", "mm", body(call_k), body(call_s), (f"mm.order.{mname} fn ", ""), scope=False)
        u.single = True
        U.append(u)
        # IN scope: each argument expression is evaluated exactly once (as a function call does), whatever
        # the order — a macro that re-evaluates the winning expression returns a different value when the
        # expression has side effects (seeded change C19-3)
        def body_n(c):
            c = c.replace("A", "{ log.borrow_mut().push('a'); a }").replace("B", "{ log.borrow_mut().push('b'); b }")
            return (f"    let log = std::cell::RefCell::new(String::new());\n    let _r: Keyed = {c};\n"
                    "    let mut v: Vec<char> = log.into_inner().chars().collect(); v.sort(); v.into_iter().collect::<String>()")
        u2 = Unit(f"mme_{mname}", "mm", body_n(call_k), body_n(call_s), (f"mm.evals.{mname} fn ", ""))
        u2.single = True
        U.append(u2)
    return U


# ---------------------------------------------------------------------------------------------
# rebind units
# ---------------------------------------------------------------------------------------------

KINDS4 = "pltw"


def tuple_ty(n):
    return "i64" if n == 1 else "(" + ",".join(["i64"] * n) + ")"


def init_val(n, j):
    """initial value of the place at pattern position j when it holds a payload of arity n"""
    v = -(100 + j)
    return str(v) if n == 1 else "(" + ",".join([str(v)] * n) + ")"


def rebind_unit(idx, macro, n, kinds, bare=False, trailing=False):
    """macro in try_rebind | rebind_if_ok | rebind_if_ok_nc (no `=> code` part);
    n = arity of the Ok payload (1 = a plain i64); kinds = list over p e l t w u q"""
    k = len(kinds)
    base = macro.replace("_nc", "")
    whole = (k == 1)
    pty = tuple_ty(n)
    slot_ty = (lambda j: pty) if whole else (lambda j: "i64")
    slot_n = n if whole else 1
    pats, decl, lets, slots = [], [], [], []
    for j, kd in enumerate(kinds):
        if kd in "pq":
            decl.append(f"    let mut p{j}: {slot_ty(j)} = {init_val(slot_n, j)};")
            pats.append(f"p{j}" + (f": {slot_ty(j)}" if kd == "q" else ""))
            slots.append(f"p{j}.show()")
        elif kd == "e":
            decl.append(f"    let mut s{j}: St<{slot_ty(j)}> = St {{ f: {init_val(slot_n, j)} }};")
            pats.append(f"s{j}.f")
            slots.append(f"s{j}.f.show()")
        elif kd in "lt":
            pats.append(f"let l{j}" + (f": {slot_ty(j)}" if kd == "t" else ""))
            slots.append(f"let_slot(&lets, {len(lets)})")
            lets.append(f"l{j}.show()")
        elif kd in "wu":
            pats.append("_" + (f": {slot_ty(j)}" if kd == "u" else ""))
            slots.append('"_".to_string()')
        else:
            raise ValueError(kd)
    pat = ", ".join(pats) + ("," if trailing else "")
    if not bare:
        pat = "(" + pat + ")"
    letvec = "vec![" + ", ".join(lets) + "]"
    slotvec = "vec![" + ", ".join(slots) + "]"
    tail = f"    let slots: Vec<String> = {slotvec};\n    format!(\"accept:{{}}:{{}}\", flow, slots.join(\";\"))"
    d = "\n".join(decl)
    if base == "try_rebind":
        impl = (f"{d}\n    let res: Result<Vec<String>, i64> = (|| {{\n        konst::try_rebind!{{{pat} = r}}\n"
                f"        Ok({letvec})\n    }})();\n"
                "    let (flow, lets) = match res { Ok(v) => (\"ok\".to_string(), Some(v)), Err(e) => (format!(\"ret:{}\", e), None) };\n" + tail)
    elif macro == "rebind_if_ok":
        impl = (f"{d}\n    let mut lets: Option<Vec<String>> = None;\n    let mut ran = false;\n"
                f"    konst::rebind_if_ok!{{{pat} = r =>\n        ran = true;\n        lets = Some({letvec});\n    }}\n"
                "    let flow = if ran { \"ok\" } else { \"skip\" };\n" + tail)
    else:  # no code block: let bindings are not observable, the flow is seen through the places only
        impl = (f"{d}\n    let lets: Option<Vec<String>> = None;\n    let isok = r.is_ok();\n"
                f"    konst::rebind_if_ok!{{{pat} = r}}\n"
                "    let flow = if isok { \"ok\" } else { \"skip\" };\n" + tail)

    # oracle: `?` / `if let Ok(..)` with an ordinary destructuring pattern, then plain assignments
    in_scope = all(c in KINDS4 + "e" for c in kinds) and (k == n) and 1 <= k <= 6
    has_oracle = ((k == n or k == 1) and 1 <= k <= 6 and not ("q" in kinds and k > 1)
                  and not (bare and base == "try_rebind" and kinds[0] in "qu"))
    comps = [f"a{j}" for j in range(k)]
    dpat = comps[0] if whole else "(" + ", ".join(comps) + ")"
    assigns = []
    for j, kd in enumerate(kinds):
        if kd in "pq":
            assigns.append(f"p{j} = a{j};")
        elif kd == "e":
            assigns.append(f"s{j}.f = a{j};")
        elif kd == "l":
            assigns.append(f"let l{j} = a{j};")
        elif kd == "t":
            assigns.append(f"let l{j}: {slot_ty(j)} = a{j};")
        else:
            assigns.append(f"let _ = a{j};")
    asg = " ".join(assigns)
    if base == "try_rebind":
        oracle = (f"{d}\n    let res: Result<Vec<String>, i64> = (|| {{\n        let {dpat} = r?;\n        {asg}\n"
                  f"        Ok({letvec})\n    }})();\n"
                  "    let (flow, lets) = match res { Ok(v) => (\"ok\".to_string(), Some(v)), Err(e) => (format!(\"ret:{}\", e), None) };\n" + tail)
    elif macro == "rebind_if_ok":
        oracle = (f"{d}\n    let mut lets: Option<Vec<String>> = None;\n    let mut ran = false;\n"
                  f"    if let Ok({dpat}) = r {{\n        {asg}\n        ran = true;\n        lets = Some({letvec});\n    }}\n"
                  "    let flow = if ran { \"ok\" } else { \"skip\" };\n" + tail)
    else:
        oracle = (f"{d}\n    let lets: Option<Vec<String>> = None;\n    let isok = r.is_ok();\n"
                  f"    if let Ok({dpat}) = r {{\n        {asg}\n    }}\n"
                  "    let flow = if isok { \"ok\" } else { \"skip\" };\n" + tail)
    kstr = ("b:" if bare else "") + ",".join(kinds) + ("," if trailing else "")
    u = Unit(f"rb{idx}", "rb", impl, oracle, (f"rebind.{macro} ", f" {kstr}"), scope=in_scope,
             expect_reject=False, argty=pty, has_oracle=has_oracle)
    u.n = n
    return u


# ---- order-observing units: places that depend on each other / repeat --------------------------
# descriptor -> (pattern tokens, hand-written statement for component c); same table in lean/Driver/C19.lean
ORDER_DECL = ("    let mut x0: i64 = 96; let mut x1: i64 = 101; let mut x2: i64 = 104;\n"
              "    let mut tp: (i64, i64) = (109, 110);\n"
              "    let mut arr: [i64; 8] = [-200, -201, -202, -203, -204, -205, -206, -207];")
ORDER_INIT = {"x": [96, 101, 104], "tp": [109, 110], "arr": [-200 - i for i in range(8)]}
ORDER_ALPHABET = (["x0", "x1", "x2", "a0", "a1", "a2", "t0", "t1", "at", "l0", "l1", "l2", "L0", "L1", "L2", "w"])


def order_tokens(d):
    """(pattern, statement template with {c} = the component expression)"""
    v = d[1:]
    if d == "w":
        return "_", "let _ = {c};"
    if d == "at":
        return "arr[ix(tp.0)]", "arr[ix(tp.0)] = {c};"
    if d[0] == "x":
        return f"x{v}", f"x{v} = {{c}};"
    if d[0] == "a":
        return f"arr[ix(x{v})]", f"arr[ix(x{v})] = {{c}};"
    if d[0] == "t":
        return f"tp.{v}", f"tp.{v} = {{c}};"
    if d[0] == "l":
        return f"let x{v}", f"let x{v} = {{c}};"
    if d[0] == "L":
        return f"let x{v}: i64", f"let x{v}: i64 = {{c}};"
    raise ValueError(d)


def order_wellformed(descs):
    # a variable is either assigned as a place or `let`-bound by the pattern list (the binding is immutable)
    return 2 <= len(descs) <= 6 and not any(f"x{n}" in descs and (f"l{n}" in descs or f"L{n}" in descs) for n in "012")


def order_sim(descs, vals, order):
    """store after assigning component c to descs[c] for c in `order` — used ONLY to select cases whose
    outcome depends on the order (the expected values come from the hand-written Rust sequence)"""
    x, tp, arr, lets = list(ORDER_INIT["x"]), list(ORDER_INIT["tp"]), list(ORDER_INIT["arr"]), {}
    rd = lambda n: lets.get(n, x[n])
    for c in order:
        d, v = descs[c], vals[c]
        if d == "w":
            pass
        elif d == "at":
            arr[tp[0] % 8] = v
        elif d[0] == "x":
            x[int(d[1])] = v
        elif d[0] == "a":
            arr[rd(int(d[1])) % 8] = v
        elif d[0] == "t":
            tp[int(d[1])] = v
        else:
            lets[int(d[1])] = v
    return (x, tp, arr, sorted(lets.items()))


ORDER_VALS_A = [11, 22, 33, 44, 55, 66]
ORDER_VALS_B = [-3, 14, -9, 8, -15, 2]


def rebind_order_unit(uid, macro, descs):
    k = len(descs)
    base = macro.replace("_nc", "")
    pty = tuple_ty(k)
    toks = [order_tokens(d) for d in descs]
    pat = "(" + ", ".join(t[0] for t in toks) + ")"
    seq = " ".join(t[1].format(c=f"t.{c}") for c, t in enumerate(toks))     # p0 = t.0; p1 = t.1; ...
    letvec = "vec![" + ", ".join(f"x{d[1]}.show()" for d in descs if d[0] in "lL") + "]"
    tail = "    format!(\"accept:{}:{}\", flow, store_show(x0, x1, x2, tp, &arr, &lets))"
    d = ORDER_DECL
    if base == "try_rebind":
        tpl = (f"{d}\n    let res: Result<Vec<String>, i64> = (|| {{\n        STMTS\n        Ok({letvec})\n    }})();\n"
               "    let (flow, lets) = match res { Ok(v) => (\"ok\".to_string(), Some(v)), Err(e) => (format!(\"ret:{}\", e), None) };\n" + tail)
        impl = tpl.replace("STMTS", f"konst::try_rebind!{{{pat} = r}}")
        oracle = tpl.replace("STMTS", f"let t = r?; {seq}")
    elif macro == "rebind_if_ok":
        code = f"ran = true;\n        lets = Some({letvec});"
        pre = f"{d}\n    let mut lets: Option<Vec<String>> = None;\n    let mut ran = false;\n"
        post = "    let flow = if ran { \"ok\" } else { \"skip\" };\n" + tail
        impl = pre + f"    konst::rebind_if_ok!{{{pat} = r =>\n        {code}\n    }}\n" + post
        oracle = pre + f"    if let Ok(t) = r {{\n        {seq}\n        {code}\n    }}\n" + post
    else:
        pre = f"{d}\n    let lets: Option<Vec<String>> = None;\n    let isok = r.is_ok();\n"
        post = "    let flow = if isok { \"ok\" } else { \"skip\" };\n" + tail
        impl = pre + f"    konst::rebind_if_ok!{{{pat} = r}}\n" + post
        oracle = pre + f"    if let Ok(t) = r {{\n        {seq}\n    }}\n" + post
    u = Unit(uid, "rb", impl, oracle, (f"rebind.{macro} ", " o:" + ",".join(descs)), scope=True, argty=pty)
    u.n = k
    u.order = True
    u.data = []
    for vs in (ORDER_VALS_A[:k], ORDER_VALS_B[:k]):
        u.data.append(("Ok((" + ",".join(str(v) for v in vs) + "))", "ok:" + ",".join(str(v) for v in vs)))
    u.data.append(("Err(5)", f"err:5:{k}"))
    return u


# ordered pairs of places whose outcome depends on which is assigned first ({n}, {m}: variable numbers)
ORDER_CONFLICTS = [
    ("x{n}", "a{n}"),    # (i, arr[i]): the index is assigned by an EARLIER component
    ("a{n}", "x{n}"),    # (arr[i], i): ... by a LATER component
    ("t0", "at"),        # (a.0, b[a.0])
    ("at", "t0"),
    ("l{n}", "a{n}"),    # (let i, arr[i]): the binding shadows from there on
    ("L{n}", "a{n}"),
    ("a{n}", "l{n}"),    # (arr[i], let i): the outer i is still the one in scope
    ("x{n}", "x{n}"),    # the same place twice: the last listed component stays
    ("a{n}", "a{n}"),
    ("t1", "t1"),
    ("t0", "t0"),
    ("l{n}", "L{n}"),    # two bindings of one name: the later one is the one the code sees
]


def rebind_order_specs(tier, seed):
    """(macro, descriptors): for every macro and arity 2..=6, every conflict kind at a rotating adjacent
    pair of positions and every other kind also at a non-adjacent pair (thorough: at every pair), the rest filled with independent places, `let`s and `_`;
    plus triples and chains.  Every case is checked (by simulation) to distinguish first-to-last from
    last-to-first and from exchanging the two conflicting assignments."""
    rng = random.Random(seed * 104729 + 1919)
    out, seen = [], set()

    def sensitive(descs, i, j):
        k = len(descs)
        fwd = order_sim(descs, ORDER_VALS_A, range(k))
        swp = list(range(k)); swp[i], swp[j] = swp[j], swp[i]
        return fwd != order_sim(descs, ORDER_VALS_A, range(k - 1, -1, -1)) and fwd != order_sim(descs, ORDER_VALS_A, swp)

    def add(macro, descs, i, j):
        assert order_wellformed(descs) and sensitive(descs, i, j), descs
        if (macro, tuple(descs)) not in seen:
            seen.add((macro, tuple(descs)))
            out.append((macro, list(descs)))

    def fill(macro, k, i, j, a, b):
        for _ in range(200):
            descs = [rng.choice(ORDER_ALPHABET) for _ in range(k)]
            descs[i], descs[j] = a, b
            if order_wellformed(descs) and sensitive(descs, i, j) and (macro, tuple(descs)) not in seen:
                return add(macro, descs, i, j)
        raise RuntimeError(f"no order-sensitive filling for {k} {i} {j} {a} {b}")

    for mi, macro in enumerate(("try_rebind", "rebind_if_ok")):
        for k in range(2, 7):
            pairs = [(i, j) for i in range(k) for j in range(i + 1, k)]
            for ti, (a, b) in enumerate(ORDER_CONFLICTS):
                n = (ti + k + mi) % 3
                a, b = a.format(n=n), b.format(n=n)
                if tier == "quick":
                    # an adjacent pair (every (j, j+1) is hit by >= 2 conflict kinds per macro) and, for every
                    # other kind, a non-adjacent pair
                    chosen = [((ti + mi) % (k - 1), (ti + mi) % (k - 1) + 1)]
                    far = [p for p in pairs if p[1] > p[0] + 1]
                    if far and ti % 2 == mi:
                        chosen.append(far[(ti // 2 + 3 * mi) % len(far)])
                else:
                    chosen = pairs
                for (i, j) in chosen:
                    fill(macro, k, i, j, a, b)
            # the same place three times / an index assigned, used, assigned again / chains
            if k >= 3:
                for tri in (("x0", "x0", "x0"), ("x1", "a1", "x1"), ("a2", "x2", "a2"), ("t0", "at", "t0"),
                            ("l0", "a0", "L0")):
                    pos = sorted(rng.sample(range(k), 3))
                    descs = ["w" if rng.random() < 0.5 else rng.choice(["l1", "L2", "t1", "w"]) for _ in range(k)]
                    if tri[0][0] in "lL":
                        descs = [("w" if d[0] in "lL" else d) for d in descs]
                    for p_, d_ in zip(pos, tri):
                        descs[p_] = d_
                    if tri[1] == "a1":
                        descs = [("w" if d == "l1" else d) for d in descs]
                    if tri[1] == "x2":
                        descs = [("w" if d == "L2" else d) for d in descs]
                    add(macro, descs, pos[0], pos[2])
            # every pattern is the same variable / a chain x0 -> arr[x0] over the whole list
            add(macro, ["x0"] * k, 0, k - 1)
            add(macro, (["x0", "a0"] * 3)[:k], 0, 1)
            add(macro, (["a1", "x1"] * 3)[:k], 0, 1)
    for descs, i, j in ((["x0", "a0"], 0, 1), (["a0", "x0"], 0, 1), (["x1", "x1", "x1"], 0, 2), (["t0", "w", "at"], 0, 2),
                        (["x2", "a2", "x2", "a2", "x2", "a2"], 0, 1), (["L0", "a0", "w", "l1"], 0, 1)):
        add("rebind_if_ok_nc", descs, i, j)
    return out


def payloads(n, tier):
    """(rust expression, request token) for the Ok/Err arguments of a rebind unit of payload arity n"""
    base = [10 * (i + 1) for i in range(n)]
    edge = [I32MIN, -1, 0, 1, I32MAX, 5][:n]
    out = []
    for vs in (base, edge):
        ex = str(vs[0]) if n == 1 else "(" + ",".join(str(v) for v in vs) + ")"
        out.append((f"Ok({ex})", "ok:" + ",".join(str(v) for v in vs)))
    out.append(("Err(5)", f"err:5:{n}"))
    if tier == "thorough":
        out.append(("Err(-1)", f"err:-1:{n}"))
    return out


def rebind_units(tier, seed):
    rng = random.Random(seed * 7919 + 19)
    specs = []   # (macro, n, kinds, bare, trailing, expect_reject)
    full_k = 4 if tier == "quick" else 5
    sample = {5: 32, 6: 32} if tier == "quick" else {6: 400}
    for macro in ("try_rebind", "rebind_if_ok"):
        for k in range(1, 7):
            if k <= full_k:
                combos = ["".join(c) for c in itertools.product(KINDS4, repeat=k)]
            else:
                combos = {c * k for c in KINDS4}
                # every kind at every position, each kind followed by each kind
                for pos in range(k):
                    for c in KINDS4:
                        s = [rng.choice(KINDS4) for _ in range(k)]
                        s[pos] = c
                        combos.add("".join(s))
                while len(combos) < sample[k]:
                    combos.add("".join(rng.choice(KINDS4) for _ in range(k)))
                combos = sorted(combos)
            for c in combos:
                specs.append((macro, k, list(c), False, False, False))
        # extra pattern kinds (expression place, typed `_`, typed place), bare single patterns, trailing comma
        specs += [
            (macro, 1, ["p"], True, False, False), (macro, 1, ["w"], True, False, False),
            (macro, 1, ["e"], False, False, False), (macro, 1, ["u"], False, False, False),
            (macro, 1, ["q"], False, False, False), (macro, 1, ["q"], True, False, macro == "try_rebind"),
            (macro, 1, ["u"], True, False, macro == "try_rebind"),
            (macro, 1, ["p"], False, True, False),
            (macro, 2, ["e", "u"], False, False, False), (macro, 2, ["u", "e"], False, True, False),
            (macro, 3, ["e", "l", "e"], False, False, False), (macro, 3, ["p", "t", "w"], False, True, False),
            (macro, 6, ["e", "u", "e", "u", "l", "p"], False, False, False),
            (macro, 6, ["p", "l", "t", "w", "p", "l"], False, True, False),
            (macro, 2, ["q", "p"], False, False, True), (macro, 3, ["p", "q", "l"], False, False, True),
            # a single pattern takes the whole tuple
            (macro, 2, ["p"], False, False, False), (macro, 3, ["l"], False, False, False),
            (macro, 6, ["t"], False, False, False), (macro, 4, ["p"], True, False, False),
            # fewer patterns than components (the rest is dropped), more patterns than components, 0 and 7 patterns
            (macro, 3, ["p", "l"], False, False, False), (macro, 6, ["w", "p", "t"], False, False, False),
            (macro, 2, ["p", "l", "p"], False, False, True), (macro, 1, ["p", "p"], False, False, True),
            (macro, 5, ["p"] * 6, False, False, True),
            (macro, 6, ["p"] * 7, False, False, True), (macro, 6, ["l", "w", "p", "t", "p", "l", "w"], False, False, True),
            (macro, 1, [], False, False, True),
        ]
    # rebind_if_ok without the `=> code` part
    for n, ks in ((1, "p"), (2, "pp"), (2, "pw"), (3, "wpp"), (3, "plp"), (6, "pppppp"), (6, "pwptlp")):
        specs.append(("rebind_if_ok_nc", n, list(ks), False, False, False))
    specs.append(("rebind_if_ok_nc", 1, ["p"], True, False, False))
    U = []
    for i, (macro, n, kinds, bare, trailing, er) in enumerate(specs):
        if not kinds:
            u = Unit(f"rb{i}", "rb", "    konst::MACRO!{() = r}\n    \"accept:ok:\".to_string()".replace("MACRO", macro.replace("_nc", "")),
                     "", (f"rebind.{macro} ", " -"), scope=False, expect_reject=True, argty="i64", has_oracle=False)
            if macro == "try_rebind":
                u.impl_body = "    let res: Result<(), i64> = (|| { konst::try_rebind!{() = r}\n Ok(()) })();\n    \"accept:ok:\".to_string()"
            u.n = 1
        else:
            u = rebind_unit(i, macro, n, kinds, bare, trailing)
        u.expect_reject = er
        u.data = payloads(u.n, tier)
        U.append(u)
    for i, (macro, descs) in enumerate(rebind_order_specs(tier, seed)):
        U.append(rebind_order_unit(f"rbo{i}", macro, descs))
    return U


# ---------------------------------------------------------------------------------------------
# data + assembly
# ---------------------------------------------------------------------------------------------

def scalar_values(tier, seed):
    vals = [0, -1, 1, 5, I32MAX, I32MIN]
    if tier == "thorough":
        rng = random.Random(seed + 1)
        vals += [2, -2, 7, 77, I32MAX - 1, I32MIN + 1] + [rng.randint(I32MIN, I32MAX) for _ in range(20)]
    return vals


def key_values(tier, seed):
    vals = [I64MIN, -1, 0, 1, I64MAX]
    if tier == "thorough":
        rng = random.Random(seed + 2)
        vals += [I64MIN + 1, I64MAX - 1, 2, -2] + [rng.randint(I64MIN, I64MAX) for _ in range(8)]
    return vals


def lit(v):
    return "i64::MIN" if v == I64MIN else f"{v}i64"


def main_src(units, tier, seed):
    sv = scalar_values(tier, seed)
    kv = key_values(tier, seed)
    L = ["fn main() {",
         "    std::panic::set_hook(Box::new(|_| {}));",
         "    let vals: Vec<i64> = vec![" + ", ".join(lit(v) for v in sv) + "];",
         "    let keys: Vec<i64> = vec![" + ", ".join(lit(v) for v in kv) + "];",
         "    let mut opts: Vec<Option<i64>> = vec![None]; for v in &vals { opts.push(Some(*v)); }",
         "    let mut oopts: Vec<Option<Option<i64>>> = vec![None, Some(None)]; for v in &vals { oopts.push(Some(Some(*v))); }",
         "    let mut ress: Vec<Result<i64, i64>> = vec![]; for v in &vals { ress.push(Ok(*v)); ress.push(Err(*v)); }",
         ]
    if any(u.argkind == "ev" for u in units):
        L += c19_hyg.ev_main_decls()
    for u in units:
        sc = "in" if u.scope else "out"
        pre, suf = u.req
        if u.argkind == "ev":
            L.append(c19_hyg.ev_main_line(u))
        elif getattr(u, "main_override", None):
            L += u.main_override(u, sc)
        elif u.argkind == "opt":
            L.append(f"    for o in &opts {{ println!(\"{pre}{{}}{suf}\\t{{}}\\t{{}}\\t{sc}\", fo(*o), impl_{u.uid}(*o), oracle_{u.uid}(*o)); }}")
        elif u.argkind == "optopt":
            L.append(f"    for o in &oopts {{ println!(\"{pre}{{}}{suf}\\t{{}}\\t{{}}\\t{sc}\", foo(*o), impl_{u.uid}(*o), oracle_{u.uid}(*o)); }}")
        elif u.argkind == "res":
            L.append(f"    for r in &ress {{ println!(\"{pre}{{}}{suf}\\t{{}}\\t{{}}\\t{sc}\", fr(*r), impl_{u.uid}(*r), oracle_{u.uid}(*r)); }}")
        elif u.argkind == "mm" and getattr(u, "single", False):
            L.append(f"    {{ let a = Keyed {{ key: 0, id: 1 }}; let b = Keyed {{ key: 1, id: 2 }};"
                     f" println!(\"{pre}0:1 1:2{suf}\\t{{}}\\t{{}}\\t{sc}\", impl_{u.uid}(a, b), oracle_{u.uid}(a, b)); }}")
        elif u.argkind == "mm":
            L.append(f"    for ka in &keys {{ for kb in &keys {{ let a = Keyed {{ key: *ka, id: 1 }}; let b = Keyed {{ key: *kb, id: 2 }};"
                     f" println!(\"{pre}{{}}:1 {{}}:2{suf}\\t{{}}\\t{{}}\\t{sc}\", ka, kb, impl_{u.uid}(a, b), oracle_{u.uid}(a, b)); }} }}")
        elif u.argkind == "rb":
            for ex, tok in u.data:
                L.append(f"    println!(\"{pre}{tok}{suf}\\t{{}}\\t{{}}\\t{sc}\", impl_{u.uid}({ex}), oracle_{u.uid}({ex}));")
    L.append("}")
    return "\n".join(L) + "\n"


def program_src(units, tier, seed):
    parts = [PRELUDE + c19_hyg.PRELUDE2]
    for u in units:
        parts.append(u.impl_fn(stub=u.rejected))
        parts.append(u.oracle_fn())
    parts.append(main_src(units, tier, seed))
    return "\n".join(parts)


def single_src(u):
    return PRELUDE + c19_hyg.PRELUDE2 + "\n" + u.impl_fn()


def check_individually(wd, units, stats):
    jobs = []
    for u in units:
        src = os.path.join(wd, f"one_{u.uid}.rs")
        with open(src, "w") as f:
            f.write(single_src(u))
        jobs.append((src, os.path.join(wd, f"one_{u.uid}.rmeta"), "metadata"))
    res = common.compile_many(jobs)
    for u, (rc, err) in zip(units, res):
        u.rejected = (rc != 0)
        u.stderr = err[-600:] if rc != 0 else ""
        if u.rejected and getattr(u, "scope_if_accepted", False):
            u.scope = False
    stats["individual_compiles"] = stats.get("individual_compiles", 0) + len(units)


def generate(ctx):
    tier, seed = ctx["tier"], ctx["seed"]
    wd = common.workdir("c19")
    stats = {}
    units = opt_res_units() + mm_units() + rebind_units(tier, seed)
    units += c19_hyg.ev_units(Unit) + c19_hyg.hy_units(Unit, tier, rebind_unit, payloads)
    # 1. units expected to be rejected are judged on their own
    check_individually(wd, [u for u in units if u.expect_reject], stats)
    # 2. chunks, compiled in parallel
    nchunks = 12 if tier == "quick" else 16
    chunks = [units[i::nchunks] for i in range(nchunks)]
    rows = []

    def build(tag):
        jobs = []
        for ci, ch in enumerate(chunks):
            src = os.path.join(wd, f"chunk{ci}{tag}.rs")
            with open(src, "w") as f:
                f.write(program_src(ch, tier, seed))
            jobs.append((src, os.path.join(wd, f"chunk{ci}{tag}.bin"), "link"))
        return jobs, common.compile_many(jobs)

    jobs, res = build("")
    bad = [ci for ci, (rc, _) in enumerate(res) if rc != 0]
    if bad:
        # find the units rustc rejects, stub them, rebuild those chunks
        todo = [u for ci in bad for u in chunks[ci] if not u.expect_reject]
        check_individually(wd, todo, stats)
        jobs2, res2 = build("r")
        for ci in bad:
            jobs[ci], res[ci] = jobs2[ci], res2[ci]
        still = [(ci, res[ci][1]) for ci in bad if res[ci][0] != 0]
        if still:
            raise RuntimeError("generated program does not compile although every unit was judged on its own: "
                               + still[0][1][-1500:])
    for ci, (src, out, _) in enumerate(jobs):
        rc, so, se = common.run_bin(out)
        if rc != 0:
            raise RuntimeError(f"generated program chunk {ci} exited {rc}: {se[-800:]}")
        for line in so.splitlines():
            p = line.split("\t")
            if len(p) != 4:
                raise RuntimeError("malformed line from generated program: " + line[:200])
            rows.append((p[0], p[1], p[2], p[3] == "in"))
    stats["units"] = len(units)
    fam = {}
    for u in units:
        key = u.req[0].split(".")[0] + (".order" if getattr(u, "order", False) else "") + ("" if u.argkind != "rb" else f".arity{len([c for c in u.req[1].replace('b:', '').strip().split(',') if c and c != '-'])}")
        fam[key] = fam.get(key, 0) + 1
    stats["units_by_family"] = dict(sorted(fam.items()))
    stats["units_rejected_by_rustc"] = sorted(u.req[0] + "*" + u.req[1] for u in units if u.rejected)[:40]
    stats["n_units_rejected_by_rustc"] = sum(1 for u in units if u.rejected)
    ctx["extra"]["c19_programs"] = stats
    # regression rows (the call sites of repaired defects, independent of tier and seed) come first
    reg = [u.req for u in units if getattr(u, "regression", None)]
    rows.sort(key=lambda r: 0 if any(r[0].startswith(a) and r[0].endswith(b) for a, b in reg) else 1)
    stats["regression_rows"] = sum(1 for r in rows if any(r[0].startswith(a) and r[0].endswith(b) for a, b in reg))
    if ctx.get("only") is not None:
        rows = [r for r in rows if r[0] in ctx["only"]]
    return common.write_tsv(os.path.join(core.BUILD, "t_C19_c19.tsv"), rows)


if __name__ == "__main__":
    import sys, time
    t0 = time.time()
    ctx = {"tier": sys.argv[1] if len(sys.argv) > 1 else "quick", "seed": 20260929, "pid": "C19", "only": None, "extra": {}}
    p = generate(ctx)
    print(p, round(time.time() - t0, 1), "s", ctx["extra"])
