"""
C01 - implementation-side observers (SUPPORT, not proof; see DESIGN.md section 6 C01).

(a) rustc's const evaluator: the operations the harness family c01 calls at run time are evaluated
    inside generated `const` items.  The const evaluator is an interpreter of Rust's abstract machine:
    it rejects out-of-bounds pointer arithmetic, dangling references, invalid `char`/`&str` values and
    reads of uninitialised memory with error[E0080], and it validates the final value of every const.
    One program per group, each must COMPILE:
        request  `ub.const <group>`              impl `accept` | `reject:<codes>`   oracle `accept`
    When a group is rejected every item of it is compiled on its own and the offending items get
        request  `ub.const <group>:<item>`       impl `reject:<codes>`              oracle `accept`
    (the item's source file is the replay; its text is put into the evidence).
    Inputs whose documented behaviour is a panic (non-boundary index for str_from/str_up_to/str_range/
    split_at, chunk size 0) are not generated: a panic in a const item is also E0080.
(b) thorough tier: the harness family c01 is re-run under Miri on its `miri` input set
        request  `ub.miri c01 <last completed request>`   impl `clean` | `ub:<first line>` | `tool:<..>`
    and every transcript line Miri produced is appended (so it is also compared with the model).
"""
import os, re, subprocess, time
from vlib import core
from vlib.progs import common

LET = ["a", "\u00f1", "\u20ac", "\U0001F600"]
IMAX = (1 << 63) - 1
UMAX = (1 << 64) - 1
BIG = [IMAX, IMAX + 1, UMAX - 1, UMAX]


def rs(s):
    """Rust string literal"""
    return '"' + "".join("\\u{%x}" % ord(c) if ord(c) > 126 or c in '"\\' or ord(c) < 32 else c for c in s) + '"'


def rc(c):
    return "'\\u{%x}'" % ord(c)


def words(alpha, n):
    out, layer = [""], [""]
    for _ in range(n):
        layer = [w + a for w in layer for a in alpha]
        out += layer
    return out


def boundaries(s):
    b, o = [0], 0
    for c in s:
        o += len(c.encode())
        b.append(o)
    return b


def ok_idx(s, i):
    """index accepted by the forgiving boundary test"""
    return i >= len(s.encode()) or i in boundaries(s)


PRELUDE = """#![allow(warnings)]
use konst::{slice as ks, string as kst, array, chr};
use konst::ffi::cstr;
pub struct NC(pub u8);
"""


class Group:
    def __init__(self, name, shared=""):
        self.name, self.shared, self.items = name, shared, []

    def add(self, text):
        self.items.append(text)

    def source(self, only=None):
        body = "\n".join(t.replace("@N@", f"{i}") for i, t in enumerate(self.items) if only is None or i == only)
        return PRELUDE + self.shared + "\n" + body + "\n"


def idxs(n):
    return sorted(set([0, 1, max(n - 1, 0), n, n + 1, n + 2])) + BIG


def g_slice(thorough):
    g = Group("slice")
    elems = [("u8", "u8", lambda i: str(10 + i)), ("u32", "u32", lambda i: str(1000 * i + 7)), ("zst", "()", lambda i: "()"),
             ("nc", "NC", lambda i: f"NC({i})")]
    lens = [0, 1, 3, 5] if not thorough else [0, 1, 2, 3, 5, 8]
    for en, ty, mk in elems:
        for n in lens:
            S = f"S_{en}_{n}"
            g.shared += f"pub const {S}: &[{ty}] = &[{', '.join(mk(i) for i in range(n))}];\n"
            if en in ("u32", "zst", "nc") and not thorough and n in (1,):
                continue
            for i in idxs(n):
                g.add(f"pub const C@N@: Option<&{ty}> = ks::get({S}, {i});")
                g.add(f"pub const C@N@: Option<&[{ty}]> = ks::get_from({S}, {i});")
                g.add(f"pub const C@N@: Option<&[{ty}]> = ks::get_up_to({S}, {i});")
                g.add(f"pub const C@N@: &[{ty}] = ks::slice_from({S}, {i});")
                g.add(f"pub const C@N@: &[{ty}] = ks::slice_up_to({S}, {i});")
                g.add(f"pub const C@N@: (&[{ty}], &[{ty}]) = ks::split_at({S}, {i});")
                js = idxs(n) if (thorough or en == "u8") else [0, n, n + 1, UMAX]
                for j in js:
                    g.add(f"pub const C@N@: Option<&[{ty}]> = ks::get_range({S}, {i}, {j});")
                    g.add(f"pub const C@N@: &[{ty}] = ks::slice_range({S}, {i}, {j});")
            for N in [0, 1, 2, 3, n]:
                g.add(f"pub const C@N@: Option<&[{ty}; {N}]> = match ks::try_into_array::<{ty}, {N}>({S}) {{ Ok(a) => Some(a), Err(_) => None }};")
                if N >= 1:
                    g.add(f"pub const C@N@: (&[[{ty}; {N}]], &[{ty}]) = ks::as_chunks::<{ty}, {N}>({S});")
                    g.add(f"pub const C@N@: (&[{ty}], &[[{ty}; {N}]]) = ks::as_rchunks::<{ty}, {N}>({S});")
    g.shared += """
pub const fn ac<const N: usize>(s: &[u8]) -> usize {
    let mut it = ks::array_chunks::<u8, N>(s);
    let mut t = it.remainder().len();
    while let Some((a, nx)) = it.next() { t = t * 7 + a[0] as usize + a[N - 1] as usize; it = nx; }
    t
}
pub const fn ac_back<const N: usize>(s: &[u8]) -> usize {
    let mut it = ks::array_chunks::<u8, N>(s);
    let mut t = it.remainder().len();
    while let Some((a, nx)) = it.next_back() { t = t * 7 + a[0] as usize + a[N - 1] as usize; it = nx; }
    t
}
"""
    for n in lens:
        for N in (1, 2, 3):
            g.add(f"pub const C@N@: (usize, usize) = (ac::<{N}>(S_u8_{n}), ac_back::<{N}>(S_u8_{n}));")
    return g


def g_slice_mut(thorough):
    g = Group("slice_mut")
    lens = [0, 1, 4] if not thorough else [0, 1, 2, 4, 7]
    for ty, mk, w9, w7 in [("u8", lambda i: str(i + 1), "9", "7"), ("NC", lambda i: f"NC({i})", "NC(9)", "NC(7)")]:
        if ty == "NC":
            # writing through `&mut NC` drops nothing (NC has no destructor) and is allowed in const
            pass
        for n in lens:
            arr = f"[{', '.join(mk(i) for i in range(n))}]"
            decl = f"let mut a: [{ty}; {n}] = {arr};"
            tail = "a"
            T = f"[{ty}; {n}]"

            def item(body):
                g.add(f"pub const C@N@: {T} = {{ {decl} {{ {body} }} {tail} }};")
            wr = lambda r: f"if let [x, ..] = {r} {{ *x = {w9}; }}"
            wr_last = lambda r: f"if let [.., y] = {r} {{ *y = {w7}; }}"
            for i in idxs(n):
                item(f"if let Some(x) = ks::get_mut(&mut a, {i}) {{ *x = {w9}; }}")
                item(f"if let Some(r) = ks::get_from_mut(&mut a, {i}) {{ {wr('r')} }}")
                item(f"if let Some(r) = ks::get_up_to_mut(&mut a, {i}) {{ {wr_last('r')} }}")
                item(f"let r = ks::slice_from_mut(&mut a, {i}); {wr('r')}")
                item(f"let r = ks::slice_up_to_mut(&mut a, {i}); {wr_last('r')}")
                item(f"let (l, r) = ks::split_at_mut(&mut a, {i}); {wr('l')} {wr_last('r')}")
                for j in ([0, n, n + 1, UMAX] if not thorough else idxs(n)):
                    item(f"if let Some(r) = ks::get_range_mut(&mut a, {i}, {j}) {{ {wr('r')} }}")
                    item(f"let r = ks::slice_range_mut(&mut a, {i}, {j}); {wr_last('r')}")
            item(f"if let Some(x) = ks::first_mut(&mut a) {{ *x = {w9}; }}")
            item(f"if let Some(x) = ks::last_mut(&mut a) {{ *x = {w7}; }}")
            item(f"if let Some((x, r)) = ks::split_first_mut(&mut a) {{ *x = {w9}; {wr_last('r')} }}")
            item(f"if let Some((x, r)) = ks::split_last_mut(&mut a) {{ *x = {w7}; {wr('r')} }}")
            for N in sorted(set([0, 1, n])):
                item(f"if let Ok(r) = ks::try_into_array_mut::<{ty}, {N}>(&mut a) {{ let s: &mut [{ty}] = r; if let [x, ..] = s {{ *x = {w9}; }} }}")
    return g


def g_str_slice(thorough):
    g = Group("str_slice")
    strs = ["", "a", "\u00f1", "a\u00f1\u20ac\U0001F600", "\U0001F600\u20aca"] + (words(LET, 2) if thorough else [])
    for k, s in enumerate(dict.fromkeys(strs)):
        S = f"S{k}"
        g.shared += f"pub const {S}: &str = {rs(s)};\n"
        n = len(s.encode())
        ii = list(range(0, n + 3)) + BIG
        for i in ii:
            g.add(f"pub const C@N@: Option<&str> = kst::get_from({S}, {i});")
            g.add(f"pub const C@N@: Option<&str> = kst::get_up_to({S}, {i});")
            g.add(f"pub const C@N@: bool = kst::is_char_boundary({S}, {i});")
            if ok_idx(s, i):
                g.add(f"pub const C@N@: &str = kst::str_from({S}, {i});")
                g.add(f"pub const C@N@: &str = kst::str_up_to({S}, {i});")
                g.add(f"pub const C@N@: (&str, &str) = kst::split_at({S}, {i});")
            jj = ii if (thorough or n <= 3) else [0, 1, n - 1, n, n + 1, UMAX]
            for j in jj:
                g.add(f"pub const C@N@: Option<&str> = kst::get_range({S}, {i}, {j});")
                if ok_idx(s, i) and ok_idx(s, j):
                    g.add(f"pub const C@N@: &str = kst::str_range({S}, {i}, {j});")
    return g


def pats(needle):
    """(kind, rust expression) through which a str needle can be passed to konst::string functions"""
    out = [("str", rs(needle))]
    if len(needle) == 1:
        out.append(("char", rc(needle)))
    return out


def g_str_pat(thorough):
    g = Group("str_pat")
    hays = words(LET, 2) + ["a\u00f1a\u00f1a", "\u20ac\u20ac\u20aca\u20ac\u20ac", "\U0001F600a\U0001F600", "aaaa", "\u00f1a\u00f1\u00f1"]
    if thorough:
        hays = words(LET, 3) + hays[len(words(LET, 2)):]
    needles = ["", "a", "\u00f1", "\u20ac", "\U0001F600", "a\u00f1", "\u20ac\u20ac", "\u00f1a"] if not thorough else words(LET, 2)
    for k, h in enumerate(hays):
        H = f"H{k}"
        g.shared += f"pub const {H}: &str = {rs(h)};\n"
        for nd in needles:
            if not thorough and len(h) <= 2 and len(nd) == 2 and nd not in h:
                continue
            for kind, p in pats(nd):
                for f in ("find_skip", "find_keep", "rfind_skip", "rfind_keep", "strip_prefix", "strip_suffix"):
                    g.add(f"pub const C@N@: Option<&str> = kst::{f}({H}, {p});")
                for f in ("trim_matches", "trim_start_matches", "trim_end_matches"):
                    g.add(f"pub const C@N@: &str = kst::{f}({H}, {p});")
                for f in ("split_once", "rsplit_once"):
                    g.add(f"pub const C@N@: Option<(&str, &str)> = kst::{f}({H}, {p});")
    for k, s in enumerate([" a ", "\t\u00f1\n", "\u000c\u20ac\u000c", " \r\n", "", "\u000b a \u000b", "\U0001F600  "]):
        for f in ("trim", "trim_start", "trim_end"):
            g.add(f"pub const C@N@: &str = kst::{f}({rs(s)});")
    return g


def bpats(nb):
    """(kind, rust expr) for a needle given as bytes, for the konst::slice::bytes_* functions"""
    lit = "".join("\\x%02x" % b for b in nb)
    out = [("bytes", f'(b"{lit}" as &[u8])'), ("arr", f'b"{lit}"')]
    try:
        s = bytes(nb).decode()
        out.append(("str", rs(s)))
        if len(s) == 1:
            out.append(("char", "&" + rc(s)))
    except UnicodeDecodeError:
        pass
    return out


def g_bytes_pat(thorough):
    g = Group("bytes_pat")
    hays = ["", "a", "a\u00f1", "\u00f1\u20ac\u00f1", "\u20ac\u20aca\u20ac", "\U0001F600\U0001F600"] + (words(LET, 2) if thorough else [])
    needles = [b"", b"a", "\u00f1".encode(), b"\xc3", b"\xb1", b"\xb1\xe2", b"\x82\xac", "\u20ac".encode(), b"\xf0\x9f"]
    for k, h in enumerate(dict.fromkeys(hays)):
        H = f"B{k}"
        g.shared += f"pub const {H}: &[u8] = {rs(h)}.as_bytes();\n"
        for nb in needles:
            for kind, p in bpats(nb):
                for f in ("bytes_find_skip", "bytes_find_keep", "bytes_rfind_skip", "bytes_rfind_keep", "bytes_strip_prefix", "bytes_strip_suffix"):
                    g.add(f"pub const C@N@: Option<&[u8]> = ks::{f}({H}, {p});")
                for f in ("bytes_trim_matches", "bytes_trim_start_matches", "bytes_trim_end_matches"):
                    g.add(f"pub const C@N@: &[u8] = ks::{f}({H}, {p});")
        for f in ("bytes_trim", "bytes_trim_start", "bytes_trim_end"):
            g.add(f"pub const C@N@: &[u8] = ks::{f}({H});")
    return g


def g_chars(thorough):
    g = Group("chars")
    g.shared += """
pub const fn fwd(s: &str) -> u64 {
    let mut it = kst::chars(s); let mut t = 0u64;
    while let Some((c, nx)) = it.next() { t = t.wrapping_mul(31).wrapping_add(c as u64); it = nx; t = t.wrapping_add(it.as_str().len() as u64); }
    t
}
pub const fn back(s: &str) -> u64 {
    let mut it = kst::chars(s); let mut t = 0u64;
    while let Some((c, nx)) = it.next_back() { t = t.wrapping_mul(31).wrapping_add(c as u64); it = nx; t = t.wrapping_add(it.as_str().len() as u64); }
    t
}
pub const fn mixed(s: &str) -> u64 {
    let mut it = kst::char_indices(s); let mut t = 0u64; let mut k = 0u32;
    loop {
        let r = if k % 2 == 0 { it.copy().next() } else { it.copy().next_back() };
        match r { Some(((i, c), nx)) => { t = t.wrapping_mul(31).wrapping_add(c as u64 + i as u64); it = nx; } None => break }
        k += 1;
    }
    t + it.as_str().len() as u64
}
pub const fn rfwd(s: &str) -> u64 {
    let mut it = kst::chars(s).rev(); let mut t = 0u64;
    while let Some((c, nx)) = it.next() { t = t.wrapping_mul(31).wrapping_add(c as u64); it = nx; }
    t
}
pub const fn nsplit(s: &str, d: &str) -> usize {
    let mut it = kst::split(s, d); let mut t = 0usize; let mut k = 0usize;
    while let Some((x, nx)) = it.next() { t = t * 5 + x.len() + 1; it = nx; t += it.remainder().len(); k += 1; if k > 64 { panic!("runaway") } }
    t
}
pub const fn nrsplit(s: &str, d: char) -> usize {
    let mut it = kst::rsplit(s, d); let mut t = 0usize; let mut k = 0usize;
    while let Some((x, nx)) = it.next() { t = t * 5 + x.len() + 1; it = nx; t += it.remainder().len(); k += 1; if k > 64 { panic!("runaway") } }
    t
}
pub const fn nsplit_back(s: &str, d: &str) -> usize {
    let mut it = kst::split(s, d); let mut t = 0usize; let mut k = 0usize;
    while let Some((x, nx)) = it.next_back() { t = t * 5 + x.len() + 1; it = nx; k += 1; if k > 64 { panic!("runaway") } }
    t
}
pub const fn nterm(s: &str, d: &str) -> usize {
    let mut it = kst::split_terminator(s, d); let mut t = 0usize; let mut k = 0usize;
    while let Some((x, nx)) = it.next() { t = t * 5 + x.len() + 1; it = nx; k += 1; if k > 64 { panic!("runaway") } }
    t
}
pub const fn nrterm(s: &str, d: &str) -> usize {
    let mut it = kst::rsplit_terminator(s, d); let mut t = 0usize; let mut k = 0usize;
    while let Some((x, nx)) = it.next() { t = t * 5 + x.len() + 1; it = nx; k += 1; if k > 64 { panic!("runaway") } }
    t
}
"""
    M = (1 << 64) - 1
    strs = words(LET, 3 if thorough else 2) + ["a\u00f1\u20ac\U0001F600", "\U0001F600\u20ac\u00f1a"]
    for s in strs:
        # expected value of `fwd` computed here: a changed decoder makes the const item panic (E0080)
        t, rest = 0, len(s.encode())
        for c in s:
            t = (t * 31 + ord(c)) & M
            rest -= len(c.encode())
            t = (t + rest) & M
        g.add(f"pub const C@N@: u64 = {{ let v = fwd({rs(s)}); assert!(v == {t}); v }};")
        g.add(f"pub const C@N@: (u64, u64, u64) = (back({rs(s)}), mixed({rs(s)}), rfwd({rs(s)}));")
        for d in ["", "a", "\u00f1", "\u20ac"]:
            g.add(f"pub const C@N@: (usize, usize, usize, usize) = (nsplit({rs(s)}, {rs(d)}), nsplit_back({rs(s)}, {rs(d)}), nterm({rs(s)}, {rs(d)}), nrterm({rs(s)}, {rs(d)}));")
        g.add(f"pub const C@N@: usize = nrsplit({rs(s)}, {rc(LET[1])});")
    return g


def g_chr(thorough):
    g = Group("chr")
    cs = [0, 0x41, 0x7F, 0x80, 0xF1, 0x7FF, 0x800, 0x20AC, 0xD7FF, 0xE000, 0xFFFF, 0x10000, 0x1F600, 0x10FFFF]
    for c in cs:
        n = len(chr(c).encode())
        g.add(f"pub const C@N@: (usize, u8, u8) = {{ let e = chr::encode_utf8('\\u{{{c:x}}}'); let s = e.as_str(); let b = e.as_bytes(); "
              f"assert!(s.len() == {n} && b.len() == {n}); (s.len(), b[0], b[{n - 1}]) }};")
    ns = [0, 0x7F, 0xD7FF, 0xD800, 0xDBFF, 0xDC00, 0xDFFF, 0xE000, 0x10FFFF, 0x110000, 0x7FFFFFFF, 0x80000000, 0xFFFFFFFF]
    for n in ns:
        g.add(f"pub const C@N@: Option<char> = chr::from_u32({n});")
    g.add("pub const C@N@: usize = { let mut n = 0u32; let mut k = 0usize; while n < 0x120000 { if let Some(c) = chr::from_u32(n) { k += chr::encode_utf8(c).as_str().len(); } n += 0x101; } k };")
    return g


def g_arrays(thorough):
    g = Group("arrays")
    g.shared += """
use konst::array::{ArrayBuilder, ArrayConsumer};
use core::mem::ManuallyDrop as MD;
pub const fn reverse<T, const LEN: usize>(arr: [T; LEN]) -> [T; LEN] {
    let mut iter = ArrayConsumer::new(arr);
    let mut builder = ArrayBuilder::new();
    while let Some(item) = iter.next_back() { builder.push(MD::into_inner(item)); }
    iter.assert_is_empty();
    builder.build()
}
pub const fn interleave<T, const LEN: usize>(arr: [T; LEN]) -> [T; LEN] {
    let mut iter = ArrayConsumer::new(arr);
    let mut builder = ArrayBuilder::new();
    let mut k = 0usize;
    loop {
        let r = if k % 2 == 0 { iter.next() } else { iter.next_back() };
        match r { Some(item) => builder.push(MD::into_inner(item)), None => break }
        k += 1;
    }
    iter.assert_is_empty();
    builder.build()
}
pub const fn swap_pairs<T, U, const N: usize>(pairs: [(T, U); N]) -> [(U, T); N] {
    konst::array::map_!(pairs, |pair: (T, U)| { konst::destructure!{(a, b) = pair} (b, a) })
}
pub struct Pt<T> { pub x: T, pub y: T }
pub const fn pt_to_arr<T>(p: Pt<T>) -> [T; 2] { konst::destructure!{Pt{x, y} = p} [y, x] }
pub const fn arr_ends<T>(a: [T; 3]) -> (T, T) { konst::destructure!{[f, m, l] = a} core::mem::forget(m); (f, l) }
"""
    for n in ([0, 1, 3, 8] if not thorough else [0, 1, 2, 3, 5, 8, 16]):
        g.add(f"pub const C@N@: [usize; {n}] = konst::iter::collect_const!(usize => 0..{n});")
        g.add(f"pub const C@N@: [usize; {n}] = konst::iter::collect_const!(usize => 0..{n}, map(|x| x * 3));")
        g.add(f"pub const C@N@: [usize; {n}] = array::from_fn!(|i| i * 2);")
        g.add(f"pub const C@N@: [usize; {n}] = array::from_fn_!(|i| i * 2);")
        g.add(f"pub const C@N@: [&str; {n}] = array::from_fn!([&str; {n}] => |i| kst::str_up_to(\"hello wo\", i));")
        arr = "[" + ", ".join(str(i + 1) for i in range(n)) + "]"
        g.add(f"pub const C@N@: [u32; {n}] = array::map!({arr} as [u32; {n}], |x: u32| x * x);")
        g.add(f"pub const C@N@: [u32; {n}] = array::map_!({arr} as [u32; {n}], |x: u32| x + 1);")
        g.add(f"pub const C@N@: [u32; {n}] = reverse({arr} as [u32; {n}]);")
        g.add(f"pub const C@N@: [u32; {n}] = interleave({arr} as [u32; {n}]);")
        nc = "[" + ", ".join(f"NC({i})" for i in range(n)) + "]"
        g.add(f"pub const C@N@: [u8; {n}] = {{ let input: [NC; {n}] = {nc}; array::map!(input, |NC(l)| l) }};")
        g.add(f"pub const C@N@: [u8; {n}] = {{ let input: [NC; {n}] = reverse({nc}); array::map!(input, |ref nc| nc.0) }};")
        pr = "[" + ", ".join(f'("s{i}", {i}u8)' for i in range(n)) + "]"
        g.add(f"pub const C@N@: [(u8, &str); {n}] = swap_pairs({pr} as [(&str, u8); {n}]);")
    g.add("pub const C@N@: [u8; 2] = pt_to_arr(Pt{x: 3u8, y: 5u8});")
    g.add("pub const C@N@: (u8, u8) = arr_ends([3u8, 5, 8]);")
    g.add("pub const C@N@: [u8; 4] = konst::iter::collect_const!(u8 => &[1u8, 2, 3, 4, 5, 6], copied(), filter(|x| *x % 2 == 0 || *x == 1), take(4));")
    g.add("pub const C@N@: [u32; 10] = { let mut b = ArrayBuilder::new(); b.push(1); b.push(1); while !b.is_full() { let [.., x, y] = *b.as_slice() else { unreachable!() }; b.push(x + y); } b.build() };")
    return g


def g_concat(thorough):
    g = Group("concat")
    parts = [["a\u00f1", "\u20ac"], [], [""], ["", "\U0001F600", ""], ["these ", "are ", "words"]]
    for k, p in enumerate(parts):
        arr = "&[" + ", ".join(rs(x) for x in p) + "]"
        if not p:
            arr = "&[]"
        g.add(f"pub const C@N@: &str = kst::str_concat!({arr});")
        if p:
            g.add(f"pub const C@N@: &str = kst::str_join!({rs(LET[2])}, {arr});")
            g.add(f"pub const C@N@: &str = kst::str_join!({rc(LET[3])}, {arr});")
    g.add(f"pub const C@N@: &str = kst::str_concat!(&[{rc(LET[0])}, {rc(LET[1])}, {rc(LET[2])}, {rc(LET[3])}]);")
    g.add("pub const C@N@: &str = kst::str_join!(\",\", &[]);")
    g.add("pub const C@N@: [u8; 6] = ks::slice_concat!(u8, &[&[3, 5], &[8, 13, 21, 34]]);")
    g.add("pub const C@N@: [u8; 0] = ks::slice_concat!(u8, &[]);")
    g.add("pub const C@N@: [u8; 5] = ks::slice_concat!(u8, &[&[], &[1, 2, 3], &[4, 5]]);")
    g.add("pub const C@N@: &str = kst::from_iter!(&[\"foo\", \"b\\u{f1}r\", \"\\u{1f600}\"], flat_map(|s| kst::chars(s)));")
    return g


def g_cstr(thorough):
    g = Group("cstr")
    g.shared += """
use core::ffi::CStr;
pub const fn mk(b: &'static [u8]) -> &'static CStr { match cstr::from_bytes_with_nul(b) { Ok(c) => c, Err(_) => panic!("bad") } }
pub const fn mk2(b: &'static [u8]) -> &'static CStr { match cstr::from_bytes_until_nul(b) { Ok(c) => c, Err(_) => panic!("bad") } }
"""
    for lit, utf8 in [("", True), ("a", True), ("a\\xc3\\xb1", True), ("\\xff", False), ("\\xc3", False), ("abc\\xe2\\x82\\xac", True)]:
        g.add(f'pub const C@N@: &[u8] = cstr::to_bytes(mk(b"{lit}\\0"));')
        g.add(f'pub const C@N@: &[u8] = cstr::to_bytes_with_nul(mk(b"{lit}\\0"));')
        g.add(f'pub const C@N@: &[u8] = cstr::to_bytes(mk2(b"{lit}\\0tail\\0"));')
        g.add(f'pub const C@N@: Option<&str> = match cstr::to_str(mk(b"{lit}\\0")) {{ Ok(s) => Some(s), Err(_) => None }};')
        g.add(f'pub const C@N@: bool = {{ let r = kst::from_utf8(b"{lit}"); assert!(matches!(r, Ok(_)) == {str(utf8).lower()}); true }};')
    g.add('pub const C@N@: bool = matches!(cstr::from_bytes_with_nul(b"a\\0b\\0"), Err(_)) && matches!(cstr::from_bytes_with_nul(b"ab"), Err(_)) && matches!(cstr::from_bytes_until_nul(b"ab"), Err(_));')
    return g


GROUPS = [g_slice, g_slice_mut, g_str_slice, g_str_pat, g_bytes_pat, g_chars, g_chr, g_arrays, g_concat, g_cstr]


def codes(stderr):
    cs = sorted(set(re.findall(r"error\[(E\d+)\]", stderr)))
    return ",".join(cs) if cs else "other"


def const_rows(ctx, wd, rows, group_fns=None):
    thorough = ctx["tier"] == "thorough"
    groups = [f(thorough) for f in (group_fns or GROUPS)]
    jobs = []
    for g in groups:
        src = os.path.join(wd, f"const_{g.name}.rs")
        with open(src, "w") as f:
            f.write(g.source())
        jobs.append((src, os.path.join(wd, f"libconst_{g.name}.rmeta"), "metadata"))
    res = common.compile_many(jobs, workers=10)
    stats = {}
    rejected = []
    for g, (rcode, err) in zip(groups, res):
        stats[g.name] = len(g.items)
        if rcode == 0:
            rows.append((f"ub.const {g.name}", "accept", "accept", True))
            continue
        rows.append((f"ub.const {g.name}", "reject:" + codes(err), "accept", True))
        # localise: every item is exactly one source line, so the line numbers rustc mentions in an error
        # block (primary span or the "inside ..." backtrace of a shared const fn) name the offending items
        first_line = (PRELUDE + g.shared + "\n").count("\n") + 1
        src = os.path.join(wd, f"const_{g.name}.rs")
        bad = {}
        for block in re.split(r"\n(?=error)", err):
            if not block.startswith("error"):
                continue
            code = codes(block)
            for m in re.finditer(re.escape(src) + r":(\d+):", block):
                i = int(m.group(1)) - first_line
                if 0 <= i < len(g.items):
                    bad.setdefault(i, (code, block.splitlines()[0]))
        if not bad:
            # fall back: compile (a bounded number of) items on their own
            idx = list(range(len(g.items)))[:300]
            ijobs = []
            for i in idx:
                isrc = os.path.join(wd, f"const_{g.name}_{i}.rs")
                with open(isrc, "w") as f:
                    f.write(g.source(only=i))
                ijobs.append((isrc, os.path.join(wd, f"libconst_{g.name}_{i}.rmeta"), "metadata"))
            for i, (irc, ierr) in zip(idx, common.compile_many(ijobs, workers=16)):
                if irc != 0:
                    bad[i] = (codes(ierr), next((l for l in ierr.splitlines() if l.startswith("error")), ""))
        for i in sorted(bad):
            code, first = bad[i]
            isrc = os.path.join(wd, f"const_{g.name}_{i}.rs")
            with open(isrc, "w") as f:
                f.write(g.source(only=i))
            rows.append((f"ub.const {g.name}:{i}", "reject:" + code, "accept", True))
            if len(rejected) < 8:
                rejected.append({"program": isrc, "item": g.items[i].replace("@N@", str(i)), "rustc": first[:300]})
    ctx["extra"]["const_items_per_group"] = stats
    ctx["extra"]["const_items_total"] = sum(stats.values())
    if rejected:
        ctx["extra"]["rejected_const_items"] = rejected


def miri_rows(ctx, wd, rows):
    env = dict(core.ENV)
    env["CARGO_TARGET_DIR"] = os.path.join(core.BUILD, "cargo_miri")
    env["KH_FLUSH"] = "1"
    env["MIRIFLAGS"] = (env.get("MIRIFLAGS", "") + " -Zmiri-env-forward=KH_FLUSH").strip()
    out_path = os.path.join(wd, "miri_c01.tsv")
    t0 = time.time()
    try:
        with open(out_path, "w") as f:
            p = subprocess.run(["cargo", "+nightly", "miri", "run", "--offline", "--quiet", "--", "c01", "miri", str(ctx["seed"])],
                               cwd=core.HARNESS, env=env, stdout=f, stderr=subprocess.PIPE, text=True, timeout=3000)
        rc_, err = p.returncode, p.stderr
    except subprocess.TimeoutExpired as e:
        rc_, err = -9, "timeout"
    except OSError as e:
        rc_, err = -1, str(e)
    ctx["extra"]["miri_wall_s"] = round(time.time() - t0, 1)
    lines = []
    try:
        with open(out_path) as f:
            lines = [l.rstrip("\n") for l in f if l.count("\t") == 3]
    except OSError:
        pass
    ctx["extra"]["miri_requests"] = len(lines)
    last = lines[-1].split("\t", 1)[0] if lines else "-"
    if rc_ == 0 and lines:
        rows.append((f"ub.miri c01 all {len(lines)} requests", "clean", "clean", True))
    elif "Undefined Behavior" in err:
        m = re.search(r"error: Undefined Behavior: ([^\n]*)", err)
        rows.append((f"ub.miri c01 after: {last}", "ub:" + (m.group(1) if m else "?")[:200].replace("\t", " "), "clean", True))
        ctx["extra"]["miri_report"] = err[-3000:]
    else:
        # Miri itself could not run (missing component, unsupported operation, timeout): not a verdict
        raise RuntimeError("miri could not be run on the harness: rc=%s %s" % (rc_, err[-1200:]))
    for l in lines:
        req, imp, ora, sc = l.split("\t")
        rows.append((req, imp, ora, sc == "in"))


def generate(ctx):
    wd = common.workdir("C01")
    rows = []
    only = ctx.get("only")
    const_rows(ctx, wd, rows)
    if ctx["tier"] == "thorough" and (only is None or any(r.startswith("ub.miri") for r in only) or True):
        miri_rows(ctx, wd, rows)
    return common.write_tsv(os.path.join(wd, "c01_programs.tsv"), rows)
