"""
C11 generated programs: closures with early exits (break / continue / continue-once / return / labelled
break+continue to a caller label / panic at index k) inside array::map!/from_fn!/map_!/from_fn_!, in a fn
and as a const initialiser, and collect_const! with the same exits inside its chain.

Observed outcome per case ∈ {array value, panic, timeout (2 s cap run / 8 s cap const evaluation),
returned (control left the expansion), does-not-compile}.  Oracle: <[T;N]>::map / core::array::from_fn /
Iterator::collect for well-behaved closures, `panic` where std panics too, `?` otherwise.
Requests: see lean/Driver/C11.lean.
"""
import os, re, concurrent.futures
from vlib import core
from vlib.progs import common

MACS = ["map", "from_fn", "map_", "from_fn_"]
KINDS_FN = ["brk", "cont", "cont1", "ret", "lbrk", "lcont", "panic"]
KINDS_CONST = ["brk", "cont", "ret", "panic"]


def elog_src():
    """the drop-logging element of the harness (harness/src/util.rs, `pub mod elog`)"""
    s = open(os.path.join(core.HARNESS, "src", "util.rs")).read()
    i = s.index("pub mod elog {")
    return s[i:]


def exit_stmt(kind, ret_expr="return None;"):
    return {"brk": "break;", "cont": "continue;", "cont1": "if !seen.replace(true) { continue; }",
            "ret": ret_expr, "lbrk": "break 'outer;", "lcont": "continue 'outer;",
            "panic": "panic!(\"hostile\");"}[kind]


def macro_call(mac, elem, n, kind, k, ret_expr="return None;"):
    """(expression text, result element type) for one invocation; the closure is the shared library:
    map value 2x+1 on inputs 10+i, from_fn value 3i+2"""
    ex = "" if kind == "none" else "if IDX == %d { %s }" % (k, exit_stmt(kind, ret_expr))
    if elem in ("zst", "unit"):
        # zero-sized OUTPUT elements (`zst`: a token with a destructor and a live-token counter; `unit`: `()`,
        # usable in a const initialiser): `size_of::<[T; N]>() == 0`, so only the element COUNT protects `build()`
        val = "elog::znew()" if elem == "zst" else "()"
        inp = "input_copy::<%d>()" % n
        if mac in ("map", "map_"):
            return "konst::array::%s!(%s, |x| { %s %s })" % (mac, inp, ex.replace("IDX", "(x - 10)"), val)
        return "konst::array::%s!(|i| { %s %s })" % (mac, ex.replace("IDX", "i"), val)
    if elem == "copy":
        inp = "input_copy::<%d>()" % n
        if mac == "map":
            return "konst::array::map!(%s, |x| { %s 2 * x + 1 })" % (inp, ex.replace("IDX", "(x - 10)"))
        if mac == "map_":
            return "konst::array::map_!(%s, |x| { %s 2 * x + 1 })" % (inp, ex.replace("IDX", "(x - 10)"))
        if mac == "from_fn":
            return "konst::array::from_fn!(|i| { %s 3 * i as u64 + 2 })" % ex.replace("IDX", "i")
        return "konst::array::from_fn_!(|i| { %s 3 * i as u64 + 2 })" % ex.replace("IDX", "i")
    inp = "input_log::<%d>()" % n
    if mac == "map":
        return "{ let inp = %s; konst::array::map!(inp, |ref e| { let x = e.val as u64; %s 2 * x + 1 }) }" % (inp, ex.replace("IDX", "(x - 10)"))
    if mac == "map_":
        return "konst::array::map_!(%s, |e: E| { let x = e.val as u64; drop(e); %s elog::with_val((2 * x + 1) as u32) })" % (inp, ex.replace("IDX", "(x - 10)"))
    if mac == "from_fn":
        return "konst::array::from_fn!(|i| { %s elog::with_val(3 * i as u32 + 2) })" % ex.replace("IDX", "i")
    return "konst::array::from_fn_!(|i| { %s elog::with_val(3 * i as u32 + 2) })" % ex.replace("IDX", "i")


def out_type(mac, elem, n):
    if elem == "zst":
        return "[elog::Z; %d]" % n
    if elem == "log" and mac != "map":
        return "[E; %d]" % n
    return "[u64; %d]" % n


PRELUDE = """
#![allow(unused, unreachable_code)]
use std::cell::Cell;
%s
use elog::E;
fn input_copy<const N: usize>() -> [u64; N] { core::array::from_fn(|i| 10 + i as u64) }
fn input_log<const N: usize>() -> [E; N] { core::array::from_fn(|i| elog::with_val(10 + i as u32)) }
trait Show { fn show(&self) -> String; }
impl<const N: usize> Show for [u64; N] { fn show(&self) -> String { format!("[{}]", self.iter().map(|x| x.to_string()).collect::<Vec<_>>().join(";")) } }
impl<const N: usize> Show for [E; N] { fn show(&self) -> String { format!("[{}]", self.iter().map(|x| x.val.to_string()).collect::<Vec<_>>().join(";")) } }
impl<const N: usize> Show for [elog::Z; N] { fn show(&self) -> String {
    // zero-sized tokens have no value: the array is shown by its length; the number of LIVE tokens (created and
    // not dropped) must be exactly that length — an array of tokens that were never created is flagged
    let s = format!("[{}]", vec!["z"; N].join(";"));
    if elog::zlive() == N as i64 { s } else { format!("{}|LIVE={}", s, elog::zlive()) } } }
impl Show for [usize] { fn show(&self) -> String { format!("[{}]", self.iter().map(|x| x.to_string()).collect::<Vec<_>>().join(";")) } }
"""


def fn_case(cid, mac, elem, n, kind, k):
    ty = out_type(mac, elem, n)
    call = macro_call(mac, elem, n, kind, k)
    body = "let r: %s = %s; return Some(r);" % (ty, call)
    if kind in ("lbrk",):
        body = "'outer: loop { %s } None" % body
    elif kind == "lcont":
        body = "let mut pass = 0; 'outer: loop { pass += 1; if pass == 2 { return None; } %s }" % body
    return """
fn case_%d() -> String {
    fn inner() -> Option<%s> { let seen = Cell::new(false); %s }
    match inner() { Some(a) => a.show(), None => "returned".to_string() }
}""" % (cid, ty, body)


def fn_program(cases):
    src = PRELUDE % elog_src()
    for i, c in enumerate(cases):
        src += fn_case(i, *c)
    src += "\nfn main() {\n    std::panic::set_hook(Box::new(|_| {}));\n    let id: usize = std::env::args().nth(1).unwrap().parse().unwrap();\n"
    src += "    let f: fn() -> String = match id {\n"
    for i in range(len(cases)):
        src += "        %d => case_%d,\n" % (i, i)
    src += "        _ => unreachable!(),\n    };\n"
    src += "    let r = std::panic::catch_unwind(f).unwrap_or_else(|_| \"panic\".to_string());\n    println!(\"{}\", r);\n}\n"
    return src


def std_value(mac, n):
    if mac in ("map", "map_"):
        return "[" + ";".join(str(2 * (10 + i) + 1) for i in range(n)) + "]"
    return "[" + ";".join(str(3 * i + 2) for i in range(n)) + "]"


def oracle_for(mac, n, kind, k, ctx, elem="copy"):
    hostile = kind != "none" and k < n
    if not hostile:
        if elem in ("zst", "unit"):
            return "[" + ";".join("z" for _ in range(n)) + "]"
        return std_value(mac, n)
    if kind == "panic":
        return "panic" if ctx == "fn" else "does-not-compile"
    return "?"


def safe_row(rows, req, res, n, kind, k):
    """the property's own oracle for a reached early exit: anything but an array"""
    if kind not in ("none", "cont1") and k < n:
        rows.append((req.replace("arr.", "arr.safe.", 1), res if res.startswith("[") else "noarray", "noarray", True))


def generate(ctx):
    tier = ctx["tier"]
    d = common.workdir(ctx["pid"] + "_c11")
    rows = []
    maxn = 4 if tier == "thorough" else 3
    elems = ["copy", "log"]

    # ---- fn context -------------------------------------------------------------------------
    cases = []
    for mac in MACS:
        for elem in elems:
            for n in range(0, maxn + 1):
                cases.append((mac, elem, n, "none", 0))
                for kind in KINDS_FN:
                    for k in range(n):
                        if tier != "thorough" and elem == "log" and kind in ("lbrk", "lcont") and n < maxn:
                            continue
                        cases.append((mac, elem, n, kind, k))
                    # an exit index that is never reached: the closure is well-behaved
                    if n == 2:
                        cases.append((mac, elem, n, kind, n))
    # zero-sized output elements: all exits for the by-value macros (they rely on `ArrayBuilder::build` to notice
    # a skipped push); for the by-reference macros only the exits that cannot spin (no `continue` time-outs)
    for mac in MACS:
        for n in range(0, maxn + 1):
            cases.append((mac, "zst", n, "none", 0))
            for kind in (KINDS_FN if mac in ("map_", "from_fn_") else ["brk", "cont1", "panic"]):
                for k in range(n):
                    cases.append((mac, "zst", n, kind, k))
                if n == 2:
                    cases.append((mac, "zst", n, kind, n))
    src = os.path.join(d, "fncases.rs")
    open(src, "w").write(fn_program(cases))
    binp = os.path.join(d, "fncases")
    rc, err = common.compile_one(src, binp)
    if rc != 0:
        raise RuntimeError("C11 fn-context program does not compile: " + err[-1500:])

    def run_case(i, cap=2):
        rc, out, err = common.run_bin(binp, [str(i)], timeout=cap)
        if err == "timeout":
            return "timeout"
        out = out.strip()
        return out if rc == 0 and out else "crash:%d" % rc

    with concurrent.futures.ThreadPoolExecutor(max_workers=16) as ex:
        results = list(ex.map(run_case, range(len(cases))))
        # a timeout is confirmed with a longer cap (a loaded machine must not turn a slow run into `timeout`)
        slow = [i for i, r in enumerate(results) if r == "timeout"]
        for i, r in zip(slow, ex.map(lambda i: run_case(i, 6), slow)):
            results[i] = r
    for (mac, elem, n, kind, k), res in zip(cases, results):
        req = "arr.%s fn %s %d %s" % (mac, elem, n, "none" if kind == "none" else "%s@%d" % (kind, k))
        rows.append((req, res, oracle_for(mac, n, kind, k, "fn", elem), True))
        safe_row(rows, req, res, n, kind, k)

    # ---- const context ----------------------------------------------------------------------
    ccases = []
    for mac in MACS:
        for n in ([0, 1, 3] if tier != "thorough" else [0, 1, 2, 3]):
            ccases.append((mac, "copy", n, "none", 0))
            for kind in KINDS_CONST:
                for k in range(n):
                    ccases.append((mac, "copy", n, kind, k))
    # `[(); N]` outputs of the by-value macros as const initialisers (a skipped push must be a compile error)
    for mac in ("map_", "from_fn_"):
        for n in ([1, 3] if tier != "thorough" else [1, 2, 3]):
            ccases.append((mac, "unit", n, "none", 0))
            for kind in ("brk", "cont", "panic"):
                for k in range(n):
                    ccases.append((mac, "unit", n, kind, k))
    jobs = []
    for i, (mac, elem, n, kind, k) in enumerate(ccases):
        call = macro_call(mac, elem, n, kind, k, ret_expr="return [0; %d];" % n)
        lit = "[" + ", ".join("%du64" % (10 + j) for j in range(n)) + "]" if n else "[0u64; 0]"
        call = call.replace("input_copy::<%d>()" % n, lit)
        if elem == "unit":
            s = "#![allow(unused, unreachable_code)]\npub const A: [(); %d] = %s;\nfn main() { println!(\"[{}]\", A.iter().map(|_| \"z\").collect::<Vec<_>>().join(\";\")); }\n" % (n, call)
        else:
            s = "#![allow(unused, unreachable_code)]\npub const A: [u64; %d] = %s;\nfn main() { println!(\"[{}]\", A.iter().map(|x| x.to_string()).collect::<Vec<_>>().join(\";\")); }\n" % (n, call)
        p = os.path.join(d, "const_%d.rs" % i)
        open(p, "w").write(s)
        jobs.append((p, os.path.join(d, "const_%d" % i)))

    def const_case(job):
        srcp, outp = job
        try:
            rc, err = common.compile_one(srcp, outp, timeout=8)
        except Exception:  # subprocess.TimeoutExpired: the const evaluator never finishes
            return "timeout"
        if rc != 0:
            return "does-not-compile" if re.search(r"^error", err, re.M) else "crash"
        rc, out, err = common.run_bin(outp, [], timeout=5)
        return out.strip() if rc == 0 else "crash:%d" % rc

    with concurrent.futures.ThreadPoolExecutor(max_workers=16) as ex:
        cres = list(ex.map(const_case, jobs))
    for (mac, elem, n, kind, k), res in zip(ccases, cres):
        req = "arr.%s const %s %d %s" % (mac, elem, n, "none" if kind == "none" else "%s@%d" % (kind, k))
        rows.append((req, res, oracle_for(mac, n, kind, k, "const", elem), True))
        safe_row(rows, req, res, n, kind, k)

    # ---- collect_const! ---------------------------------------------------------------------
    cc = []
    for chain in ("plain", "filter"):
        for n in range(0, (6 if tier == "thorough" else 5)):
            cc.append((chain, n, "none", 0))
            for kind in ("brk", "cont", "ret", "panic"):
                for k in range(n):
                    cc.append((chain, n, kind, k))

    def cc_expr(chain, n, kind, k):
        ex = "" if kind == "none" else "if x == %d { %s }" % (k, exit_stmt(kind, "return;"))
        flt = "filter(|x| *x % 2 == 0), " if chain == "filter" else ""
        return "konst::iter::collect_const!(usize => 0..%dusize, %smap(|x| { %s 3 * x + 2 }))" % (n, flt, ex)

    def cc_items(chain, n):
        return [i for i in range(n) if chain == "plain" or i % 2 == 0]

    good = [c for c in cc if c[2] in ("none", "brk", "cont")]
    bad = [c for c in cc if c[2] in ("ret", "panic")]
    src = "#![allow(unused, unreachable_code)]\n"
    for i, c in enumerate(good):
        src += "const A%d: &[usize] = &%s;\n" % (i, cc_expr(*c))
    src += "fn main() {\n"
    for i in range(len(good)):
        src += "    println!(\"[{}]\", A%d.iter().map(|x| x.to_string()).collect::<Vec<_>>().join(\";\"));\n" % (i, )
    src += "}\n"
    p = os.path.join(d, "cc_good.rs")
    open(p, "w").write(src)
    rc, err = common.compile_one(p, os.path.join(d, "cc_good"))
    if rc == 0:
        rc2, out, err2 = common.run_bin(os.path.join(d, "cc_good"), [], timeout=20)
        gres = out.strip().split("\n") if rc2 == 0 else ["crash"] * len(good)
        if len(gres) != len(good):
            gres = ["crash"] * len(good)
    else:
        # something that should compile does not: find out which, one by one
        jobs = []
        for i, c in enumerate(good):
            q = os.path.join(d, "ccg_%d.rs" % i)
            open(q, "w").write("#![allow(unused, unreachable_code)]\nconst A: &[usize] = &%s;\nfn main() { println!(\"[{}]\", A.iter().map(|x| x.to_string()).collect::<Vec<_>>().join(\";\")); }\n" % cc_expr(*c))
            jobs.append((q, os.path.join(d, "ccg_%d" % i)))
        with concurrent.futures.ThreadPoolExecutor(max_workers=16) as ex:
            gres = list(ex.map(const_case, jobs))
    for c, res in zip(good, gres):
        chain, n, kind, k = c
        hostile = kind != "none" and k in cc_items(chain, n)
        ora = "?" if hostile else "[" + ";".join(str(3 * i + 2) for i in cc_items(chain, n)) + "]"
        rows.append(("arr.cc %s %d %s" % (chain, n, "none" if kind == "none" else "%s@%d" % (kind, k)), res, ora, True))
    jobs = []
    for i, c in enumerate(bad):
        q = os.path.join(d, "ccb_%d.rs" % i)
        open(q, "w").write("#![allow(unused, unreachable_code)]\npub const A: &[usize] = &%s;\n" % cc_expr(*c))
        jobs.append((q, os.path.join(d, "ccb_%d.rmeta" % i), "metadata"))
    bres = common.compile_many(jobs)
    for c, (rc, err) in zip(bad, bres):
        chain, n, kind, k = c
        if rc != 0:
            res = "does-not-compile"
        else:
            # it compiled: the exit was never reached (filtered out) — evaluate it like a good case
            q = os.path.join(d, "ccbx_%s_%d_%s_%d.rs" % c)
            open(q, "w").write("#![allow(unused, unreachable_code)]\nconst A: &[usize] = &%s;\nfn main() { println!(\"[{}]\", A.iter().map(|x| x.to_string()).collect::<Vec<_>>().join(\";\")); }\n" % cc_expr(*c))
            res = const_case((q, q[:-3]))
        hostile = k in cc_items(chain, n)
        # a `return` in the chain is a type error even when the item is filtered out
        ora = "?" if (hostile or kind == "ret") else "[" + ";".join(str(3 * i + 2) for i in cc_items(chain, n)) + "]"
        rows.append(("arr.cc %s %d %s@%d" % (chain, n, kind, k), res, ora, True))

    tsv = os.path.join(core.BUILD, "t_%s_progs_c11.tsv" % ctx["pid"])
    if ctx.get("only") is not None:
        rows = [r for r in rows if r[0] in ctx["only"]]
    return common.write_tsv(tsv, rows)
