"""
C19, second generator: ARGUMENT EVALUATION and NAME HYGIENE / POSITION of the option::/result:: macros, try_!,
try_opt!, try_rebind!, rebind_if_ok!, min!/max!(_by(_key)).  The units are added to the chunks of vlib/progs/c19.py.

 (1) `ev.<fam>.<macro>.<form>.<shape> <stream1> [<stream2>]`   (in scope)  -> <value>|<evaluation counts>
     `evo.<same>`                                               (OUT of scope) -> the order of all evaluation events
     The argument EXPRESSIONS have side effects: `pop(&mut cursor)` (shape se) or `{ k += 1; vals[k-1] }` (sb); the
     k-th evaluation yields the k-th value of the stream.  Events: o = the Option/Result (rebind: right-hand side)
     expression, d = the eager second argument, c = a call of the closure body / function, f = the evaluation of a
     function-VALUED argument expression (forms `fx`), a/b = the two min/max arguments, k/q = key function applied
     to the first/second argument.  Closure literals capture and mutate a local `n` (reported as n<k>).
     The oracle is the std method / `?` / `if let` / std::cmp function given the SAME argument expressions.
 (2) `hy.<tag> <base request of c19.py>`  -> what the base request answers
     the same macro call as the base unit of c19.py, but (a) in another POSITION (tc trailing comma, blk / ifm block,
     `if`, `match` expressions as arguments, op / arg / scr operator, function argument, match scrutinee, ctl inside the
     caller's loop, clo inside a closure, nest nested in other macros, kfn in a `const fn` of another return type,
     kit `const` items), (b) with caller VARIABLES / closure parameters / functions named like the identifiers the
     expansion binds (nm.*), (c) with caller ITEMS of those names (item.const|static|ustruct.<name>), mentioned in
     the argument expressions.  std's method has no reserved names: expected = compiles and equals std.
     Tags ret.* (return / break / continue inside a pseudo-closure), syn.* (closure syntax std accepts), fnx.* (block-like
     function expressions) are OUT of scope: documented / outside "accepted argument form".
"""
import itertools

PRELUDE2 = r'''
// ---- evaluation log (ev. / evo. units) ----
thread_local! { pub static LOG: std::cell::RefCell<String> = std::cell::RefCell::new(String::new()); }
pub fn note(tag: char) { LOG.with(|l| l.borrow_mut().push(tag)); }
pub fn log_take() -> String { LOG.with(|l| std::mem::take(&mut *l.borrow_mut())) }
pub fn cnt(log: &str, c: char) -> usize { log.chars().filter(|x| *x == c).count() }
pub fn dash(s: String) -> String { if s.is_empty() { "-".to_string() } else { s } }
pub struct Cur<'a, V: Clone> { pub vals: &'a [V], pub pos: usize, pub tag: char }
pub fn cur<'a, V: Clone>(vals: &'a [V], tag: char) -> Cur<'a, V> { Cur { vals, pos: 0, tag } }
/// every call is one evaluation of the argument expression: the k-th call yields the k-th value
pub fn pop<'a, V: Clone>(c: &mut Cur<'a, V>) -> V { note(c.tag); let i = c.pos.min(c.vals.len() - 1); c.pos += 1; c.vals[i].clone() }
// functions that log their call (c); the same functions as the closure library above
pub fn fb0n() -> i64 { note('c'); 7 }
pub fn fbe0n() -> i64 { note('c'); 77 }
pub fn fbs0n() -> Option<i64> { note('c'); Some(7) }
pub fn m1n(x: i64) -> i64 { note('c'); x * 3 + 1 }
pub fn at1n(x: i64) -> Option<i64> { note('c'); if x >= 0 { Some(x + 1) } else { None } }
pub fn predn(x: &i64) -> bool { note('c'); *x > 0 }
pub fn e1n(e: i64) -> i64 { note('c'); e * 2 + 1 }
pub fn rat1n(x: i64) -> Result<i64, i64> { note('c'); if x >= 0 { Ok(x + 1) } else { Err(x - 1) } }
pub fn roe1n(e: i64) -> Result<i64, i64> { note('c'); if e >= 0 { Ok(e + 2) } else { Err(e - 2) } }
// function-VALUED argument expressions with a side effect (f)
pub fn g_fb0n() -> fn() -> i64 { note('f'); fb0n }
pub fn g_fbe0n() -> fn() -> i64 { note('f'); fbe0n }
pub fn g_m1n() -> fn(i64) -> i64 { note('f'); m1n }
pub fn g_e1n() -> fn(i64) -> i64 { note('f'); e1n }
pub fn g_rat1n() -> fn(i64) -> Result<i64, i64> { note('f'); rat1n }
pub fn g_roe1n() -> fn(i64) -> Result<i64, i64> { note('f'); roe1n }
pub fn kq(id: u8) -> char { if id % 2 == 1 { 'k' } else { 'q' } }
pub fn cmp_key_n(l: &Keyed, r: &Keyed) -> Ordering { note('c'); l.key.cmp(&r.key) }
pub fn key_of_n(x: &Keyed) -> i64 { note(kq(x.id)); x.key }
pub fn g_cmp_key_n() -> fn(&Keyed, &Keyed) -> Ordering { note('f'); cmp_key_n }
pub fn g_key_of_n() -> fn(&Keyed) -> i64 { note('f'); key_of_n }
pub fn sh_os(s: &[Option<i64>]) -> String { s.iter().map(|o| fo(*o)).collect::<Vec<_>>().join("/") }
pub fn sh_oos(s: &[Option<Option<i64>>]) -> String { s.iter().map(|o| foo(*o)).collect::<Vec<_>>().join("/") }
pub fn sh_rs(s: &[Result<i64, i64>]) -> String { s.iter().map(|r| fr(*r)).collect::<Vec<_>>().join("/") }
pub fn sh_is(s: &[i64]) -> String { s.iter().map(|v| v.to_string()).collect::<Vec<_>>().join("/") }
pub fn sh_ks(s: &[Keyed]) -> String { s.iter().map(|k| format!("{}:{}", k.key, k.id)).collect::<Vec<_>>().join("/") }
pub fn sh_ps(s: &[Result<(i64, i64), i64>]) -> String {
    s.iter().map(|r| match r { Ok((a, b)) => format!("ok:{},{}", a, b), Err(e) => format!("err:{}", e) }).collect::<Vec<_>>().join("/")
}
fn split2(s: &str) -> (String, String) { match s.split_once("||") { Some((a, b)) => (a.to_string(), b.to_string()), None => (s.to_string(), s.to_string()) } }
/// "<value|counts>||<order>" -> the in-scope row `ev.` and the out-of-scope row `evo.`
pub fn rows2(req: String, imp: String, ora: String) {
    let (i1, i2) = split2(&imp); let (o1, o2) = split2(&ora);
    println!("ev.{}\t{}\t{}\tin", req, i1, o1);
    println!("evo.{}\t{}\t{}\tout", req, i2, o2);
}
// ---- hy. units ----
pub fn ident<T>(t: T) -> T { t }
pub fn tickb() -> bool { tick(); true }
pub fn wcx(v: String) -> String { format!("{}|calls:-", v) }
// const versions of the closure library (const fn / const item positions: no call counter)
pub const fn cfb0() -> i64 { 7 }
pub const fn cfbe0() -> i64 { 77 }
pub const fn cfbs0() -> Option<i64> { Some(7) }
pub const fn cm1(x: i64) -> i64 { x * 3 + 1 }
pub const fn cat1(x: i64) -> Option<i64> { if x >= 0 { Some(x + 1) } else { None } }
pub const fn cpred(x: &i64) -> bool { *x > 0 }
pub const fn ce1(e: i64) -> i64 { e * 2 + 1 }
pub const fn crat1(x: i64) -> Result<i64, i64> { if x >= 0 { Ok(x + 1) } else { Err(x - 1) } }
pub const fn croe1(e: i64) -> Result<i64, i64> { if e >= 0 { Ok(e + 2) } else { Err(e - 2) } }
// generic functions / paths with generic arguments / associated functions / constructors as function arguments
pub fn gm1<T: Into<i64>>(x: T) -> i64 { tick(); x.into() * 3 + 1 }
pub fn gat1<T: Into<i64>>(x: T) -> Option<i64> { at1(x.into()) }
pub fn gpred<T: Copy + Into<i64>>(x: &T) -> bool { tick(); (*x).into() > 0 }
pub fn gfb0<T: From<i8>>() -> T { tick(); T::from(7) }
pub trait Tm { fn tm(self) -> i64; fn te(self) -> i64; }
impl Tm for i64 { fn tm(self) -> i64 { tick(); self * 3 + 1 } fn te(self) -> i64 { tick(); self * 2 + 1 } }
pub mod mo { pub fn m1(x: i64) -> i64 { super::tick(); x * 3 + 1 } pub fn e1(e: i64) -> i64 { super::tick(); e * 2 + 1 } }
#[derive(Clone, Copy)] pub struct Wr(pub i64);
'''


class EvForm:
    """one macro form of the ev. family: konst / std expression over {O} (first argument expression), {D} (eager second
    argument); sig = stream types; fmt = rendering of the value"""
    def __init__(self, fam, macro, form, k, s, fmt, t1="opt", two=False):
        self.fam, self.macro, self.form, self.k, self.s, self.fmt, self.t1, self.two = fam, macro, form, k, s, fmt, t1, two


def CL0(e):
    return "|| { note('c'); n += 1; " + e + " }"


def CL1(p, e):
    return "|" + p + "| { note('c'); n += 1; " + e + " }"


def sub(t, O, D=""):
    return t.replace("{O}", O).replace("{D}", D)


def ev_forms():
    F = []
    ko, kr = "konst::option::", "konst::result::"

    def lazy(fam, macro, kinds, body_cl, fn, fx, fmt, std=None):
        """kinds: which of cl fn fx exist; std: method name (None = hand-written match, unwrap_err_or_else)"""
        km = (ko if fam == "opt" else kr) + macro
        t1 = fam
        for form, arg in (("cl", body_cl), ("fn", fn), ("fx", fx)):
            if form not in kinds:
                continue
            if std:
                s = "({O})." + std + "(" + arg + ")"
            else:  # unwrap_err_or_else: documented behaviour
                s = "{ let r0 = {O}; let f0 = " + arg + "; match r0 { Err(e) => e, Ok(x) => f0(x) } }"
            F.append(EvForm(fam, macro, form, km + "!({O}, " + arg + ")", s, fmt, t1))

    # ---- option ----
    F.append(EvForm("opt", "unwrap_or", "val", ko + "unwrap_or!({O}, {D})", "({O}).unwrap_or({D})", "fi", "opt", True))
    F.append(EvForm("opt", "ok_or", "val", ko + "ok_or!({O}, {D})", "({O}).ok_or({D})", "fr", "opt", True))
    lazy("opt", "unwrap_or_else", "cl fn fx", CL0("7"), "fb0n", "g_fb0n()", "fi", "unwrap_or_else")
    lazy("opt", "ok_or_else", "cl fn fx", CL0("77"), "fbe0n", "g_fbe0n()", "fr", "ok_or_else")
    lazy("opt", "map", "cl fn", CL1("x", "x * 3 + 1"), "m1n", None, "fo", "map")
    lazy("opt", "and_then", "cl fn", CL1("x", "if x >= 0 { Some(x + 1) } else { None }"), "at1n", None, "fo", "and_then")
    lazy("opt", "or_else", "cl fn", CL0("Some(7)"), "fbs0n", None, "fo", "or_else")
    lazy("opt", "filter", "cl fn", CL1("x", "*x > 0"), "predn", None, "fo", "filter")
    F.append(EvForm("opt", "flatten", "m", ko + "flatten!({O})", "({O}).flatten()", "fo", "optopt"))
    F.append(EvForm("opt", "copied", "fn", ko + "copied(({O}).as_ref())", "({O}).as_ref().copied()", "fo", "opt"))
    # ---- result ----
    F.append(EvForm("res", "unwrap_or", "val", kr + "unwrap_or!({O}, {D})", "({O}).unwrap_or({D})", "fi", "res", True))
    lazy("res", "unwrap_or_else", "cl fn fx", CL1("e", "e * 2 + 1"), "e1n", "g_e1n()", "fi", "unwrap_or_else")
    lazy("res", "unwrap_err_or_else", "cl fn fx", CL1("x", "x * 2 + 1"), "e1n", "g_e1n()", "fi", None)
    F.append(EvForm("res", "ok", "m", kr + "ok!({O})", "({O}).ok()", "fo", "res"))
    F.append(EvForm("res", "err", "m", kr + "err!({O})", "({O}).err()", "fo", "res"))
    lazy("res", "map", "cl fn fx", CL1("x", "x * 3 + 1"), "m1n", "g_m1n()", "fr", "map")
    lazy("res", "map_err", "cl fn fx", CL1("e", "e * 2 + 1"), "e1n", "g_e1n()", "fr", "map_err")
    lazy("res", "and_then", "cl fn fx", CL1("x", "if x >= 0 { Ok(x + 1) } else { Err(x - 1) }"), "rat1n", "g_rat1n()", "fr", "and_then")
    lazy("res", "or_else", "cl fn fx", CL1("e", "if e >= 0 { Ok(e + 2) } else { Err(e - 2) }"), "roe1n", "g_roe1n()", "fr", "or_else")
    # the unwrap_err_or_else closure form has no std method: hand-written match with the closure inlined
    for f in F:
        if f.macro == "unwrap_err_or_else" and f.form == "cl":
            f.s = "match {O} { Err(e) => e, Ok(x) => { note('c'); n += 1; x * 2 + 1 } }"
    return F


def arg_exprs(shape, t1="'o'", t2="'d'"):
    """(setup, {O}, {D}) for the two side-effecting shapes"""
    if shape == "se":
        return (f"    let mut c1 = cur(s1, {t1}); let mut c2 = cur(s2, {t2});\n", "pop(&mut c1)", "pop(&mut c2)")
    return ("    let mut k1 = 0usize; let mut k2 = 0usize;\n",
            "{ k1 += 1; note(" + t1 + "); s1[(k1 - 1).min(s1.len() - 1)].clone() }",
            "{ k2 += 1; note(" + t2 + "); s2[(k2 - 1).min(s2.len() - 1)].clone() }")


STREAM_TY = {"opt": "Option<i64>", "optopt": "Option<Option<i64>>", "res": "Result<i64, i64>", "key": "Keyed",
             "pair": "Result<(i64, i64), i64>"}
STREAM_SH = {"opt": "sh_os", "optopt": "sh_oos", "res": "sh_rs", "key": "sh_ks", "pair": "sh_ps"}


def ev_units(Unit):
    U = []
    n = 0
    for f in ev_forms():
        for shape in ("se", "sb"):
            n += 1
            setup, O, D = arg_exprs(shape)

            def body(expr):
                return ("    log_take(); let mut n = 0usize;\n" + setup +
                        f"    let v = {sub(expr, O, D)};\n    let log = log_take();\n"
                        f"    format!(\"{{}}|o{{}}d{{}}c{{}}n{{}}||{{}}\", {f.fmt}(v), cnt(&log, 'o'), cnt(&log, 'd'), cnt(&log, 'c'), n, dash(log))")
            u = Unit(f"ev{n}", "ev", body(f.k), body(f.s), (f"{f.fam}.{f.macro}.{f.form}.{shape}", ""))
            u.ev = (f.t1, "int" if f.two else None)
            U.append(u)
    # ---- try_! / try_opt! : the argument expression evaluated once ----
    TRY = [("try_", "plain", "res", "konst::try_!({O})", "({O})?", "Result<i64, i64>", "Ok(v)",
            "match f() { Ok(v) => format!(\"val:{}\", v), Err(e) => format!(\"ret:err:{}\", e) }"),
           ("try_", "me", "res", "konst::try_!({O}, map_err = |e| { note('c'); n += 1; e * 2 + 1 })",
            "({O}).map_err(|e| { note('c'); n += 1; e * 2 + 1 })?", "Result<i64, i64>", "Ok(v)",
            "match f() { Ok(v) => format!(\"val:{}\", v), Err(e) => format!(\"ret:err:{}\", e) }"),
           ("try_opt", "plain", "opt", "konst::try_opt!({O})", "({O})?", "Option<i64>", "Some(v)",
            "match f() { Some(v) => format!(\"val:{}\", v), None => \"ret:none\".to_string() }")]
    for macro, form, t1, k, s, rty, wrap, show in TRY:
        for shape in ("se", "sb"):
            n += 1
            setup, O, D = arg_exprs(shape)

            def body(expr):
                return ("    log_take(); let mut n = 0usize;\n" + setup +
                        f"    let out = {{ let mut f = || -> {rty} {{ let v: i64 = {expr.replace('{O}', O)}; {wrap} }}; {show} }};\n"
                        "    let log = log_take();\n"
                        "    format!(\"{}|o{}d{}c{}n{}||{}\", out, cnt(&log, 'o'), cnt(&log, 'd'), cnt(&log, 'c'), n, dash(log))")
            u = Unit(f"ev{n}", "ev", body(k), body(s), (f"try.{macro}.{form}.{shape}", ""))
            u.ev = (t1, None)
            U.append(u)
    # ---- try_rebind! / rebind_if_ok! : the right-hand side evaluated once ----
    for macro in ("try_rebind", "rebind_if_ok"):
        for shape in ("se", "sb"):
            n += 1
            setup, O, D = arg_exprs(shape)
            if macro == "try_rebind":
                tpl = ("    let mut p0: i64 = -100;\n"
                       "    let out = { let mut f = || -> Result<String, i64> { STMT Ok(format!(\"{},{}\", p0, l1)) };\n"
                       "        match f() { Ok(s) => format!(\"ok:{}\", s), Err(e) => format!(\"ret:{}\", e) } };\n")
                ki = tpl.replace("STMT", f"konst::try_rebind!{{(p0, let l1) = {O}}}")
                si = tpl.replace("STMT", f"let (a0, a1) = ({O})?; p0 = a0; let l1 = a1;")
            else:
                tpl = "    let mut p0: i64 = -100; let mut out = \"skip\".to_string();\n    STMT\n"
                ki = tpl.replace("STMT", f"konst::rebind_if_ok!{{(p0, let l1) = {O} => out = format!(\"ok:{{}},{{}}\", p0, l1); }}")
                si = tpl.replace("STMT", f"if let Ok((a0, a1)) = {O} {{ p0 = a0; let l1 = a1; out = format!(\"ok:{{}},{{}}\", p0, l1); }}")

            def body(stmts):
                return ("    log_take(); let mut n = 0usize;\n" + setup + stmts + "    let log = log_take();\n"
                        "    format!(\"{}|o{}d{}c{}n{}||{}\", out, cnt(&log, 'o'), cnt(&log, 'd'), cnt(&log, 'c'), n, dash(log))")
            u = Unit(f"ev{n}", "ev", body(ki), body(si), (f"rebind.{macro}.pl.{shape}", ""))
            u.ev = ("pair", None)
            U.append(u)
    # ---- min!/max!(_by(_key)) ----
    MM = []
    for m in ("min", "max"):
        MM.append((m, "cc", f"konst::{m}!({{O}}, {{D}})", f"std::cmp::{m}({{O}}, {{D}})"))
        by, bk = m + "_by", m + "_by_key"
        MM.append((by, "cl", f"konst::{by}!({{O}}, {{D}}, |l, r| {{ note('c'); n += 1; konst::const_cmp!(l.key, r.key) }})",
                   f"std::cmp::{by}({{O}}, {{D}}, |l, r| {{ note('c'); n += 1; l.key.cmp(&r.key) }})"))
        MM.append((by, "fn", f"konst::{by}!({{O}}, {{D}}, cmp_key_n)", f"std::cmp::{by}({{O}}, {{D}}, cmp_key_n)"))
        MM.append((by, "fx", f"konst::{by}!({{O}}, {{D}}, g_cmp_key_n())", f"std::cmp::{by}({{O}}, {{D}}, g_cmp_key_n())"))
        MM.append((bk, "cl", f"konst::{bk}!({{O}}, {{D}}, |x| {{ note(kq(x.id)); n += 1; x.key }})",
                   f"std::cmp::{bk}({{O}}, {{D}}, |x| {{ note(kq(x.id)); n += 1; x.key }})"))
        MM.append((bk, "fn", f"konst::{bk}!({{O}}, {{D}}, key_of_n)", f"std::cmp::{bk}({{O}}, {{D}}, key_of_n)"))
        MM.append((bk, "fx", f"konst::{bk}!({{O}}, {{D}}, g_key_of_n())", f"std::cmp::{bk}({{O}}, {{D}}, g_key_of_n())"))
    for macro, form, k, s in MM:
        for shape in ("se", "sb"):
            n += 1
            setup, O, D = arg_exprs(shape, "'a'", "'b'")

            def body(expr):
                return ("    log_take(); let mut n = 0usize;\n" + setup +
                        f"    let v: Keyed = {sub(expr, O, D)};\n    let log = log_take();\n"
                        "    format!(\"{}|a{}b{}||{}\", v.id, cnt(&log, 'a'), cnt(&log, 'b'), dash(log))")
            u = Unit(f"ev{n}", "ev", body(k), body(s), (f"mm.{macro}.{form}.{shape}", ""))
            u.ev = ("key", "key")
            U.append(u)
    for u in U:
        t1, t2 = u.ev
        u.sig_override = f"s1: &[{STREAM_TY[t1]}], s2: &[{STREAM_TY[t2] if t2 == 'key' else 'i64'}]"
    return U


# streams: all of length 1 and 2 over three values + two longer ones; the eager second argument: [7], [7, 8]
EV_STREAMS = {
    "opt": ["None", "Some(1)", "Some(-3)"],
    "optopt": ["None", "Some(None)", "Some(Some(1))"],
    "res": ["Ok(1)", "Err(2)", "Ok(-3)", "Err(-4)"],
    "pair": ["Ok((10, 20))", "Err(5)", "Ok((30, 40))"],
}


def ev_main_decls():
    L = []
    for t, vals in EV_STREAMS.items():
        ss = [[a] for a in vals] + [[a, b] for a in vals for b in vals] + [[vals[0], vals[1], vals[-1]], [vals[1], vals[0], vals[1], vals[-1]]]
        if t == "res":   # 4 values: all pairs is 16 + 4; keep the pairs whose first element differs from the second + equal ones
            ss = [[a] for a in vals] + [[a, b] for a in vals for b in vals if a != b or a == vals[0]] + [[vals[1], vals[0], vals[3]]]
        L.append(f"    let es_{t}: Vec<Vec<{STREAM_TY[t]}>> = vec![" + ", ".join("vec![" + ", ".join(s) + "]" for s in ss) + "];")
    L.append("    let es_int: Vec<Vec<i64>> = vec![vec![7], vec![7, 8]];")
    L.append("    let es_one: Vec<Vec<i64>> = vec![vec![7]];")
    ka = ["Keyed { key: 0, id: 1 }", "Keyed { key: 1, id: 1 }"]
    kb = ["Keyed { key: 0, id: 2 }", "Keyed { key: 1, id: 2 }"]
    L.append("    let es_ka: Vec<Vec<Keyed>> = vec![vec![Keyed { key: 0, id: 1 }], vec![Keyed { key: 1, id: 1 }], "
             "vec![Keyed { key: 0, id: 1 }, Keyed { key: 1, id: 3 }], vec![Keyed { key: 1, id: 1 }, Keyed { key: 0, id: 3 }]];")
    L.append("    let es_kb: Vec<Vec<Keyed>> = vec![vec![Keyed { key: 0, id: 2 }], vec![Keyed { key: 1, id: 2 }], "
             "vec![Keyed { key: 0, id: 2 }, Keyed { key: 1, id: 4 }], vec![Keyed { key: 1, id: 2 }, Keyed { key: 0, id: 4 }]];")
    return L


def ev_main_line(u):
    t1, t2 = u.ev
    pre = u.req[0]
    if t1 == "key":
        return (f"    for a in &es_ka {{ for b in &es_kb {{ rows2(format!(\"{pre} {{}} {{}}\", sh_ks(a), sh_ks(b)), "
                f"impl_{u.uid}(a, b), oracle_{u.uid}(a, b)); }} }}")
    sh = STREAM_SH[t1]
    if t2:
        return (f"    for a in &es_{t1} {{ for b in &es_int {{ rows2(format!(\"{pre} {{}} {{}}\", {sh}(a), sh_is(b)), "
                f"impl_{u.uid}(a, b), oracle_{u.uid}(a, b)); }} }}")
    return (f"    for a in &es_{t1} {{ for b in &es_one {{ rows2(format!(\"{pre} {{}}\", {sh}(a)), "
            f"impl_{u.uid}(a, b), oracle_{u.uid}(a, b)); }} }}")


# =================================================================================================
# hy. units: position / names / items.  A base form = one macro call of vlib/progs/c19.py, structured so that its
# pieces (value expression E, eager argument D, closure parameter P and body, function path F) can be replaced.
# =================================================================================================

class Base:
    def __init__(self, fam, macro, form, kind, fmt, rty, binders, D=None, P="x", bexpr=None, F=None, cF=None, cD=None,
                 extra="", std=None, argkind=None):
        self.fam, self.macro, self.form, self.kind, self.fmt, self.rty = fam, macro, form, kind, fmt, rty
        self.binders = binders        # identifiers this arm of the expansion binds (read off the macro source)
        self.D, self.P, self.bexpr, self.F, self.cF, self.cD, self.extra = D, P, bexpr, F, cF, cD, extra
        self.std = std if std is not None else macro     # std method name ("" = hand-written match)
        self.argkind = argkind or ("opt" if fam == "opt" else "res")
        self.E = "o" if self.argkind in ("opt", "optopt") else "r"
        self.ety = {"opt": "Option<i64>", "optopt": "Option<Option<i64>>", "res": "Result<i64, i64>"}[self.argkind]

    @property
    def kmac(self):
        return ("konst::option::" if self.fam == "opt" else "konst::result::") + self.macro

    def req(self, tag):
        return (f"hy.{tag} {self.fam}.{self.macro} ", f" {self.form}" + (f" {self.extra}" if self.extra else ""))

    def second(self, D=None, P=None, body=None, F=None, pure=False):
        """the second macro argument as source text (None for single-argument macros)"""
        if self.kind == "eager":
            return D if D is not None else (self.cD if pure else self.D)
        if self.kind in ("cl0", "cl1"):
            p = P if P is not None else self.P
            b = body if body is not None else (self.bexpr if pure else "{ tick(); " + self.bexpr + " }")
            b = b.replace("@P@", p)
            return ("|| " if self.kind == "cl0" else f"|{p}| ") + b
        if self.kind == "fn":
            return F if F is not None else (self.cF if pure else self.F)
        return None

    def kcall(self, E=None, trailing=False, **kw):
        a2 = self.second(**kw)
        if self.macro == "copied":
            return f"konst::option::copied(({E or self.E}).as_ref())"
        args = (E or self.E) + (", " + a2 if a2 is not None else "") + ("," if trailing else "")
        return f"{self.kmac}!({args})"

    def scall(self, E=None, trailing=False, **kw):
        a2 = self.second(**kw)
        e = E or self.E
        if self.macro == "copied":
            return f"({e}).as_ref().copied()"
        if self.std == "":      # result::unwrap_err_or_else: documented behaviour
            if self.kind == "cl1":
                p = kw.get("P") or self.P
                b = kw.get("body") or ((self.bexpr if kw.get("pure") else "{ tick(); " + self.bexpr + " }"))
                return f"(match {e} {{ Err(e0) => e0, Ok({p}) => {b.replace('@P@', p)} }})"
            return f"(match {e} {{ Err(e0) => e0, Ok(x0) => ({a2})(x0) }})"
        return f"({e}).{self.std}({a2 if a2 is not None else ''}{',' if trailing and a2 is not None else ''})"


def bases():
    B = []
    # ---- option (binders: konst_kernel/src/macros/option_macros_.rs) ----
    B.append(Base("opt", "unwrap_or", "val", "eager", "fi", "i64", ["x", "value"], D="fb0()", cD="cfb0()"))
    B.append(Base("opt", "unwrap_or_else", "cl", "cl0", "fi", "i64", ["x"], bexpr="7"))
    B.append(Base("opt", "unwrap_or_else", "fn", "fn", "fi", "i64", ["x"], F="fb0", cF="cfb0"))
    B.append(Base("opt", "ok_or", "val", "eager", "fr", "Result<i64, i64>", ["x", "value"], D="fbe0()", cD="cfbe0()"))
    B.append(Base("opt", "ok_or_else", "cl", "cl0", "fr", "Result<i64, i64>", ["x"], bexpr="77"))
    B.append(Base("opt", "ok_or_else", "fn", "fn", "fr", "Result<i64, i64>", ["x"], F="fbe0", cF="cfbe0"))
    B.append(Base("opt", "map", "cl", "cl1", "fo", "Option<i64>", [], bexpr="@P@ * 3 + 1"))
    B.append(Base("opt", "map", "fn", "fn", "fo", "Option<i64>", ["x"], F="m1", cF="cm1"))
    B.append(Base("opt", "and_then", "cl", "cl1", "fo", "Option<i64>", [], bexpr="if @P@ >= 0 { Some(@P@ + 1) } else { None }"))
    B.append(Base("opt", "and_then", "fn", "fn", "fo", "Option<i64>", ["x"], F="at1", cF="cat1"))
    B.append(Base("opt", "or_else", "cl", "cl0", "fo", "Option<i64>", ["x"], bexpr="Some(7)", extra="s"))
    B.append(Base("opt", "or_else", "fn", "fn", "fo", "Option<i64>", ["x"], F="fbs0", cF="cfbs0", extra="s"))
    B.append(Base("opt", "filter", "cl", "cl1", "fo", "Option<i64>", ["x"], bexpr="*@P@ > 0"))
    B.append(Base("opt", "filter", "fn", "fn", "fo", "Option<i64>", ["x"], F="pred", cF="cpred"))
    B.append(Base("opt", "flatten", "m", "none", "fo", "Option<i64>", ["x"], argkind="optopt"))
    # ---- result (binders: konst_kernel/src/macros/result_macros_.rs) ----
    R = "Result<i64, i64>"
    B.append(Base("res", "unwrap_or", "val", "eager", "fi", "i64", ["x", "value"], D="fb0()", cD="cfb0()"))
    B.append(Base("res", "unwrap_or_else", "cl", "cl1", "fi", "i64", ["x"], P="e", bexpr="@P@ * 2 + 1"))
    B.append(Base("res", "unwrap_or_else", "fn", "fn", "fi", "i64", ["x"], F="e1", cF="ce1"))
    B.append(Base("res", "unwrap_err_or_else", "cl", "cl1", "fi", "i64", ["x"], bexpr="@P@ * 2 + 1", std=""))
    B.append(Base("res", "unwrap_err_or_else", "fn", "fn", "fi", "i64", ["x"], F="e1", cF="ce1", std=""))
    B.append(Base("res", "ok", "m", "none", "fo", "Option<i64>", ["x"]))
    B.append(Base("res", "err", "m", "none", "fo", "Option<i64>", ["x"]))
    B.append(Base("res", "map", "cl", "cl1", "fr", R, ["x"], bexpr="@P@ * 3 + 1"))
    B.append(Base("res", "map", "fn", "fn", "fr", R, ["param", "x"], F="m1", cF="cm1"))
    B.append(Base("res", "map_err", "cl", "cl1", "fr", R, ["x"], P="e", bexpr="@P@ * 2 + 1"))
    B.append(Base("res", "map_err", "fn", "fn", "fr", R, ["x"], F="e1", cF="ce1"))
    B.append(Base("res", "and_then", "cl", "cl1", "fr", R, ["x"], bexpr="if @P@ >= 0 { Ok(@P@ + 1) } else { Err(@P@ - 1) }"))
    B.append(Base("res", "and_then", "fn", "fn", "fr", R, ["param", "x"], F="rat1", cF="crat1"))
    B.append(Base("res", "or_else", "cl", "cl1", "fr", R, ["x"], P="e", bexpr="if @P@ >= 0 { Ok(@P@ + 2) } else { Err(@P@ - 2) }"))
    B.append(Base("res", "or_else", "fn", "fn", "fr", R, ["x"], F="roe1", cF="croe1"))
    return B


def counted(expr, fmt, pre=""):
    return f"{pre}    reset();\n    let v = {expr};\n    wc({fmt}(v))"


def kit_main(u, sc):
    pre, suf = u.req
    return [f"    println!(\"{pre}{t}{suf}\\t{{}}\\t{{}}\\t{sc}\", impl_{u.uid}({i}), oracle_{u.uid}({i}));" for i, t in enumerate(u.toks)]


def position_units(Unit, tier, add):
    """(a) the macro in other positions / with other argument-expression shapes"""
    TAGS = ["tc", "blk", "ifm", "op", "arg", "scr", "ctl", "clo", "nest", "kfn", "kit"]
    for bi, b in enumerate(bases()):
        e = b.E
        none = "None" if b.argkind in ("opt", "optopt") else "Err(0)"
        for ti, tag in enumerate(TAGS):
            if tier == "quick" and tag != "tc" and (bi + ti) % 3 != 0:
                continue        # quick: the trailing comma for every form, the other positions rotate over the forms
            pure = tag in ("kfn", "kit")
            pre = ""
            if tag == "tc":
                if b.kind == "none" and False:
                    continue
                k, s = b.kcall(trailing=True), b.scall(trailing=True)
            elif tag == "blk":
                kw = dict(E="{ let t = " + e + "; t }")
                if b.kind == "eager":
                    kw["D"] = "{ let d = " + b.D + "; d }"
                if b.kind in ("cl0", "cl1"):
                    kw["body"] = "{ let w = { tick(); " + b.bexpr + " }; w }"
                k, s = b.kcall(**kw), b.scall(**kw)
            elif tag == "ifm":
                kw = dict(E="if calls() == 0 { " + e + " } else { " + none + " }")
                if b.kind == "eager":
                    kw["D"] = "match 0u8 { 0 => " + b.D + ", _ => -1 }"
                if b.kind in ("cl0", "cl1"):
                    kw["body"] = "if tickb() { " + b.bexpr + " } else { unreachable!() }"
                k, s = b.kcall(**kw), b.scall(**kw)
            elif tag == "op":
                post = " + 0" if b.rty == "i64" else ".clone()"
                k, s = "{ " + b.kcall() + post + " }", "{ " + b.scall() + post + " }"
            elif tag == "arg":
                k, s = "ident(" + b.kcall() + ")", "ident(" + b.scall() + ")"
            elif tag == "scr":
                k, s = "match " + b.kcall() + " { w => w }", "match " + b.scall() + " { w => w }"
            elif tag == "ctl":
                tpl = ("{ let mut out = None; let mut i = 0; while i < 3 { i += 1; if i != 2 { continue; } out = Some(@M@); break; } "
                       "out.unwrap() }")
                k, s = tpl.replace("@M@", b.kcall()), tpl.replace("@M@", b.scall())
            elif tag == "clo":
                tpl = f"{{ let mut g = |{e}: {b.ety}| -> {b.rty} {{ let w = @M@; w }}; g({e}) }}"
                k, s = tpl.replace("@M@", b.kcall()), tpl.replace("@M@", b.scall())
            elif tag == "nest":
                # the value expression goes through another macro of the family, the closure body contains one
                if b.argkind == "opt":
                    E2k = f"konst::option::map!(konst::option::or_else!({e}, || None), |x| x)"
                elif b.argkind == "optopt":
                    E2k = f"konst::option::map!({e}, |x| konst::option::flatten!(Some(x)))"
                else:
                    E2k = f"konst::result::map_err!(konst::result::map!({e}, |x| x), |x| x)"
                kw = {}
                if b.kind in ("cl0", "cl1"):
                    kw["body"] = "{ tick(); konst::option::unwrap_or_else!(konst::result::ok!(Ok::<_, i64>(" + b.bexpr + ")), || unreachable!()) }"
                k = b.kcall(E=E2k, **kw)
                s = b.scall()
            elif tag == "kfn":
                tpl = (f"{{ @C@ fn pos({e}: {b.ety}) -> (bool, {b.rty}) {{ (true, @M@) }} pos({e}).1 }}")
                k = tpl.replace("@C@", "const").replace("@M@", b.kcall(pure=True))
                s = tpl.replace("@C@", "").replace("@M@", b.scall(pure=True))
            else:
                # kit: `const` items (compile-time evaluation, no enclosing function), one per literal input
                vals = [0, -1, 1, 5, 2147483647, -2147483648]
                if b.argkind == "opt":
                    lits = [("None", "none")] + [(f"Some({v}i64)", f"some:{v}") for v in vals]
                elif b.argkind == "optopt":
                    lits = [("None", "none"), ("Some(None)", "some:none")] + [(f"Some(Some({v}i64))", f"some:some:{v}") for v in vals[:4]]
                else:
                    lits = [(f"Ok({v}i64)", f"ok:{v}") for v in vals] + [(f"Err({v}i64)", f"err:{v}") for v in vals]
                decl = "".join(f"    const A{i}: {b.ety} = {l};\n" for i, (l, _) in enumerate(lits))
                items = "".join(f"    const C{i}: {b.rty} = {b.kcall(E=f'A{i}', pure=True)};\n" for i in range(len(lits)))
                arms_k = " ".join(f"{i} => {b.fmt}(C{i})," for i in range(len(lits)))
                arms_s = " ".join(f"{i} => {b.fmt}({b.scall(E=f'A{i}', pure=True)})," for i in range(len(lits)))
                u = add(b.req(tag), "kit", decl + items + "    wcx(match i { " + arms_k + " _ => unreachable!() })",
                        decl + "    wcx(match i { " + arms_s + " _ => unreachable!() })")
                u.sig_override = "i: usize"
                u.toks = [t for _, t in lits]
                u.main_override = kit_main
                continue
            u = add(b.req(tag), b.argkind,
                    (f"    let v = {k};\n    wcx({b.fmt}(v))" if pure else counted(k, b.fmt)),
                    (f"    let v = {s};\n    wcx({b.fmt}(v))" if pure else counted(s, b.fmt)))


def hy_units(Unit, tier, rebind_unit, payloads):
    U = []

    def add(req, argkind, impl, oracle, scope=True, expect_reject=False, clash=False):
        """clash: a caller item named like an identifier pattern of the expansion — expected to be a compile error
        (then out of scope); in scope as long as rustc accepts the program (see the comment at ALL_BINDERS)"""
        u = Unit(f"hy{len(U)}", argkind, impl, oracle, req, scope=scope, expect_reject=expect_reject or clash)
        u.scope_if_accepted = clash
        U.append(u)
        return u
    position_units(Unit, tier, add)
    name_units(Unit, tier, add)
    form_units(Unit, tier, add)
    mm_units_hy(Unit, tier, add)
    try_units_hy(Unit, tier, add)
    rebind_units_hy(Unit, tier, add, rebind_unit, payloads)
    return U


# ---------------------------------------------------------------------------------------------
# (b) caller variables / closure parameters / functions, (c) caller items, named like the expansion's binders
# ---------------------------------------------------------------------------------------------
FSIG = {"fb0": ("", "i64"), "fbe0": ("", "i64"), "fbs0": ("", "Option<i64>"), "m1": ("v: i64", "i64"),
        "at1": ("v: i64", "Option<i64>"), "pred": ("v: &i64", "bool"), "e1": ("v: i64", "i64"),
        "rat1": ("v: i64", "Result<i64, i64>"), "roe1": ("v: i64", "Result<i64, i64>")}
# every identifier the expansions bind (option_macros_.rs, result_macros_.rs, unwrapping.rs, parsing_macros.rs,
# minmax_macros.rs, konst_kernel/src/utils.rs __parse_closure_1/2)
ALL_BINDERS = ["x", "value", "param", "e", "tuple", "_e", "left", "right", "left_key", "right_key",
               "__konst_pc_func", "__konst_pc_x", "__konst_pc_y"]
# the names `__parse_closure_1/2` used before c6bef38 (now mangled): ordinary caller names, must be accepted
FORMER_BINDERS = ["func", "__x", "__y"]
# Scope of a caller const / static / unit struct named like a binder (`clash=True` below): the pattern of the expansion
# then refers to the item.  A COMPILE ERROR is out of scope (no macro_rules macro can bind a name that is a constant in
# scope; as in C20).  If the program COMPILES, its value is in scope and must be std's — that was defect F19
# (option::filter! / rebind_if_ok!, fixed by a6790b3: both now match exhaustively and the clash is a compile error).
# The verdict is rustc's: the unit is compiled on its own first and goes out of scope only when it is rejected.


def name_units(Unit, tier, add):
    for bi, b in enumerate(bases()):
        e = b.E
        v1 = b.binders[0] if b.binders else "x"
        v2 = b.binders[1] if len(b.binders) > 1 else "value"
        dval = "77" if b.macro in ("ok_or", "ok_or_else") else "7"
        # ---- nm.var: the value variable, the captured variable and the closure parameter carry binder names
        pre = f"    let {v1} = {e};\n"
        kw = dict(E=v1)
        if b.kind == "eager":
            pre += f"    let {v2} = {dval}i64;\n"
            kw["D"] = "{ tick(); " + v2 + " }"
        elif b.kind == "cl0":
            pre += f"    let {v2} = {b.bexpr};\n"
            kw["body"] = "{ tick(); " + v2 + " }"
        elif b.kind == "cl1":
            pre += f"    let {v2} = 0i64;\n"
            kw["P"] = v1
            kw["body"] = "{ tick(); let _ = &" + v2 + "; " + b.bexpr + " }"
        add(b.req("nm.var"), b.argkind, counted(b.kcall(**kw), b.fmt, pre), counted(b.scall(**kw), b.fmt, pre))
        # ---- nm.par: closure parameter named like a binder of the other arms
        if b.kind == "cl1":
            for pn in ("param", "value", "func"):
                if tier == "quick" and (bi + len(pn)) % 2:
                    continue
                add(b.req("nm.par." + pn), b.argkind, counted(b.kcall(P=pn), b.fmt), counted(b.scall(P=pn), b.fmt))
        if b.kind == "fn":
            par, ret = FSIG[b.F]
            call = b.F + ("(v)" if par else "()")
            for nm in (b.binders or ["x"]):
                # a function VARIABLE / a function ITEM of the caller named like the binder, passed as the function argument
                prev = f"    let {nm} = {b.F};\n"
                add(b.req("nm.fnvar." + nm), b.argkind, counted(b.kcall(F=nm), b.fmt, prev), counted(b.scall(F=nm), b.fmt, prev))
                prei = f"    fn {nm}({par}) -> {ret} {{ {call} }}\n"
                add(b.req("nm.fn." + nm), b.argkind, counted(b.kcall(F=nm), b.fmt, prei), counted(b.scall(F=nm), b.fmt, prei))
        # ---- item.<decl>.<name>: caller const / static / unit struct mentioned in the argument expressions
        names = list(b.binders) or ["x"]
        for ni, nm in enumerate(names):
            for di, decl in enumerate(("const", "static", "ustruct")):
                if decl != "const" and tier == "quick" and (bi + ni + di) % 3:
                    continue
                kw = {}
                if decl == "ustruct":
                    prei = f"    struct {nm};\n"
                    kw["E"] = "{ let _ = " + nm + "; " + e + " }"
                    if b.kind == "cl1":
                        kw["P"] = "v"
                else:
                    K = dval if b.kind in ("eager", "cl0") else "1"
                    prei = f"    {decl} {nm}: i64 = {K};\n"
                    if b.kind == "eager":
                        kw["D"] = "{ tick(); " + nm + " }"
                    elif b.kind == "cl0":
                        kw["body"] = "{ tick(); " + (nm if b.bexpr in ("7", "77") else "Some(" + nm + ")") + " }"
                    elif b.kind == "cl1":
                        kw["P"] = "v"
                        kw["body"] = "{ tick(); let _ = " + nm + "; " + b.bexpr + " }"
                    else:
                        kw["E"] = "{ let _ = " + nm + "; " + e + " }"
                u = add(b.req(f"item.{decl}.{nm}"), b.argkind, counted(b.kcall(**kw), b.fmt, prei), counted(b.scall(**kw), b.fmt, prei),
                        clash=nm in b.binders)
                if b.macro == "filter" and decl == "const" and nm == "x":
                    u.regression = "F19"      # const x: i64 = 1; option::filter!(Some(5), |v| *v > 0) was None


# ---------------------------------------------------------------------------------------------
# function paths with generic arguments etc. (in scope: "function path" form), closure syntax / block-like function
# expressions / return-break-continue inside a pseudo-closure (OUT of scope)
# ---------------------------------------------------------------------------------------------
def form_units(Unit, tier, add):
    B = {(b.fam, b.macro, b.form): b for b in bases()}

    def fnform(tag, key, F, scope=True, expect_reject=False):
        b = B[key]
        add(b.req(tag), b.argkind, counted(b.kcall(F=F), b.fmt), counted(b.scall(F=F), b.fmt), scope=scope, expect_reject=expect_reject)

    def clform(tag, key, second, scope=False, expect_reject=False):
        """the closure argument written as `second` (source text)"""
        b = B[key]
        k = f"{b.kmac}!({b.E}, {second})"
        s = b.scall(F="(" + second + ")") if b.std else None
        if s is None:
            s = f"(match {b.E} {{ Err(e0) => e0, Ok(x0) => ({second})(x0) }})"
        else:
            s = f"({b.E}).{b.std}({second})"
        add(b.req(tag), b.argkind, counted(k, b.fmt), counted(s, b.fmt), scope=scope, expect_reject=expect_reject)

    # generic function with explicit / inferred arguments, associated functions, module paths, qualified paths
    fnform("gen.turbofish", ("opt", "map", "fn"), "gm1::<i64>")
    fnform("gen.inferred", ("opt", "map", "fn"), "gm1")
    fnform("gen.assoc", ("opt", "map", "fn"), "i64::tm")
    fnform("gen.trait", ("opt", "map", "fn"), "Tm::tm")
    fnform("gen.modpath", ("opt", "map", "fn"), "self::mo::m1")
    fnform("gen.cratepath", ("opt", "map", "fn"), "crate::mo::m1")
    fnform("gen.turbofish", ("opt", "and_then", "fn"), "gat1::<i64>")
    fnform("gen.turbofish", ("opt", "filter", "fn"), "gpred::<i64>")
    fnform("gen.turbofish", ("opt", "unwrap_or_else", "fn"), "gfb0::<i64>")
    fnform("gen.turbofish", ("res", "map", "fn"), "gm1::<i64>")
    fnform("gen.inferred", ("res", "map", "fn"), "gm1")
    fnform("gen.assoc", ("res", "unwrap_or_else", "fn"), "i64::te")
    fnform("gen.modpath", ("res", "map_err", "fn"), "mo::e1")
    fnform("gen.assoc", ("res", "unwrap_err_or_else", "fn"), "i64::te")
    # `<T as Trait>::f` is a path for std; `$function:path` (option macros) does not take it, `$function:expr` (result) does
    fnform("syn.qpath", ("opt", "map", "fn"), "<i64 as Tm>::tm", scope=False, expect_reject=True)
    fnform("syn.qpath", ("res", "map", "fn"), "<i64 as Tm>::tm", scope=False)
    # closure syntax std accepts (out of scope: the property speaks of the accepted forms)
    M1, E1 = "{ tick(); x * 3 + 1 }", "{ tick(); e * 2 + 1 }"
    clform("syn.typed", ("opt", "map", "cl"), "|x: i64| " + M1, expect_reject=True)
    clform("syn.typed", ("res", "map", "cl"), "|x: i64| " + M1, expect_reject=True)
    clform("syn.typed", ("opt", "filter", "cl"), "|x: &i64| { tick(); *x > 0 }", expect_reject=True)
    clform("syn.typed", ("res", "unwrap_or_else", "cl"), "|e: i64| " + E1, expect_reject=True)
    clform("syn.move", ("opt", "map", "cl"), "move |x| " + M1, expect_reject=True)
    clform("syn.move", ("res", "map", "cl"), "move |x| " + M1)
    clform("syn.move", ("opt", "unwrap_or_else", "cl"), "move || { tick(); 7 }")
    clform("syn.paren", ("opt", "map", "cl"), "(|x| " + M1 + ")", expect_reject=True)
    clform("syn.paren", ("res", "map", "cl"), "(|x| " + M1 + ")")
    clform("syn.rett", ("opt", "map", "cl"), "|x| -> i64 " + M1, expect_reject=True)
    clform("syn.rett", ("res", "map", "cl"), "|x| -> i64 " + M1, expect_reject=True)
    clform("syn.rett", ("opt", "unwrap_or_else", "cl"), "|| -> i64 { tick(); 7 }")
    clform("syn.mutp", ("opt", "map", "cl"), "|mut x| { tick(); x *= 3; x + 1 }")
    clform("syn.mutp", ("res", "map_err", "cl"), "|mut e| { tick(); e *= 2; e + 1 }")
    # a block-like function-valued expression (`if`, block, `match`): fine as a std argument; in the macros it becomes the
    # head of a match arm body (`Err(x) => if .. { f } else { g }(x)`) wherever the call is not wrapped in `Ok(..)`/`Some(..)`
    for key, f, rej in ((("res", "unwrap_or_else", "fn"), "e1", True), (("res", "unwrap_err_or_else", "fn"), "e1", True),
                        (("res", "and_then", "fn"), "rat1", True), (("res", "or_else", "fn"), "roe1", True),
                        (("opt", "unwrap_or_else", "fn"), "fb0", True), (("res", "map", "fn"), "m1", False),
                        (("res", "map_err", "fn"), "e1", False), (("opt", "ok_or_else", "fn"), "fbe0", False)):
        fnform("fnx.if", key, "if calls() == 0 { " + f + " } else { " + f + " }", scope=False, expect_reject=rej)
        if tier != "quick" or rej:
            fnform("fnx.block", key, "{ " + f + " }", scope=False, expect_reject=rej)
    # `return` / `break` / `continue` / `?` inside a pseudo-closure act on the ENCLOSING function / loop (documented by
    # konst; a std closure cannot do that): oracle = the hand-written `match`, out of scope
    def ret(tag, key, k, s, rty=None):
        b = B[key]
        rty = rty or b.rty
        tpl = f"    reset();\n    let mut g = |{b.E}: {b.ety}| -> {rty} {{ @B@ }};\n    let v = g({b.E});\n    wc({b.fmt}(v))"
        add(b.req(tag), b.argkind, tpl.replace("@B@", k), tpl.replace("@B@", s), scope=False)
    ret("ret.return", ("opt", "map", "cl"),
        "let w = konst::option::map!(o, |x| { tick(); if x < 0 { return Some(-7); } x * 3 + 1 }); w",
        "let w = match o { Some(x) => { tick(); if x < 0 { return Some(-7); } Some(x * 3 + 1) } None => None }; w")
    ret("ret.return", ("res", "unwrap_or_else", "cl"),
        "let w = konst::result::unwrap_or_else!(r, |e| { tick(); if e < 0 { return -7; } e * 2 + 1 }); w + 1000",
        "let w = match r { Ok(x) => x, Err(e) => { tick(); if e < 0 { return -7; } e * 2 + 1 } }; w + 1000")
    ret("ret.question", ("opt", "and_then", "cl"),
        "let w = konst::option::and_then!(o, |x| { tick(); let y = at1(x)?; Some(y - 1) }); Some(w.unwrap_or(-7))",
        "let w = match o { Some(x) => { tick(); let y = at1(x)?; Some(y - 1) } None => None }; Some(w.unwrap_or(-7))")
    ret("ret.continue", ("opt", "unwrap_or_else", "cl"),
        "let mut acc = 0; let mut i = 0; while i < 3 { i += 1; let w = konst::option::unwrap_or_else!(o, || { tick(); if i == 2 { continue; } 7 }); acc += w; } acc",
        "let mut acc = 0; let mut i = 0; while i < 3 { i += 1; let w = match o { Some(x) => x, None => { tick(); if i == 2 { continue; } 7 } }; acc += w; } acc")
    ret("ret.break", ("res", "map", "cl"),
        "let mut out = Err(-7); let mut i = 0; while i < 3 { i += 1; out = konst::result::map!(r, |x| { tick(); if x < 0 { break; } x * 3 + i }); } out",
        "let mut out = Err(-7); let mut i = 0; while i < 3 { i += 1; out = match r { Ok(x) => Ok({ tick(); if x < 0 { break; } x * 3 + i }), Err(e) => Err(e) }; } out")


# ---------------------------------------------------------------------------------------------
# min!/max!(_by(_key)), try_!/try_opt!, try_rebind!/rebind_if_ok!: positions, names, items
# ---------------------------------------------------------------------------------------------
def mm_units_hy(Unit, tier, add):
    def mm(tag, macro, form, k, s, pre="", scope=True, expect_reject=False, clash=False):
        body = lambda e: f"{pre}    let r: Keyed = {e};\n    r.id.to_string()"
        add((f"hy.{tag} mm.{macro} {form} ", ""), "mm", body(k), body(s), scope=scope, expect_reject=expect_reject, clash=clash)

    for m in ("min", "max"):
        by, bk = m + "_by", m + "_by_key"
        K = {"cc": (m, f"konst::{m}!(@A@, @B@@T@)", f"std::cmp::{m}(@A@, @B@@T@)"),
             "bycl": (by, f"konst::{by}!(@A@, @B@, |@L@, @R@| konst::const_cmp!(@L@.key, @R@.key)@T@)",
                      f"std::cmp::{by}(@A@, @B@, |@L@, @R@| @L@.key.cmp(&@R@.key)@T@)"),
             "byfn": (by, f"konst::{by}!(@A@, @B@, @F@@T@)", f"std::cmp::{by}(@A@, @B@, @F@@T@)"),
             "bkcl": (bk, f"konst::{bk}!(@A@, @B@, |@L@| @L@.key@T@)", f"std::cmp::{bk}(@A@, @B@, |@L@| @L@.key@T@)"),
             "bkfn": (bk, f"konst::{bk}!(@A@, @B@, @F@@T@)", f"std::cmp::{bk}(@A@, @B@, @F@@T@)")}
        FORM = {"cc": "cc", "bycl": "cl", "byfn": "fn", "bkcl": "cl", "bkfn": "fn"}
        FN = {"byfn": "cmp_key", "bkfn": "key_of"}

        def inst(kk, A="a", Bv="b", L="l", R="r", F=None, T=""):
            macro, k, s = K[kk]
            f = F or FN.get(kk, "")
            sub_ = lambda t: t.replace("@A@", A).replace("@B@", Bv).replace("@L@", L).replace("@R@", R).replace("@F@", f).replace("@T@", T)
            return macro, FORM[kk], sub_(k), sub_(s)

        for kk in K:
            # trailing comma (std::cmp::min(a, b,) is fine): out of scope, the property is about the returned argument
            macro, form, k, s = inst(kk, T=",")
            mm("tc", macro, form, k, s, scope=False, expect_reject=(kk == "cc"))
            # arguments that are blocks / `if`; the value used as an operand; nested in itself
            macro, form, k, s = inst(kk, A="{ let t = a; t }", Bv="if a.id == 1 { b } else { a }")
            mm("blk", macro, form, k, s)
            macro, form, k, s = inst(kk)
            mm("op", macro, form, "{ " + k + ".clone() }", "{ " + s + ".clone() }")
            if m == "min":
                _, _, k2, s2 = inst(kk, A="(" + k + ")", Bv="b")
                _, _, k2s, s2s = inst(kk, A="(" + s + ")", Bv="b")
            else:
                _, _, k2, s2 = inst(kk, A="a", Bv="(" + k + ")")
                _, _, k2s, s2s = inst(kk, A="a", Bv="(" + s + ")")
            mm("nest", macro, form, k2, s2s)
            # in a const fn of another return type
            mm("kfn", macro, form, f"{{ const fn pos(a: Keyed, b: Keyed) -> (bool, Keyed) {{ (true, {k}) }} pos(a, b).1 }}",
               f"{{ fn pos(a: Keyed, b: Keyed) -> (bool, Keyed) {{ (true, {s}) }} pos(a, b).1 }}")
            # caller variables / closure parameters / function variables named like the binders
            macro, form, k, s = inst(kk, A="left", Bv="right", L="left", R="right")
            mm("nm.var", macro, form, k, s, pre="    let left = a; let right = b;\n")
            macro, form, k, s = inst(kk, A="__x", Bv="__y", L="left_key", R="right_key")
            mm("nm.var2", macro, form, k, s, pre="    let __x = a; let __y = b; let func = 0u8; let left_key = 0u8;\n")
            macro, form, k, s = inst(kk, A="__konst_pc_x", Bv="__konst_pc_y", L="__konst_pc_x", R="__konst_pc_y")
            mm("nm.var3", macro, form, k, s, pre="    let __konst_pc_x = a; let __konst_pc_y = b; let __konst_pc_func = 0u8;\n")
            if kk in FN:
                macro, form, k, s = inst(kk, F="func")
                mm("nm.fnvar.func", macro, form, k, s, pre=f"    let func = {FN[kk]};\n")
                macro, form, k, s = inst(kk, F="__x")
                mm("nm.fnvar.__x", macro, form, k, s, pre=f"    let __x = {FN[kk]};\n")
                macro, form, k, s = inst(kk, F="__konst_pc_func")
                mm("nm.fnvar.__konst_pc_func", macro, form, k, s, pre=f"    let __konst_pc_func = {FN[kk]};\n")
            # caller items named like the binders, mentioned in the first argument
            binders = (["left", "right"] + (["left_key", "right_key"] if kk.startswith("bk") else [])
                       + (["__konst_pc_func", "__konst_pc_x"] + ([] if kk.startswith("bk") else ["__konst_pc_y"]) if kk in FN else []))
            names = binders + (["func", "__x"] + ([] if kk.startswith("bk") else ["__y"]) if kk in FN else [])
            for ni, nm in enumerate(names):
                macro, form, k, s = inst(kk, A="{ let _ = " + nm + "; a }")
                mm("item.const." + nm, macro, form, k, s, pre=f"    const {nm}: u8 = 1;\n", clash=nm in binders)


def try_units_hy(Unit, tier, add):
    RES = ("    reset();\n    let f = || -> Result<i64, i64> { @PRE@ let v: i64 = @S@; Ok(v) };\n"
           "    let out = match f() { Ok(v) => format!(\"val:{}\", v), Err(e) => format!(\"ret:err:{}\", e) };\n    wc(out)")
    OPT = ("    reset();\n    let f = || -> Option<i64> { @PRE@ let v: i64 = @S@; Some(v) };\n"
           "    let out = match f() { Some(v) => format!(\"val:{}\", v), None => \"ret:none\".to_string() };\n    wc(out)")
    KRES = ("    @C@ fn pos(r: Result<i64, i64>) -> Result<(bool, i64), i64> { let v: i64 = @S@; Ok((true, v)) }\n"
            "    let out = match pos(r) { Ok((_, v)) => format!(\"val:{}\", v), Err(e) => format!(\"ret:err:{}\", e) };\n    wcx(out)")
    KOPT = ("    @C@ fn pos(o: Option<i64>) -> Option<(bool, i64)> { let v: i64 = @S@; Some((true, v)) }\n"
            "    let out = match pos(o) { Some((_, v)) => format!(\"val:{}\", v), None => \"ret:none\".to_string() };\n    wcx(out)")
    ME = "map_err = |@P@| { tick(); @P@ * 2 + 1 }"
    forms = [("try_", "plain", "res", "konst::try_!(@E@@T@)", "(@E@)?", RES, KRES),
             ("try_", "me", "res", "konst::try_!(@E@, " + ME + "@T@)", "(@E@).map_err(|@P@| { tick(); @P@ * 2 + 1 })?", RES, KRES),
             ("try_opt", "plain", "opt", "konst::try_opt!(@E@@T@)", "(@E@)?", OPT, KOPT)]
    for macro, form, ak, k, s, tpl, ktpl in forms:
        e = "r" if ak == "res" else "o"
        none = "Err(0)" if ak == "res" else "None"

        def unit(tag, E=e, P="e", T="", wrapk="@M@", wraps=None, pre="", scope=True, expect_reject=False, kconst=False, clash=False):
            fill = lambda t: t.replace("@E@", E).replace("@P@", P).replace("@T@", T)
            km, sm = wrapk.replace("@M@", fill(k)), (wraps or wrapk).replace("@M@", fill(s))
            if kconst:
                pk = lambda t: t.replace("{ tick(); ", "{ ")
                bi, bo = ktpl.replace("@C@", "const").replace("@S@", pk(km)), ktpl.replace("@C@", "").replace("@S@", pk(sm))
            else:
                bi, bo = tpl.replace("@PRE@", pre).replace("@S@", km), tpl.replace("@PRE@", pre).replace("@S@", sm)
            add((f"hy.{tag} try.{macro} ", f" {form}"), ak, bi, bo, scope=scope, expect_reject=expect_reject, clash=clash)

        unit("tc", T=",")
        unit("blk", E="{ let t = " + e + "; t }")
        unit("ifm", E="if calls() == 0 { " + e + " } else { " + none + " }")
        unit("op", wrapk="@M@ + 0")
        unit("arg", wrapk="ident(@M@)")
        unit("ctl", wrapk="{ let mut w = 0; let mut i = 0; while i < 2 { i += 1; if i == 1 { continue; } w = @M@; } w }")
        if ak == "res":
            unit("nest", E="konst::result::map!(" + e + ", |x| x)", wraps="@M@".replace("@M@", "@M@"))
            unit("nest2", wrapk="konst::try_!(Ok::<i64, i64>(@M@))", wraps="Ok::<i64, i64>(@M@)?")
        else:
            unit("nest", E="konst::option::map!(" + e + ", |x| x)")
            unit("nest2", wrapk="konst::try_opt!(Some(@M@))", wraps="Some(@M@)?")
        unit("kfn", kconst=True)
        for nm in ("x", "e"):
            unit("nm.var." + nm, E=nm, P=nm, pre=f"let {nm} = {e};")
            # `e` is bound only by the plain arm of try_! (`Err(e) => return Err(e)`)
            unit("item.const." + nm, E="{ let _ = " + nm + "; " + e + " }", P="v", pre=f"const {nm}: i64 = 1;",
                 clash=not ((form == "me" and nm == "e") or (macro == "try_opt" and nm == "e")))


def rebind_units_hy(Unit, tier, add, rebind_unit, payloads):
    n = [0]

    def rb(tag, macro, arity, kinds, rename=(), rhs=None, pre="", scope=True, expect_reject=False, clash=False):
        n[0] += 1
        u0 = rebind_unit(0, macro, arity, list(kinds))
        impl, oracle = u0.impl_body, u0.oracle_body
        for a, b_ in rename:
            impl, oracle = impl.replace(a, b_), oracle.replace(a, b_)
        if rhs:
            assert "= r}" in impl or "= r =>" in impl
            impl = impl.replace("= r}", "= " + rhs + "}").replace("= r =>", "= " + rhs + " =>")
        impl, oracle = pre + impl, pre + oracle
        u = add((f"hy.{tag} rebind.{macro} ", u0.req[1]), "rb", impl, oracle, scope=scope, expect_reject=expect_reject, clash=clash)
        u.argty, u.n, u.data = u0.argty, arity, payloads(arity, tier)
        return u

    for macro in ("try_rebind", "rebind_if_ok", "rebind_if_ok_nc"):
        rb("nm.var", macro, 1, "p", rename=[("p0", "tuple")])
        rb("nm.var", macro, 2, "pp", rename=[("p0", "tuple"), ("p1", "_e")])
        if macro != "rebind_if_ok_nc":
            rb("nm.var", macro, 2, "pl", rename=[("p0", "_e"), ("l1", "tuple")])
            rb("nm.var", macro, 3, "ltp", rename=[("l0", "tuple"), ("l1", "_e"), ("p2", "x")])
        rb("blk", macro, 2, "pp", rhs="{ let t = r; t }")
        rb("ifm", macro, 2, "pp", rhs="if p0 < 0 { r } else { Err(0) }")
        rb("ifm", macro, 1, "p", rhs="match p0 { -100 => r, _ => Err(0) }")
        # a caller constant named like the binder of the Ok payload / of the error
        u = rb("item.const.tuple", macro, 1, "p", pre="    const tuple: i64 = 10;\n", clash=True)
        if macro.startswith("rebind_if_ok"):
            u.regression = "F19"      # const tuple: i64 = 10; rebind_if_ok!{p = Ok(5)} assigned nothing
        rb("item.const._e", macro, 1, "p", pre="    const _e: i64 = 5;\n", clash=(macro == "try_rebind"))
