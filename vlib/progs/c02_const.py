"""
C02 under CONST EVALUATION: the slice groups of the C01 const-item programs (vlib/progs/c01.py: every index / index
pair incl. len+1, isize::MAX, usize::MAX x every shared and `_mut` slice function inside `const` items). rustc's const
evaluator rejects out-of-bounds pointer arithmetic that is silent at run time (error[E0080]), so a bounds check moved
behind the pointer computation shows here as `reject` although the run-time rows still agree with std
(added after seeded change C02-r5-2: `split_at_mut` computing `ptr.add(at)` before clamping).
"""
import os
from vlib.progs import common, c01


def generate(ctx):
    wd = common.workdir("C02const")
    rows = []
    c01.const_rows(ctx, wd, rows, [c01.g_slice, c01.g_slice_mut])
    return common.write_tsv(os.path.join(wd, "c02_const.tsv"), rows)
