"""
C15 generated programs:
  * led.map_ / led.from_fn_ : by-value macros over drop-logging elements with an early exit at index k;
    observed: result (array ids / panic / returned), event ledger `[id:c;…;id:d;…]`, leaked ids.
  * destr.fin / destr.imm   : destructure! on every supported shape; `fin` = per-id ledger (moved to a
    variable / dropped) + the bound values, oracle = the native `let` destructuring of an identical
    value with the same drop log; `imm` = what was dropped inside the macro's own statements, oracle =
    the documented behaviour (`_` / `..` parts are dropped immediately, in order).
  * destr.rej               : invocations that must be rejected (compiled one by one, emit=metadata).
Requests: see lean/Driver/C15.lean.
"""
import os, re, random, shutil, subprocess, concurrent.futures
from vlib import core
from vlib.progs import common
from vlib.progs.c11 import elog_src, exit_stmt

KINDS = ["brk", "cont", "ret", "lbrk", "lcont", "panic"]

PRELUDE = """
#![allow(unused, unreachable_code, non_camel_case_types, non_snake_case)]
use std::cell::Cell;
%s
use elog::E;
fn STR_OF(idx: usize) -> String { format!("s{}", idx) }
fn ids<const N: usize>(a: [E; N]) -> String {
    let v: Vec<u32> = a.into_iter().map(elog::take).collect();
    elog::ids(&v)
}
struct Inner { e: E, n: u8 }
/// what a bound field shows: the ids it contains; plain-data fields show nothing unless their VALUE is not the
/// one put into field `idx` (u8 100+i, u16 0x4200+i, u32 1000+i, u64 0x0807060504030200+i, String "s<i>" /
/// empty in const items) — a read from a wrong offset or with a wrong width is flagged `BAD…`
trait Obs { fn obs(self, idx: usize, out: &mut Vec<String>); }
impl Obs for E { fn obs(self, idx: usize, out: &mut Vec<String>) { out.push(elog::take(self).to_string()); } }
impl Obs for u32 { fn obs(self, idx: usize, out: &mut Vec<String>) { if self != 1000 + idx as u32 { out.push("BADN".into()); } } }
impl Obs for u8 { fn obs(self, idx: usize, out: &mut Vec<String>) { if self != 100 + idx as u8 { out.push("BADO".into()); } } }
impl Obs for u16 { fn obs(self, idx: usize, out: &mut Vec<String>) { if self != 0x4200 + idx as u16 { out.push("BADH".into()); } } }
impl Obs for u64 { fn obs(self, idx: usize, out: &mut Vec<String>) { if self != 0x0807060504030200 + idx as u64 { out.push("BADQ".into()); } } }
impl Obs for String { fn obs(self, idx: usize, out: &mut Vec<String>) { if self != STR_OF(idx) { out.push("BADT".into()); } } }
impl Obs for () { fn obs(self, idx: usize, out: &mut Vec<String>) {} }
impl Obs for (E, E) { fn obs(self, idx: usize, out: &mut Vec<String>) { self.0.obs(idx, out); self.1.obs(idx, out); } }
impl<const N: usize> Obs for [E; N] { fn obs(self, idx: usize, out: &mut Vec<String>) { for e in self { e.obs(idx, out); } } }
impl Obs for Inner { fn obs(self, idx: usize, out: &mut Vec<String>) { if self.n != 7 { out.push("BADS".into()); } self.e.obs(idx, out); } }
fn show<T: Obs>(v: T, letter: char, idx: usize, vals: &mut Vec<String>) {
    let mut o = Vec::new();
    v.obs(idx, &mut o);
    vals.push(format!("{}{}:{}", letter, idx, o.join(",")));
}
/// `[a:x;b:y]` sorted by id
fn sorted_log() -> String {
    let l = elog::log();
    if !l.starts_with('[') { return l; }
    let inner = &l[1..l.len() - 1];
    let mut v: Vec<(u32, String)> = inner.split(';').filter(|s| !s.is_empty()).map(|s| {
        let mut p = s.split(':'); (p.next().unwrap().parse().unwrap(), p.next().unwrap().to_string()) }).collect();
    v.sort();
    format!("[{}]", v.iter().map(|(i, t)| format!("{}:{}", i, t)).collect::<Vec<_>>().join(";"))
}
/// the ids dropped so far, in order (anything else is printed raw)
fn dropped_so_far() -> String {
    let l = elog::log();
    if !l.starts_with('[') { return l; }
    let inner = &l[1..l.len() - 1];
    let mut v = Vec::new();
    for s in inner.split(';').filter(|s| !s.is_empty()) {
        if let Some(id) = s.strip_suffix(":d") { v.push(id.to_string()); } else { return l; }
    }
    format!("[{}]", v.join(";"))
}
"""

MAIN = """
fn main() {
    std::panic::set_hook(Box::new(|_| {}));
    let arg = std::env::args().nth(1).unwrap();
    let cases: &[fn() -> String] = &[%s];
    if arg == "all" {
        for f in cases {
            let r = std::panic::catch_unwind(*f).unwrap_or_else(|_| "panic".to_string());
            println!("{}", r);
        }
    } else {
        let id: usize = arg.parse().unwrap();
        let r = std::panic::catch_unwind(cases[id]).unwrap_or_else(|_| "panic".to_string());
        println!("{}", r);
    }
}
"""

# ------------------------------------------------------------------------------------------------
# by-value macros with early exits
# ------------------------------------------------------------------------------------------------

def led_case(cid, mac, n, kind, k):
    ex = "" if kind == "none" else "if i == %d { %s }" % (k, exit_stmt(kind))
    if mac == "map_":
        call = ("{ let inp: [E; %d] = core::array::from_fn(|_| elog::new()); let mut idx = 0usize; "
                "konst::array::map_!(inp, |e: E| { let i = idx; idx += 1; elog::take_as(e, \"c\"); %s elog::new() }) }" % (n, ex))
    else:
        call = "konst::array::from_fn_!(|i| { %s elog::new() })" % ex
    body = "let r: [E; %d] = %s; return Some(r);" % (n, call)
    if kind == "lbrk":
        body = "'outer: loop { %s } None" % body
    elif kind == "lcont":
        body = "let mut pass = 0; 'outer: loop { pass += 1; if pass == 2 { return None; } %s }" % body
    return """
fn case_%d() -> String {
    fn inner() -> Option<[E; %d]> { %s }
    elog::reset();
    let r = std::panic::catch_unwind(inner);
    let log = elog::log();
    let res = match r { Ok(Some(a)) => ids(a), Ok(None) => "returned".to_string(), Err(_) => "panic".to_string() };
    format!("{}|L={}|leak={}", res, log, elog::leaked())
}""" % (cid, n, body)


# ------------------------------------------------------------------------------------------------
# destructure!
# ------------------------------------------------------------------------------------------------
TYPES = {"e": ("E", "elog::new()", 1), "n": ("u32", "1000u32 + {i}", 0), "z": ("()", "()", 0),
         "p": ("(E, E)", "(elog::new(), elog::new())", 2), "a": ("[E; 2]", "[elog::new(), elog::new()]", 2),
         "s": ("Inner", "Inner { e: elog::new(), n: 7 }", 1), "g": ("E", "elog::new()", 1),
         # plain data of alignment 1 / 2 / 8 and a String (alignment 8, with a destructor): in a `#[repr(packed)]`
         # struct a `u8` in front puts the wider fields at MISALIGNED offsets
         "o": ("u8", "100u8 + {i}", 0), "h": ("u16", "0x4200u16 + {i}", 0), "q": ("u64", "0x0807060504030200u64 + {i}", 0),
         "t": ("String", "format!(\"s{i}\")", 0)}

REPRS = {"packed": "#[repr(packed)] ", "bpacked": "#[repr(packed)] ", "cpacked": "#[repr(C, packed)] ",
         "cbpacked": "#[repr(C, packed)] ", "packed2": "#[repr(packed(2))] "}
TUPLE_SHAPES = ("tstruct", "packed", "cpacked", "packed2")
BRACED_SHAPES = ("bstruct", "bstructr", "bpacked", "cbpacked")


def fields_of(spec):
    """[(type letter, pattern letter)]"""
    return [] if spec == "-" else [(spec[i], spec[i + 1]) for i in range(0, len(spec), 2)]


def struct_case(cid, shape, spec):
    fs = fields_of(spec)
    n = len(fs)
    name = "S%d" % cid
    tys = [TYPES[t][0] for t, _ in fs]
    ctors = [TYPES[t][1].replace("{i}", str(i)) for i, (t, _) in enumerate(fs)]
    decl = ""
    listing = list(range(n))
    if shape == "tuple":
        ctor = "(" + "".join(c + ", " for c in ctors) + ")"
        pat = lambda ps: "(" + "".join(p + ", " for p in ps) + ")"
    elif shape in TUPLE_SHAPES:
        decl = REPRS.get(shape, "") + "struct %s(%s);" % (name, ", ".join(tys))
        ctor = "%s(%s)" % (name, ", ".join(ctors))
        pat = lambda ps: "%s(%s)" % (name, ", ".join(ps))
    elif shape in BRACED_SHAPES:
        decl = REPRS.get(shape, "") + "struct %s { %s }" % (name, ", ".join("a%d: %s" % (i, t) for i, t in enumerate(tys)))
        ctor = "%s { %s }" % (name, ", ".join("a%d: %s" % (i, c) for i, c in enumerate(ctors)))
        if shape == "bstructr":
            listing = listing[::-1]
        pat = lambda ps: "%s { %s }" % (name, ", ".join("a%d: %s" % (i, ps[i]) for i in listing))
    elif shape == "generic":
        gens = ["T%d" % i for i in range(n)]
        decl = "struct %s<%s> { %s }" % (name, ", ".join(gens), ", ".join("a%d: T%d" % (i, i) for i in range(n)))
        ctor = "%s { %s }" % (name, ", ".join("a%d: %s" % (i, c) for i, c in enumerate(ctors)))
        pat = lambda ps: "%s { %s }" % (name, ", ".join("a%d: %s" % (i, ps[i]) for i in listing))
    else:
        raise ValueError(shape)
    ps = ["f%d" % i if p == "b" else "_" for i, (_, p) in enumerate(fs)]
    shows = "".join("show(f%d, '%s', %d, &mut vals); " % (i, fs[i][0], i) for i in listing if fs[i][1] == "b")
    # the native oracle: ordinary destructuring `let`; packed structs cannot be destructured by pattern
    # when a field has a destructor, so they are moved out field by field
    if shape in REPRS:
        acc = (lambda i: "val.%d" % i) if shape in TUPLE_SHAPES else (lambda i: "val.a%d" % i)
        native = "".join("let f%d = %s; " % (i, acc(i)) for i in listing if fs[i][1] == "b")
    else:
        native = "let %s = val;" % pat(ps)
    return """
fn case_%d() -> String {
    %s
    elog::reset();
    let (imm, fin_k, vals_k) = {
        let val = %s;
        konst::destructure!{ %s = val }
        let imm = dropped_so_far();
        let mut vals: Vec<String> = Vec::new();
        %s
        (imm, sorted_log(), vals.join(";"))
    };
    elog::reset();
    let vals_n = {
        let val = %s;
        %s
        let mut vals: Vec<String> = Vec::new();
        %s
        vals.join(";")
    };
    let fin_n = sorted_log();
    format!("{}\\t{}\\t{}", imm, format!("L={}|vals=[{}]", fin_k, vals_k), format!("L={}|vals=[{}]", fin_n, vals_n))
}""" % (cid, decl, ctor, pat(ps), shows, ctor, native, shows)


def array_case(cid, length, spec):
    pats = [] if spec == "-" else list(spec)
    ps, shows, idx = [], "", 0
    nonrest = sum(1 for p in pats if p in "bw")
    restlen = length - nonrest
    pos = 0
    for j, p in enumerate(pats):
        if p == "b":
            # alternate the plain identifier form and the parenthesised-pattern form
            ps.append("f%d" % j if j % 2 == 0 else "(f%d)" % j)
            shows += "show(f%d, 'e', %d, &mut vals); " % (j, pos)
            pos += 1
        elif p == "w":
            ps.append("_")
            pos += 1
        elif p == "R":
            ps.append("f%d @ .." % j)
            shows += "show(f%d, 'r', %d, &mut vals); " % (j, pos)
            pos += restlen
        elif p == "D":
            ps.append("..")
            pos += restlen
    pat = "[" + ", ".join(ps) + "]"
    ctor = "{ let a: [E; %d] = core::array::from_fn(|_| elog::new()); a }" % length
    return """
fn case_%d() -> String {
    elog::reset();
    let (imm, fin_k, vals_k) = {
        let val = %s;
        konst::destructure!{ %s = val }
        let imm = dropped_so_far();
        let mut vals: Vec<String> = Vec::new();
        %s
        (imm, sorted_log(), vals.join(";"))
    };
    elog::reset();
    let vals_n = {
        let val = %s;
        let %s = val;
        let mut vals: Vec<String> = Vec::new();
        %s
        vals.join(";")
    };
    let fin_n = sorted_log();
    format!("{}\\t{}\\t{}", imm, format!("L={}|vals=[{}]", fin_k, vals_k), format!("L={}|vals=[{}]", fin_n, vals_n))
}""" % (cid, ctor, pat, shows, ctor, pat, shows)


def imm_doc_struct(shape, spec):
    """documented behaviour: the `_` fields are dropped inside the macro, in listing order"""
    fs = fields_of(spec)
    ids, nxt = [], 0
    for t, _ in fs:
        k = TYPES[t][2]
        ids.append(list(range(nxt, nxt + k)))
        nxt += k
    order = range(len(fs)) if shape != "bstructr" else reversed(range(len(fs)))
    out = []
    for i in order:
        if fs[i][1] == "w":
            out += ids[i]
    return "[" + ";".join(map(str, out)) + "]"


def imm_doc_array(length, spec):
    pats = [] if spec == "-" else list(spec)
    nonrest = sum(1 for p in pats if p in "bw")
    pos, out = 0, []
    for p in pats:
        if p in "bw":
            if p == "w":
                out.append(pos)
            pos += 1
        else:
            m = length - nonrest
            if p == "D":
                out += list(range(pos, pos + m))
            pos += m
    return "[" + ";".join(map(str, out)) + "]"


def pattern_sets(n):
    s = {"b" * n, "w" * n, ("bw" * n)[:n], ("wb" * n)[:n], "w" + "b" * (n - 1), "b" * (n - 1) + "w"}
    return sorted(x for x in s if len(x) == n)


def array_patterns(length):
    """every prefix/rest/suffix pattern list that fits an array of this length"""
    out = []
    def words(k):
        if k == 0:
            return [""]
        return [a + w for a in "bw" for w in words(k - 1)]
    out += words(length)
    for total in range(0, length + 1):
        for pre in range(0, total + 1):
            for w in words(total):
                for r in "RD":
                    out.append(w[:pre] + r + w[pre:])
    return [o if o else "-" for o in out]



# ------------------------------------------------------------------------------------------------
# packed structs with MISALIGNED fields: run time, compile time (const evaluation), Miri
# ------------------------------------------------------------------------------------------------
# a leading / interleaved u8 puts u16 / u32 / u64 / String / E fields at odd offsets
MISALIGNED = ["oqooqt", "oqe", "ohonoqe", "eoq", "toqh", "onoe"]
PACKED_SHAPES = ["packed", "bpacked", "cpacked", "cbpacked", "packed2"]
CONST_TYPES = ["oqooqt", "ohonoq", "toq", "qo", "oq", "onz"]
CONST_SHAPES = ["packed", "bpacked", "cpacked", "cbpacked", "packed2", "tstruct", "bstruct", "tuple"]

CONST_PRELUDE = """
#![allow(unused, unreachable_code, non_camel_case_types, non_snake_case)]
trait Obs { fn obs(self, idx: usize, out: &mut Vec<String>); }
impl Obs for u32 { fn obs(self, idx: usize, out: &mut Vec<String>) { if self != 1000 + idx as u32 { out.push("BADN".into()); } } }
impl Obs for u8 { fn obs(self, idx: usize, out: &mut Vec<String>) { if self != 100 + idx as u8 { out.push("BADO".into()); } } }
impl Obs for u16 { fn obs(self, idx: usize, out: &mut Vec<String>) { if self != 0x4200 + idx as u16 { out.push("BADH".into()); } } }
impl Obs for u64 { fn obs(self, idx: usize, out: &mut Vec<String>) { if self != 0x0807060504030200 + idx as u64 { out.push("BADQ".into()); } } }
impl Obs for String { fn obs(self, idx: usize, out: &mut Vec<String>) { if !self.is_empty() || self.capacity() != 0 { out.push("BADT".into()); } } }
impl Obs for () { fn obs(self, idx: usize, out: &mut Vec<String>) {} }
fn show<T: Obs>(v: T, letter: char, idx: usize, vals: &mut Vec<String>) {
    let mut o = Vec::new();
    v.obs(idx, &mut o);
    vals.push(format!("{}{}:{}", letter, idx, o.join(",")));
}
"""


def const_patterns(ts):
    """all-bind and alternating patterns; a String cannot be dropped during const evaluation, so it is always bound"""
    n = len(ts)
    out = []
    for ps in ("b" * n, ("bw" * n)[:n], ("wb" * n)[:n]):
        ps = "".join("b" if t == "t" else p for t, p in zip(ts, ps))
        if ps not in out:
            out.append(ps)
    return out


def const_case(cid, shape, spec):
    """destructure! evaluated at COMPILE TIME: even ids in the initialiser of a `const` item, odd ids in a
    `const fn` called from one; the bound fields are the value of the const"""
    fs = fields_of(spec)
    n = len(fs)
    name = "K%d" % cid
    tys = [TYPES[t][0] for t, _ in fs]
    ctors = ["String::new()" if t == "t" else TYPES[t][1].replace("{i}", str(i)) for i, (t, _) in enumerate(fs)]
    ps = ["f%d" % i if p == "b" else "_" for i, (_, p) in enumerate(fs)]
    decl = ""
    if shape == "tuple":
        ty = "(" + "".join(t + ", " for t in tys) + ")"
        ctor = "(" + "".join(c + ", " for c in ctors) + ")"
        pat = "(" + "".join(p + ", " for p in ps) + ")"
    elif shape in TUPLE_SHAPES:
        ty = name
        decl = REPRS.get(shape, "") + "struct %s(%s);" % (name, ", ".join(tys))
        ctor = "%s(%s)" % (name, ", ".join(ctors))
        pat = "%s(%s)" % (name, ", ".join(ps))
    else:
        ty = name
        decl = REPRS.get(shape, "") + "struct %s { %s }" % (name, ", ".join("a%d: %s" % (i, t) for i, t in enumerate(tys)))
        ctor = "%s { %s }" % (name, ", ".join("a%d: %s" % (i, c) for i, c in enumerate(ctors)))
        pat = "%s { %s }" % (name, ", ".join("a%d: %s" % (i, p) for i, p in enumerate(ps)))
    bound = [i for i, (_, p) in enumerate(fs) if p == "b"]
    rty = "(" + "".join(tys[i] + ", " for i in bound) + ")"
    rval = "(" + "".join("f%d, " % i for i in bound) + ")"
    if cid % 2 == 0:
        item = "const C%d: %s = { let val = %s; konst::destructure!{ %s = val } %s };" % (cid, rty, ctor, pat, rval)
    else:
        item = ("const fn d%d(val: %s) -> %s { konst::destructure!{ %s = val } %s }\nconst C%d: %s = d%d(%s);"
                % (cid, ty, rty, pat, rval, cid, rty, cid, ctor))
    shows = "".join("show(f%d, '%s', %d, &mut vals); " % (i, fs[i][0], i) for i in bound)
    return """
%s
%s
fn case_%d() -> String {
    let %s = C%d;
    let mut vals: Vec<String> = Vec::new();
    %s
    format!("L=[]|vals=[{}]", vals.join(";"))
}""" % (decl, item, cid, rval, cid, shows)


def const_oracle(spec):
    """accepted, and every bound field has the value that was put in (no ids: plain data)"""
    fs = fields_of(spec)
    return "L=[]|vals=[%s]" % ";".join("%s%d:" % (t, i) for i, (t, p) in enumerate(fs) if p == "b")


CONST_MAIN = """
fn main() {
    let cases: &[fn() -> String] = &[%s];
    for f in cases { println!("{}", f()); }
}
"""


def const_rows(d, tier):
    cases = []
    for shape in CONST_SHAPES:
        for ts in CONST_TYPES:
            pss = const_patterns(ts)
            if tier != "thorough" and shape in ("tstruct", "bstruct", "tuple"):
                pss = pss[:1]
            for ps in pss:
                cases.append((shape, "".join(t + p for t, p in zip(ts, ps))))
    src = CONST_PRELUDE
    for i, (shape, spec) in enumerate(cases):
        src += const_case(i, shape, spec)
    src += CONST_MAIN % ", ".join("case_%d" % i for i in range(len(cases)))
    p = os.path.join(d, "destr_const.rs")
    open(p, "w").write(src)
    rc, err = common.compile_one(p, os.path.join(d, "destr_const"))
    res = None
    if rc == 0:
        rc2, out, err2 = common.run_bin(os.path.join(d, "destr_const"), [], timeout=60)
        lines = out.rstrip("\n").split("\n")
        if rc2 == 0 and len(lines) == len(cases):
            res = lines
    if res is None:
        # the batch is rejected (or crashed): every case alone, so that the verdict is per request
        def one(i):
            shape, spec = cases[i]
            q = os.path.join(d, "destr_const_%d.rs" % i)
            open(q, "w").write(CONST_PRELUDE + const_case(i, shape, spec) + CONST_MAIN % ("case_%d" % i))
            rc, err = common.compile_one(q, q[:-3])
            if rc != 0:
                m = re.search(r"error\[(E\d+)\]", err)
                return "does-not-compile" + (":" + m.group(1) if m else "")
            rc, out, err = common.run_bin(q[:-3], [], timeout=20)
            return out.strip() if rc == 0 and out.strip() else "crash:%d" % rc
        with concurrent.futures.ThreadPoolExecutor(max_workers=16) as ex:
            res = list(ex.map(one, range(len(cases))))
    return [("destr.const %s %s" % (shape, spec), r, const_oracle(spec), True) for (shape, spec), r in zip(cases, res)]


def harness_konst_dep():
    """the `konst = …` dependency line of the harness (so that Miri sees the same crate the harness is built against)"""
    for line in open(os.path.join(core.HARNESS, "Cargo.toml")):
        if line.startswith("konst"):
            return line.strip()
    raise RuntimeError("no konst dependency in harness/Cargo.toml")


def miri_rows(d, cases, native, extra):
    """thorough tier: the run-time packed-struct cases as one small program under `cargo +nightly miri run`.
    A reported undefined behaviour (or an output that differs from the native run) is the implementation's
    result; if Miri cannot be run at all the row is omitted and the reason recorded in the evidence."""
    proj = os.path.join(core.BUILD, "miri_c15")
    os.makedirs(os.path.join(proj, "src"), exist_ok=True)
    src = PRELUDE % elog_src()
    for i, (kind, a, b) in enumerate(cases):
        src += struct_case(i, a, b)
    src += MAIN % ", ".join("case_%d" % i for i in range(len(cases)))
    open(os.path.join(proj, "src", "main.rs"), "w").write(src)
    open(os.path.join(proj, "Cargo.toml"), "w").write(
        "[package]\nname = \"kmiri_c15\"\nversion = \"0.1.0\"\nedition = \"2021\"\n\n[dependencies]\n%s\n\n[workspace]\n"
        % harness_konst_dep())
    lock = os.path.join(core.HARNESS, "Cargo.lock")
    if os.path.exists(lock) and not os.path.exists(os.path.join(proj, "Cargo.lock")):
        shutil.copy(lock, os.path.join(proj, "Cargo.lock"))
    env = dict(core.ENV)
    env["CARGO_TARGET_DIR"] = os.path.join(core.BUILD, "miri_target")
    env["CARGO_NET_OFFLINE"] = "true"
    # alignment is judged from the allocation's declared alignment (as const evaluation does), not from the
    # address an allocation happens to get: a misaligned typed read of a packed field is reported every time
    env["MIRIFLAGS"] = (env.get("MIRIFLAGS", "") + " -Zmiri-symbolic-alignment-check").strip()
    try:
        p = subprocess.run(["cargo", "+nightly", "miri", "run", "--offline", "--quiet", "--", "all"], cwd=proj, env=env,
                           stdout=subprocess.PIPE, stderr=subprocess.PIPE, text=True, timeout=1500)
    except (OSError, subprocess.TimeoutExpired) as e:
        extra["miri"] = "not run: %s" % type(e).__name__
        return []
    m = re.search(r"error: Undefined Behavior: ([^\n]*)", p.stderr)
    if m:
        res = "UB: " + m.group(1).strip()[:160]
    elif p.returncode != 0:
        extra["miri"] = "not run: cargo miri exited %d: %s" % (p.returncode, p.stderr[-400:])
        return []
    else:
        res = "clean" if p.stdout.rstrip("\n").split("\n") == native else "output-differs-from-native"
    extra["miri"] = "cargo +nightly miri run: %d packed-struct destructure! cases, %s" % (len(cases), res)
    return [("destr.miri packed_runtime", res, "clean", True)]


REJECTS = {
    "tuple_dotdot": "let v = (E::mk(), E::mk()); konst::destructure!{ (a, ..) = v }",
    "struct_dotdot": "struct S { a: E, b: E } let v = S { a: E::mk(), b: E::mk() }; konst::destructure!{ S { a, .. } = v }",
    "tstruct_dotdot": "struct S(E, E); let v = S(E::mk(), E::mk()); konst::destructure!{ S(a, ..) = v }",
    "struct_missing_field": "struct S { a: E, b: E } let v = S { a: E::mk(), b: E::mk() }; konst::destructure!{ S { a } = v }",
    "tuple_too_few": "let v = (E::mk(), E::mk(), E::mk()); konst::destructure!{ (a, b) = v }",
    "tuple_too_many": "let v = (E::mk(), E::mk()); konst::destructure!{ (a, b, c) = v }",
    "tstruct_too_few": "struct S(E, E); let v = S(E::mk(), E::mk()); konst::destructure!{ S(a) = v }",
    "tuple_by_ref": "let v = (E::mk(), E::mk()); konst::destructure!{ (a, b) = &v }",
    "struct_by_ref": "struct S { a: E } let v = S { a: E::mk() }; konst::destructure!{ S { a } = &v }",
    "array_by_ref": "let v = [E::mk(), E::mk()]; konst::destructure!{ [a, b] = &v }",
    "struct_impls_drop": "struct S { a: E } impl Drop for S { fn drop(&mut self) {} } let v = S { a: E::mk() }; konst::destructure!{ S { a } = v }",
    "array_two_rests": "let v = [E::mk(), E::mk(), E::mk()]; konst::destructure!{ [a @ .., b @ ..] = v }",
    "array_too_short": "let v = [E::mk(), E::mk()]; konst::destructure!{ [a, b, c] = v }",
    "array_too_long": "let v = [E::mk(), E::mk(), E::mk()]; konst::destructure!{ [a, b] = v }",
    "array_rest_too_short": "let v = [E::mk()]; konst::destructure!{ [a, r @ .., b] = v }",
    "tuple_17": "let v = (%s); konst::destructure!{ (%s) = v }" % (", ".join(["0u8"] * 17), ", ".join("x%d" % i for i in range(17))),
}


def generate(ctx):
    tier = ctx["tier"]
    rng = random.Random(ctx["seed"])
    d = common.workdir(ctx["pid"] + "_c15")
    rows = []

    # ---- by-value macros, early exits ---------------------------------------------------------
    led = []
    for mac in ("map_", "from_fn_"):
        for n in range(0, 5):
            for kind in KINDS:
                for k in range(n):
                    led.append((mac, n, kind, k))
                if n == 2:
                    led.append((mac, n, kind, n))
    src = PRELUDE % elog_src()
    for i, c in enumerate(led):
        src += led_case(i, *c)
    src += MAIN % ", ".join("case_%d" % i for i in range(len(led)))
    p = os.path.join(d, "led.rs")
    open(p, "w").write(src)
    rc, err = common.compile_one(p, os.path.join(d, "led"))
    if rc != 0:
        raise RuntimeError("C15 led program does not compile: " + err[-1500:])

    def run_case(i, cap=2):
        rc, out, err = common.run_bin(os.path.join(d, "led"), [str(i)], timeout=cap)
        if err == "timeout":
            return "timeout"
        out = out.strip()
        return out if rc == 0 and out else "crash:%d" % rc

    with concurrent.futures.ThreadPoolExecutor(max_workers=16) as ex:
        lres = list(ex.map(run_case, range(len(led))))
        slow = [i for i, r in enumerate(lres) if r == "timeout"]
        for i, r in zip(slow, ex.map(lambda i: run_case(i, 6), slow)):
            lres[i] = r
    for (mac, n, kind, k), res in zip(led, lres):
        hostile = k < n
        if hostile:
            ora = "?"
        elif mac == "map_":
            ora = "[%s]|L=[%s]|leak=[]" % (";".join(str(n + i) for i in range(n)), ";".join("%d:c" % i for i in range(n)))
        else:
            ora = "[%s]|L=[]|leak=[]" % ";".join(str(i) for i in range(n))
        rows.append(("led.%s %d %s@%d" % (mac, n, kind, k), res, ora, True))

    # ---- destructure!: accepted shapes --------------------------------------------------------
    cases = []   # (kind, shape, spec)
    type_strings = ["e", "ee", "en", "ez", "epe", "eae", "ese", "nze", "pa", "e" * 16, "e" * 8 + "n" * 4 + "z" * 2 + "ps"]
    for shape in ("tuple", "tstruct", "bstruct", "bstructr", "packed", "bpacked", "generic"):
        for ts in type_strings:
            if shape in ("bstruct", "bstructr", "bpacked", "generic") and len(ts) == 16 and tier != "thorough":
                if shape != "bstruct":
                    continue
            tsx = ("g" + ts[1:]) if shape == "generic" else ts
            pss = pattern_sets(len(tsx))
            if len(tsx) == 16 and tier != "thorough":
                pss = pss[:3]
            for ps in pss:
                cases.append(("s", shape, "".join(t + p for t, p in zip(tsx, ps))))
    # packed structs whose wider fields sit at misaligned offsets (the reads must be `read_unaligned`)
    packed_cases = []
    for shape in PACKED_SHAPES:
        for ts in MISALIGNED:
            for ps in ("b" * len(ts), ("bw" * len(ts))[:len(ts)], ("wb" * len(ts))[:len(ts)]):
                packed_cases.append(("s", shape, "".join(t + p for t, p in zip(ts, ps))))
    cases += packed_cases
    for shape in ("tuple", "bstruct"):
        cases.append(("s", shape, "-"))
    # tuples of every arity 1..16 with a random pattern
    for ar in range(1, 17):
        ts = "".join(rng.choice("enzpas") for _ in range(ar))
        ps = "".join(rng.choice("bw") for _ in range(ar))
        cases.append(("s", "tuple", "".join(t + p for t, p in zip(ts, ps))))
        cases.append(("s", "tstruct", "".join(t + p for t, p in zip(ts, ps))))
    maxlen = 4 if tier == "thorough" else 3
    for length in range(0, maxlen + 1):
        for spec in array_patterns(length):
            cases.append(("a", length, spec))
    for length, spec in [(6, "bRb"), (6, "wDw"), (6, "R"), (6, "bbbbbb"), (6, "bwbwRw"), (8, "bDbb")]:
        cases.append(("a", length, spec))
    cases = list(dict.fromkeys(cases))
    chunks = [cases[i:i + 120] for i in range(0, len(cases), 120)]
    jobs = []
    for ci, chunk in enumerate(chunks):
        src = PRELUDE % elog_src()
        for i, (kind, a, b) in enumerate(chunk):
            src += struct_case(i, a, b) if kind == "s" else array_case(i, a, b)
        src += MAIN % ", ".join("case_%d" % i for i in range(len(chunk)))
        p = os.path.join(d, "destr_%d.rs" % ci)
        open(p, "w").write(src)
        jobs.append((p, os.path.join(d, "destr_%d" % ci), "link"))
    res = common.compile_many(jobs)
    native_lines = {}
    for ci, (chunk, (rc, err)) in enumerate(zip(chunks, res)):
        if rc != 0:
            raise RuntimeError("C15 destructure program %d does not compile: %s" % (ci, err[-2500:]))
        rc, out, err = common.run_bin(os.path.join(d, "destr_%d" % ci), ["all"], timeout=60)
        lines = out.rstrip("\n").split("\n")
        if rc != 0 or len(lines) != len(chunk):
            raise RuntimeError("C15 destructure program %d failed: rc=%s %s" % (ci, rc, err[-500:]))
        for (kind, a, b), line in zip(chunk, lines):
            native_lines[(kind, a, b)] = line
            parts = line.split("\t")
            if len(parts) != 3:
                parts = [line, line, "?"]
            imm, fin_k, fin_n = parts
            if kind == "s":
                rows.append(("destr.fin %s %s" % (a, b), fin_k, fin_n, True))
                rows.append(("destr.imm %s %s" % (a, b), imm, imm_doc_struct(a, b), True))
            else:
                rows.append(("destr.fin array:%d %s" % (a, b), fin_k, fin_n, True))
                rows.append(("destr.imm array:%d %s" % (a, b), imm, imm_doc_array(a, b), True))

    # ---- destructure! at compile time (const items / const fns), packed structs included --------
    rows += const_rows(d, tier)

    # ---- thorough: the run-time packed cases under Miri ---------------------------------------
    if tier == "thorough" and os.environ.get("VERIF_NO_MIRI") != "1":
        pc = list(dict.fromkeys(packed_cases))
        rows += miri_rows(d, pc, [native_lines[c] for c in pc], ctx.get("extra", {}))

    # ---- destructure!: rejected forms ---------------------------------------------------------
    jobs, names = [], []
    for name, body in sorted(REJECTS.items()):
        p = os.path.join(d, "rej_%s.rs" % name)
        open(p, "w").write("#![allow(unused)]\npub struct E(String);\nimpl E { pub fn mk() -> E { E(String::new()) } }\npub fn f() {\n    %s\n}\n" % body)
        jobs.append((p, os.path.join(d, "rej_%s.rmeta" % name), "metadata"))
        names.append(name)
    for name, (rc, err) in zip(names, common.compile_many(jobs)):
        rows.append(("destr.rej %s" % name, "does-not-compile" if rc != 0 else "compiles", "does-not-compile", True))

    tsv = os.path.join(core.BUILD, "t_%s_progs_c15.tsv" % ctx["pid"])
    if ctx.get("only") is not None:
        rows = [r for r in rows if r[0] in ctx["only"]]
    return common.write_tsv(tsv, rows)
