#!/usr/bin/env python3
"""Regenerates MANIFEST.json from vlib/registry.py (run from /verif)."""
import json, os, sys
sys.path.insert(0, os.path.dirname(os.path.dirname(os.path.abspath(__file__))))
from vlib.registry import PROPS, NOT_APPLICABLE

LEVEL_NOTE = ("Trusted: Lean 4.33 kernel; axioms propext/Classical.choice/Quot.sound only; the hand-written "
              "Spec of std (validated against real std every run); the correspondence harness/driver/comparator; "
              "rustc/cargo. The theorems are about the Lean model; the model is tied to /repo by differential "
              "execution on every run, not by translation.")
checks = []
for pid in sorted(PROPS):
    P = PROPS[pid]
    checks.append({
        "property_id": pid,
        "quick_cmd": f"./check {pid} --tier quick",
        "thorough_cmd": f"./check {pid} --tier thorough",
        "evidence_file": f"/verif/evidence/{pid}.json",
        "replay_cmd_template": f"./check {pid} --replay {{path}}",
        "engine": "lean4-model+correspondence",
        "level_claimed": {"category": P["level"], "text": P["claim"], "design_ref": P.get("design_ref", f"DESIGN.md section 6, {pid}")},
        "level_note": LEVEL_NOTE + " " + P.get("level_note", ""),
        "technique": P.get("technique", "Lean 4 machine-checked proof over a hand-written model + differential correspondence check against /repo"),
    })
m = {
    "version": 1,
    "setup_cmd": "./setup.sh",
    "hooks": {
        "guard": "--cfg konst_verif",
        "enable": "none needed: everything is observed through konst's public API; no hook commits exist",
        "baseline_off_cmd": "cd /repo && cargo test --workspace --no-fail-fast --offline",
        "source_commits": [],
        "add_only": True,
    },
    "engines": [{
        "name": "lean4-model+correspondence", "path": "/verif/check",
        "serves_properties": sorted(PROPS),
        "kind_free_text": "Lean 4 theorems (lean/KonstVerif/Props) over an executable model; Rust harness + generated programs run the real code; compiled Lean driver runs the model on the same requests; three-way comparison impl/model/std",
    }],
    "checks": checks,
    "not_applicable": NOT_APPLICABLE,
    "notes": "See DESIGN.md. known_findings.jsonl lists recorded findings and fixes.",
}
json.dump(m, open(os.path.join(os.path.dirname(os.path.dirname(os.path.abspath(__file__))), "MANIFEST.json"), "w"), indent=1)
print("MANIFEST.json written:", len(checks), "checks,", len(NOT_APPLICABLE), "not applicable")
