#!/usr/bin/env python3
"""Regenerates MANIFEST.json from vlib/registry.py (run from /verif)."""
import json, os, sys
sys.path.insert(0, os.path.dirname(os.path.dirname(os.path.abspath(__file__))))
from vlib.registry import PROPS, NOT_APPLICABLE

LEVEL_NOTE = ("Trusted: Lean 4.33 kernel; axioms propext/Classical.choice/Quot.sound only; the hand-written "
              "Spec of std (validated against real std every run); the correspondence harness/driver/comparator; "
              "rustc/cargo. The property theorems are about the hand-written Lean model; the model is tied to /repo "
              "(a) by differential execution on every run and (b), for the functions listed in translator/targets.txt, "
              "by translation: rs2lean regenerates their Lean definitions from /repo's macro-expanded source on every "
              "run and kernel-checked equivalence theorems (regenerated definition = model definition, no panic / "
              "overflow / out-of-bounds raw-parts) are re-checked against the regenerated text (DESIGN.md section 11); "
              "trusted there: the translator and Rs/Prelude.lean's reading of Rust semantics.")

ROOT = os.path.dirname(os.path.dirname(os.path.abspath(__file__)))


def extracted_note(pid):
    """modules and theorem counts of the second tie for one property"""
    ob = os.path.join(ROOT, "lean", "obligations")
    p = os.path.join(ob, pid + ".extracted.txt")
    if not os.path.exists(p):
        return "", 0
    mods = [l.split()[1] for l in open(p) if l.startswith("use ")]
    n = 0
    for m in mods:
        n += sum(1 for l in open(os.path.join(ob, "equiv", m + ".txt")) if l.strip() and not l.startswith("#") and not l.startswith("import "))
    if not mods:
        return "", 0
    return (f" Second tie for this property: {n} equivalence theorems over the regenerated definitions of the groups "
            f"{', '.join(mods)} (lean/KonstVerif/Extracted/Equiv/); a change to the text of any of those functions either keeps "
            f"them checking, or is kernel-proved to leave each changed definition equal to the committed one (bridge, DESIGN.md "
            f"section 11; the step from there to the theorems is replacement of equals, argued not kernel-checked), or is reported."), n
checks = []
for pid in sorted(PROPS):
    P = PROPS[pid]
    checks.append({
        "property_id": pid,
        "quick_cmd": f"./check {pid} --tier quick",
        "thorough_cmd": f"./check {pid} --tier thorough",
        "evidence_file": f"/verif/evidence/{pid}.json",
        "replay_cmd_template": f"./check {pid} --replay {{path}}",
        "engine": "lean4-model+correspondence",
        "level_claimed": {"category": P["level"], "text": P["claim"], "design_ref": P.get("design_ref", f"DESIGN.md section 6, {pid}")},
        "level_note": LEVEL_NOTE + " " + P.get("level_note", "") + extracted_note(pid)[0],
        "technique": P.get("technique", "Lean 4 machine-checked proof over a hand-written model + differential correspondence check against /repo")
                     + ("; model definitions regenerated from the source by a translator (rs2lean) with kernel-checked equivalence theorems" if extracted_note(pid)[1] else ""),
    })
m = {
    "version": 1,
    "setup_cmd": "./setup.sh",
    "hooks": {
        "guard": "--cfg konst_verif",
        "enable": "none needed: everything is observed through konst's public API; no hook commits exist",
        "baseline_off_cmd": "cd /repo && cargo test --workspace --no-fail-fast --offline",
        "source_commits": [],
        "add_only": True,
    },
    "engines": [{
        "name": "lean4-model+correspondence", "path": "/verif/check",
        "serves_properties": sorted(PROPS),
        "kind_free_text": "Lean 4 theorems (lean/KonstVerif/Props) over an executable model; translator rs2lean regenerates Lean definitions of the targeted functions from /repo's source on every run and the equivalence theorems Extracted.f = Model.f are re-checked; Rust harness + generated programs run the real code; compiled Lean driver runs the model on the same requests; three-way comparison impl/model/std",
    }],
    "checks": checks,
    "not_applicable": NOT_APPLICABLE,
    "notes": "See DESIGN.md. known_findings.jsonl lists recorded findings and fixes.",
}
json.dump(m, open(os.path.join(os.path.dirname(os.path.dirname(os.path.abspath(__file__))), "MANIFEST.json"), "w"), indent=1)
print("MANIFEST.json written:", len(checks), "checks,", len(NOT_APPLICABLE), "not applicable")
