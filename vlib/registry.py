"""
Per-property configuration of the check runner: one file vlib/props/<ID>.py per property, each defining
PROP = { level, claim, sources, rule, explanation, assumptions, exhaustive, ... }.
  sources:   ("harness", family)  -> kharness family run against the real code
             ("programs", module) -> vlib/progs/<module>.py generates, compiles and runs Rust programs
  level:     the evidence level the check claims
"""
import os, importlib

PROPS = {}
_d = os.path.join(os.path.dirname(os.path.abspath(__file__)), "props")
for _fn in sorted(os.listdir(_d)):
    if _fn.startswith("C") and _fn.endswith(".py"):
        PROPS[_fn[:-3]] = importlib.import_module("vlib.props." + _fn[:-3]).PROP

_REASON_PENDING = "not yet built in this session: model, theorems and correspondence for this property are still being written (see DESIGN.md section 6); no check is registered, so nothing is claimed"
NOT_APPLICABLE = [{"property_id": p, "reason": _REASON_PENDING}
                  for p in [f"C{i:02d}" for i in range(1, 21)] if p not in PROPS]
