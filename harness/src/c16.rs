//! C16: `eq_*` / `cmp_*` functions and `const_eq!` / `const_cmp!` / `const_eq_for!` /
//! `const_cmp_for!` / `assertc_eq!` / `assertc_ne!` vs `PartialEq::eq` and `Ord::cmp`.
//!
//! requests:  `eq.<via> <ty> <a> <b>`, `cmp.<via> <ty> <a> <b>`, `assertc.eq|ne <ty> <a> <b>`,
//!            `cmp.laws <ty> <a> <b> <c>` (orderings of ab, bc, ac, ba + verdict of the order laws)
//! `<via>`:   fn, macro, for, forkey, forcl, forpath, opt, optmacro, optfor (see lean/Driver/C16.lean)
//! The macros as expressions of a program (argument expressions with side effects, non-tail positions, foreign
//! return types, const items) are exercised by the generated programs of vlib/progs/c16.py.
use crate::util::*;
use konst::{assertc_eq, assertc_ne, const_cmp, const_cmp_for, const_eq, const_eq_for};
use std::cmp::Ordering;
use std::num::*;
use std::ops::{Range, RangeInclusive};
use std::panic::AssertUnwindSafe;

type F<V> = Box<dyn Fn(&V, &V) -> String>;
type Op<V> = (&'static str, F<V>, F<V>);

fn bx<V>(f: impl Fn(&V, &V) -> String + 'static) -> F<V> {
    Box::new(f)
}
fn o(x: Ordering) -> String {
    match x {
        Ordering::Less => "lt",
        Ordering::Equal => "eq",
        Ordering::Greater => "gt",
    }
    .to_string()
}
fn bs(x: bool) -> String {
    b(x).to_string()
}
/// `om!(<macro call>)` / `bm!(<macro call>)`: the konst macro is the TAIL expression of a closure whose return
/// type is the macro's own value type (`Ordering` / `bool`), and its value is rendered. This module observes the
/// VALUE of the macros on variables for very many inputs. How the macros behave as expressions of a larger
/// program — in non-tail positions, under an enclosing return type that differs from their value, with argument
/// expressions that have side effects — is observed by the generated programs of vlib/progs/c16.py, whose units
/// are compiled one by one: a macro that no longer type-checks in some position is then reported for that
/// position with an input, instead of taking the harness of every property down with it.
macro_rules! om {
    ($($t:tt)*) => { o((|| -> Ordering { $($t)* })()) };
}
macro_rules! bm {
    ($($t:tt)*) => { bs((|| -> bool { $($t)* })()) };
}
fn okp(x: bool) -> String {
    if x { "ok" } else { "panic" }.to_string()
}
fn list(items: impl Iterator<Item = String>) -> String {
    format!("[{}]", items.collect::<Vec<_>>().join(";"))
}
fn opt<V>(x: &Option<V>, show: &dyn Fn(&V) -> String) -> String {
    match x {
        None => "none".to_string(),
        Some(v) => format!("some:{}", show(v)),
    }
}

/// every op on every ordered pair of `vals`
fn pairs<V>(out: &mut Out, ty: &str, vals: &[V], show: &dyn Fn(&V) -> String, ops: &[Op<V>], scope: &dyn Fn(&V, &V) -> bool) {
    let shown: Vec<String> = vals.iter().map(|v| show(v)).collect();
    for (i, a) in vals.iter().enumerate() {
        for (j, bb) in vals.iter().enumerate() {
            for (name, imp, ora) in ops {
                let r = catch(AssertUnwindSafe(|| imp(a, bb)));
                let s = ora(a, bb);
                out.emit(&format!("{} {} {} {}", name, ty, shown[i], shown[j]), &r, &s, scope(a, bb));
            }
        }
    }
}

/// the listed (a, b) pairs only
fn some_pairs<V>(out: &mut Out, ty: &str, prs: &[(V, V)], show: &dyn Fn(&V) -> String, ops: &[Op<V>]) {
    for (a, bb) in prs {
        for (name, imp, ora) in ops {
            let r = catch(AssertUnwindSafe(|| imp(a, bb)));
            let s = ora(a, bb);
            out.emit(&format!("{} {} {} {}", name, ty, show(a), show(bb)), &r, &s, true);
        }
    }
}

fn rev(s: &str) -> &'static str {
    match s {
        "lt" => "gt",
        "gt" => "lt",
        "eq" => "eq",
        _ => "?",
    }
}

/// orderings of (a,b), (b,c), (a,c), (b,a) and whether antisymmetry / transitivity / totality hold on them
fn laws_line(ab: &str, bc: &str, ac: &str, ba: &str) -> String {
    let total = ["lt", "eq", "gt"].contains(&ab) && ["lt", "eq", "gt"].contains(&ba);
    let antisym = rev(ab) == ba;
    let trans = !(ab == bc && ab != "eq") || ac == ab;
    let trans_eq = !(ab == "eq") || ac == bc;
    format!("{}|{}|{}|{}:{}", ab, bc, ac, ba, if total && antisym && trans && trans_eq { "ok" } else { "broken" })
}

fn triples<V>(out: &mut Out, ty: &str, vals: &[V], show: &dyn Fn(&V) -> String, imp: &F<V>, ora: &F<V>) {
    for a in vals {
        for bb in vals {
            for c in vals {
                let r = catch(AssertUnwindSafe(|| laws_line(&imp(a, bb), &imp(bb, c), &imp(a, c), &imp(bb, a))));
                let s = laws_line(&ora(a, bb), &ora(bb, c), &ora(a, c), &ora(bb, a));
                out.emit(&format!("cmp.laws {} {} {} {}", ty, show(a), show(bb), show(c)), &r, &s, true);
            }
        }
    }
}

/// all words over `alpha` with at most `max` letters
fn words<T: Clone>(alpha: &[T], max: usize) -> Vec<Vec<T>> {
    let mut outv: Vec<Vec<T>> = vec![vec![]];
    let mut layer: Vec<Vec<T>> = vec![vec![]];
    for _ in 0..max {
        let mut next = Vec::new();
        for w in &layer {
            for a in alpha {
                let mut x = w.clone();
                x.push(a.clone());
                next.push(x);
            }
        }
        outv.extend(next.iter().cloned());
        layer = next;
    }
    outv
}

/// a random pair of related words (long common prefix, then truncation / extension / one change)
fn related<T: Clone>(rng: &mut Rng, alpha: &[T], max_len: u64) -> (Vec<T>, Vec<T>) {
    let n = rng.below(max_len + 1) as usize;
    let a: Vec<T> = (0..n).map(|_| alpha[rng.below(alpha.len() as u64) as usize].clone()).collect();
    let mut bv = a.clone();
    match rng.below(6) {
        0 => {}
        1 => {
            let k = rng.below(n as u64 + 1) as usize;
            bv.truncate(k);
        }
        2 => {
            for _ in 0..=rng.below(3) {
                bv.push(alpha[rng.below(alpha.len() as u64) as usize].clone());
            }
        }
        3 | 4 => {
            if n > 0 {
                let k = rng.below(n as u64) as usize;
                bv[k] = alpha[rng.below(alpha.len() as u64) as usize].clone();
                // and possibly a different length after the change
                match rng.below(3) {
                    0 => bv.truncate(k + 1 + rng.below((n - k) as u64) as usize),
                    1 => bv.push(alpha[rng.below(alpha.len() as u64) as usize].clone()),
                    _ => {}
                }
            }
        }
        _ => {
            let m = rng.below(max_len + 1) as usize;
            bv = (0..m).map(|_| alpha[rng.below(alpha.len() as u64) as usize].clone()).collect();
        }
    }
    if rng.below(2) == 0 {
        (a, bv)
    } else {
        (bv, a)
    }
}

/// a random pair of LONG related words (10..=40 letters) sharing a long common prefix: they differ
/// only at one late position (index >= 8, often the very last), or one is a proper prefix of the
/// other (cut at >= 8), or one has a few more letters, or they are equal
fn related_long<T: Clone>(rng: &mut Rng, alpha: &[T], pick: &mut dyn FnMut(&mut Rng, &[T]) -> T) -> (Vec<T>, Vec<T>) {
    let n = 10 + rng.below(31) as usize;
    let a: Vec<T> = (0..n).map(|_| pick(rng, alpha)).collect();
    let mut bv = a.clone();
    let late = |rng: &mut Rng| match rng.below(3) {
        0 => n - 1,
        1 => n - 1 - rng.below(3) as usize,
        _ => 8 + rng.below(n as u64 - 8) as usize,
    };
    match rng.below(11) {
        0 => {}
        // one change at an ARBITRARY position (the very first element, an early one, anywhere), lengths
        // equal: a comparison that skips or mis-weights some index shows only here
        8 => bv[0] = pick(rng, alpha),
        9 => {
            let k = rng.below(n as u64) as usize;
            bv[k] = pick(rng, alpha);
        }
        10 => {
            // two changes whose positions agree modulo 8 / 16 (word-wise fast paths)
            let k = rng.below(n as u64) as usize;
            let step = [8usize, 16][rng.below(2) as usize];
            let x = pick(rng, alpha);
            bv[k] = x.clone();
            if k + step < n {
                bv[k + step] = x;
            }
        }
        1 | 2 | 3 => {
            let k = late(rng);
            bv[k] = pick(rng, alpha);
            // and possibly a different length behind the change
            match rng.below(4) {
                0 => bv.truncate(k + 1),
                1 => bv.push(pick(rng, alpha)),
                _ => {}
            }
        }
        4 | 5 => bv.truncate(late(rng)),
        6 => {
            for _ in 0..=rng.below(3) {
                bv.push(pick(rng, alpha));
            }
        }
        _ => {
            // two late changes
            let k = late(rng);
            bv[k] = pick(rng, alpha);
            bv[n - 1] = pick(rng, alpha);
        }
    }
    if rng.below(2) == 0 {
        (a, bv)
    } else {
        (bv, a)
    }
}

fn pick_uniform<T: Clone>(rng: &mut Rng, alpha: &[T]) -> T {
    alpha[rng.below(alpha.len() as u64) as usize].clone()
}

fn with_none<V: Clone>(vals: &[V]) -> Vec<Option<V>> {
    let mut v = vec![None];
    v.extend(vals.iter().cloned().map(Some));
    v
}

// ---------------------------------------------------------------------------------------------
// scalars: integers, bool, char
// ---------------------------------------------------------------------------------------------

macro_rules! scalar_family {
    ($out:expr, $tier:expr, $rng:expr, $T:ty, $name:literal, $show:expr, $vals:expr, $alphas:expr,
     $cmp:ident, $eqo:ident, $cmpo:ident, $eqs:ident, $cmps:ident, $eqos:ident, $cmpos:ident, $assert_slices:tt) => {{
        use konst::primitive::cmp::{$cmp, $cmpo, $eqo};
        use konst::slice::cmp::{$cmpos, $cmps, $eqos, $eqs};
        let out: &mut Out = $out;
        let show1 = $show;
        let show = move |v: &$T| -> String { show1(*v) };
        let vals: Vec<$T> = $vals;
        // --- the scalar itself
        let ops: Vec<Op<$T>> = vec![
            ("cmp.fn", bx(|a: &$T, b: &$T| o($cmp(*a, *b))), bx(|a: &$T, b: &$T| o(a.cmp(b)))),
            ("cmp.macro", bx(|a: &$T, b: &$T| om!(const_cmp!(*a, *b))), bx(|a: &$T, b: &$T| o(a.cmp(b)))),
            ("eq.macro", bx(|a: &$T, b: &$T| bm!(const_eq!(*a, *b))), bx(|a: &$T, b: &$T| bs(a == b))),
            ("assertc.eq", bx(|a: &$T, b: &$T| { assertc_eq!(*a, *b); "ok".to_string() }), bx(|a: &$T, b: &$T| okp(a == b))),
            ("assertc.ne", bx(|a: &$T, b: &$T| { assertc_ne!(*a, *b); "ok".to_string() }), bx(|a: &$T, b: &$T| okp(a != b))),
        ];
        pairs(out, $name, &vals, &show, &ops, &|_, _| true);
        // --- Option<scalar>
        let oshow = move |v: &Option<$T>| opt(v, &show);
        let oops: Vec<Op<Option<$T>>> = vec![
            ("eq.opt", bx(|a: &Option<$T>, b: &Option<$T>| bs($eqo(*a, *b))), bx(|a: &Option<$T>, b: &Option<$T>| bs(a == b))),
            ("cmp.opt", bx(|a: &Option<$T>, b: &Option<$T>| o($cmpo(*a, *b))), bx(|a: &Option<$T>, b: &Option<$T>| o(a.cmp(b)))),
            ("eq.optmacro", bx(|a: &Option<$T>, b: &Option<$T>| bm!(const_eq!(*a, *b))), bx(|a: &Option<$T>, b: &Option<$T>| bs(a == b))),
            ("cmp.optmacro", bx(|a: &Option<$T>, b: &Option<$T>| om!(const_cmp!(*a, *b))), bx(|a: &Option<$T>, b: &Option<$T>| o(a.cmp(b)))),
            ("eq.optfor", bx(|a: &Option<$T>, b: &Option<$T>| bm!(const_eq_for!(option; *a, *b))), bx(|a: &Option<$T>, b: &Option<$T>| bs(a == b))),
            ("cmp.optfor", bx(|a: &Option<$T>, b: &Option<$T>| om!(const_cmp_for!(option; *a, *b))), bx(|a: &Option<$T>, b: &Option<$T>| o(a.cmp(b)))),
        ];
        pairs(out, $name, &with_none(&vals), &oshow, &oops, &|_, _| true);
        // --- order laws on all triples (implementation side)
        if vals.len() <= 9 || $tier == "thorough" {
            triples(out, $name, &vals, &show, &bx(|a: &$T, b: &$T| o($cmp(*a, *b))), &bx(|a: &$T, b: &$T| o(a.cmp(b))));
        }
        // --- slices of the scalar
        let sname = concat!("slice_", $name);
        let sshow = move |v: &Vec<$T>| list(v.iter().map(|x| show1(*x)));
        let sops: Vec<Op<Vec<$T>>> = vec![
            ("eq.fn", bx(|a: &Vec<$T>, b: &Vec<$T>| bs($eqs(a, b))), bx(|a: &Vec<$T>, b: &Vec<$T>| bs(a[..] == b[..]))),
            ("cmp.fn", bx(|a: &Vec<$T>, b: &Vec<$T>| o($cmps(a, b))), bx(|a: &Vec<$T>, b: &Vec<$T>| o(a[..].cmp(&b[..])))),
            ("eq.macro", bx(|a: &Vec<$T>, b: &Vec<$T>| bm!(const_eq!(&a[..], &b[..]))), bx(|a: &Vec<$T>, b: &Vec<$T>| bs(a[..] == b[..]))),
            ("cmp.macro", bx(|a: &Vec<$T>, b: &Vec<$T>| om!(const_cmp!(&a[..], &b[..]))), bx(|a: &Vec<$T>, b: &Vec<$T>| o(a[..].cmp(&b[..])))),
            ("eq.for", bx(|a: &Vec<$T>, b: &Vec<$T>| bm!(const_eq_for!(slice; &a[..], &b[..]))), bx(|a: &Vec<$T>, b: &Vec<$T>| bs(a[..] == b[..]))),
            ("cmp.for", bx(|a: &Vec<$T>, b: &Vec<$T>| om!(const_cmp_for!(slice; &a[..], &b[..]))), bx(|a: &Vec<$T>, b: &Vec<$T>| o(a[..].cmp(&b[..])))),
        ];
        // the other comparator forms of the `*_for!` macros
        let sops2: Vec<Op<Vec<$T>>> = vec![
            ("eq.forkey", bx(|a: &Vec<$T>, b: &Vec<$T>| bm!(const_eq_for!(slice; &a[..], &b[..], |x| *x))), bx(|a: &Vec<$T>, b: &Vec<$T>| bs(a[..] == b[..]))),
            ("cmp.forkey", bx(|a: &Vec<$T>, b: &Vec<$T>| om!(const_cmp_for!(slice; &a[..], &b[..], |x| *x))), bx(|a: &Vec<$T>, b: &Vec<$T>| o(a[..].cmp(&b[..])))),
            ("eq.forcl", bx(|a: &Vec<$T>, b: &Vec<$T>| bm!(const_eq_for!(slice; &a[..], &b[..], |l, r| *l == *r))), bx(|a: &Vec<$T>, b: &Vec<$T>| bs(a[..] == b[..]))),
            ("cmp.forcl", bx(|a: &Vec<$T>, b: &Vec<$T>| om!(const_cmp_for!(slice; &a[..], &b[..], |l, r| $cmp(*l, *r)))), bx(|a: &Vec<$T>, b: &Vec<$T>| o(a[..].cmp(&b[..])))),
            ("eq.forpath", bx(|a: &Vec<$T>, b: &Vec<$T>| { fn e(l: &$T, r: &$T) -> bool { *l == *r } bm!(const_eq_for!(slice; &a[..], &b[..], e)) }), bx(|a: &Vec<$T>, b: &Vec<$T>| bs(a[..] == b[..]))),
            ("cmp.forpath", bx(|a: &Vec<$T>, b: &Vec<$T>| { fn c(l: &$T, r: &$T) -> Ordering { $cmp(*l, *r) } om!(const_cmp_for!(slice; &a[..], &b[..], c)) }), bx(|a: &Vec<$T>, b: &Vec<$T>| o(a[..].cmp(&b[..])))),
        ];
        let osshow = move |v: &Option<Vec<$T>>| opt(v, &sshow);
        let osops: Vec<Op<Option<Vec<$T>>>> = vec![
            ("eq.opt", bx(|a: &Option<Vec<$T>>, b: &Option<Vec<$T>>| bs($eqos(a.as_deref(), b.as_deref()))), bx(|a: &Option<Vec<$T>>, b: &Option<Vec<$T>>| bs(a.as_deref() == b.as_deref()))),
            ("cmp.opt", bx(|a: &Option<Vec<$T>>, b: &Option<Vec<$T>>| o($cmpos(a.as_deref(), b.as_deref()))), bx(|a: &Option<Vec<$T>>, b: &Option<Vec<$T>>| o(a.as_deref().cmp(&b.as_deref())))),
            ("eq.optmacro", bx(|a: &Option<Vec<$T>>, b: &Option<Vec<$T>>| bm!(const_eq!(a.as_deref(), b.as_deref()))), bx(|a: &Option<Vec<$T>>, b: &Option<Vec<$T>>| bs(a.as_deref() == b.as_deref()))),
            ("cmp.optmacro", bx(|a: &Option<Vec<$T>>, b: &Option<Vec<$T>>| om!(const_cmp!(a.as_deref(), b.as_deref()))), bx(|a: &Option<Vec<$T>>, b: &Option<Vec<$T>>| o(a.as_deref().cmp(&b.as_deref())))),
            ("eq.optfor", bx(|a: &Option<Vec<$T>>, b: &Option<Vec<$T>>| bm!(const_eq_for!(option; a.as_deref(), b.as_deref()))), bx(|a: &Option<Vec<$T>>, b: &Option<Vec<$T>>| bs(a.as_deref() == b.as_deref()))),
            ("cmp.optfor", bx(|a: &Option<Vec<$T>>, b: &Option<Vec<$T>>| om!(const_cmp_for!(option; a.as_deref(), b.as_deref()))), bx(|a: &Option<Vec<$T>>, b: &Option<Vec<$T>>| o(a.as_deref().cmp(&b.as_deref())))),
        ];
        let alphas: Vec<Vec<$T>> = $alphas;
        let max = if alphas[0].len() == 2 { if $tier == "thorough" { 6 } else { 4 } } else if $tier == "thorough" { 4 } else { 3 };
        for (k, alpha) in alphas.iter().enumerate() {
            let ws = words(alpha, max);
            pairs(out, sname, &ws, &sshow, &sops, &|_, _| true);
            if k == 0 {
                // comparator forms, Option arms and the order laws do not depend on the letters
                let small = words(alpha, if $tier == "thorough" { 3 } else { 2 });
                pairs(out, sname, &small, &sshow, &sops2, &|_, _| true);
                pairs(out, sname, &with_none(&words(alpha, if $tier == "thorough" { 3 } else { 2 })), &osshow, &osops, &|_, _| true);
                let tw = words(&alpha[..2], 2);
                triples(out, sname, &tw, &sshow, &bx(|a: &Vec<$T>, b: &Vec<$T>| o($cmps(a, b))), &bx(|a: &Vec<$T>, b: &Vec<$T>| o(a[..].cmp(&b[..]))));
            }
        }
        scalar_family!(@assert out, sname, sshow, alphas, $T, $assert_slices);
        // --- seeded random stream: longer slices with long common prefixes
        let n = if $tier == "thorough" { 20000 } else { 1500 };
        let mut prs: Vec<(Vec<$T>, Vec<$T>)> = Vec::new();
        for i in 0..n {
            let alpha = &alphas[i % alphas.len()];
            prs.push(related($rng, alpha, 12));
        }
        some_pairs(out, sname, &prs, &sshow, &sops);
        // --- seeded random stream of LONG slices (10..=40) that differ late / are prefixes of each other
        let n = if $tier == "thorough" { 400 } else { 40 };
        let mut prs: Vec<(Vec<$T>, Vec<$T>)> = Vec::new();
        for i in 0..n {
            let alpha = &alphas[i % alphas.len()];
            prs.push(related_long($rng, alpha, &mut pick_uniform));
        }
        some_pairs(out, sname, &prs, &sshow, &sops);
        some_pairs(out, sname, &prs[..n / 4], &sshow, &sops2);
        let oprs: Vec<(Option<Vec<$T>>, Option<Vec<$T>>)> =
            prs[n / 4..n / 2].iter().map(|(a, b)| (Some(a.clone()), Some(b.clone()))).collect();
        some_pairs(out, sname, &oprs, &osshow, &osops);
    }};
    // assertc_*! on slices needs const_panic's "non_basic" feature (PanicFmt for [T]), which konst does not enable
    (@assert $out:ident, $sname:ident, $sshow:ident, $alphas:ident, $T:ty, no) => {{}};
}

macro_rules! uint_vals {
    ($T:ty) => {
        vec![0, 1, 2, <$T>::MAX / 2, <$T>::MAX / 2 + 1, <$T>::MAX - 1, <$T>::MAX]
    };
}
macro_rules! int_vals {
    ($T:ty) => {
        vec![<$T>::MIN, <$T>::MIN + 1, -2, -1, 0, 1, 2, <$T>::MAX - 1, <$T>::MAX]
    };
}
macro_rules! uint_alphas {
    ($T:ty) => {
        vec![vec![0, 1, 2], vec![0, <$T>::MAX / 2 + 1, <$T>::MAX]]
    };
}
macro_rules! int_alphas {
    ($T:ty) => {
        vec![vec![0, 1, 2], vec![<$T>::MIN, -1, <$T>::MAX]]
    };
}

// ---------------------------------------------------------------------------------------------
// a user type declared with `impl_cmp!` (kind `IsNotStdKind`: `coerce_to_cmp!` hands out `&W` and the
// macros call the inherent `const_eq` / `const_cmp`), and arrays (coerced to `CmpWrapper<&[T]>`)
// ---------------------------------------------------------------------------------------------

#[derive(Debug, Clone, Copy, PartialEq, Eq, PartialOrd, Ord)]
pub struct W(pub u8);

konst::impl_cmp! {
    impl W;
    pub const fn const_eq(&self, other: &Self) -> bool {
        const_eq!(self.0, other.0)
    }
    pub const fn const_cmp(&self, other: &Self) -> Ordering {
        const_cmp!(self.0, other.0)
    }
}

fn user_type_family(out: &mut Out, tier: &str) {
    let vals: Vec<W> = uint_vals!(u8).into_iter().map(W).collect();
    let show = |v: &W| v.0.to_string();
    let ops: Vec<Op<W>> = vec![
        ("eq.impl", bx(|a: &W, b: &W| bm!(const_eq!(*a, *b))), bx(|a: &W, b: &W| bs(a == b))),
        ("cmp.impl", bx(|a: &W, b: &W| om!(const_cmp!(*a, *b))), bx(|a: &W, b: &W| o(a.cmp(b)))),
    ];
    pairs(out, "u8", &vals, &show, &ops, &|_, _| true);
    type V = Vec<W>;
    let sshow = |v: &V| list(v.iter().map(|x| x.0.to_string()));
    let sops: Vec<Op<V>> = vec![
        ("eq.forimpl", bx(|a: &V, b: &V| bm!(const_eq_for!(slice; &a[..], &b[..]))), bx(|a: &V, b: &V| bs(a == b))),
        ("cmp.forimpl", bx(|a: &V, b: &V| om!(const_cmp_for!(slice; &a[..], &b[..]))), bx(|a: &V, b: &V| o(a[..].cmp(&b[..])))),
    ];
    pairs(out, "slice_u8", &words(&[W(0), W(1), W(2)], if tier == "thorough" { 3 } else { 2 }), &sshow, &sops, &|_, _| true);
    let oshow = move |v: &Option<W>| opt(v, &show);
    let oops: Vec<Op<Option<W>>> = vec![
        ("eq.optforimpl", bx(|a: &Option<W>, b: &Option<W>| bm!(const_eq_for!(option; *a, *b))), bx(|a: &Option<W>, b: &Option<W>| bs(a == b))),
        ("cmp.optforimpl", bx(|a: &Option<W>, b: &Option<W>| om!(const_cmp_for!(option; *a, *b))), bx(|a: &Option<W>, b: &Option<W>| o(a.cmp(b)))),
    ];
    pairs(out, "u8", &with_none(&vals), &oshow, &oops, &|_, _| true);
}

macro_rules! arr_call {
    ($mac:ident, $a:expr, $b:expr; $($n:literal)*) => {{
        // every combination of array lengths 0..=3
        macro_rules! inner {
            ($na:literal) => {
                match $b.len() {
                    $( $n => { let x: [u8; $na] = (&$a[..]).try_into().unwrap(); let y: [u8; $n] = (&$b[..]).try_into().unwrap(); $mac!(x, y) } )*
                    _ => unreachable!(),
                }
            };
        }
        match $a.len() {
            0 => inner!(0),
            1 => inner!(1),
            2 => inner!(2),
            3 => inner!(3),
            _ => unreachable!(),
        }
    }};
}

fn array_family(out: &mut Out) {
    type V = Vec<u8>;
    let show = |v: &V| list(v.iter().map(|x| x.to_string()));
    let ops: Vec<Op<V>> = vec![
        ("eq.macroarr", bx(|a: &V, b: &V| bm!(arr_call!(const_eq, a, b; 0 1 2 3))), bx(|a: &V, b: &V| bs(a == b))),
        ("cmp.macroarr", bx(|a: &V, b: &V| om!(arr_call!(const_cmp, a, b; 0 1 2 3))), bx(|a: &V, b: &V| o(a[..].cmp(&b[..])))),
    ];
    pairs(out, "slice_u8", &words(&[0u8, 1, 2], 3), &show, &ops, &|_, _| true);
}

// ---------------------------------------------------------------------------------------------
// NonZero integers
// ---------------------------------------------------------------------------------------------

macro_rules! nonzero_family {
    ($out:expr, $NZ:ty, $name:literal, $prims:expr, $eq:ident, $cmp:ident, $eqo:ident, $cmpo:ident) => {{
        use konst::nonzero::cmp::{$cmp, $cmpo, $eq, $eqo};
        let out: &mut Out = $out;
        let vals: Vec<$NZ> = $prims.into_iter().filter_map(|x| <$NZ>::new(x)).collect();
        let show = |v: &$NZ| v.get().to_string();
        let ops: Vec<Op<$NZ>> = vec![
            ("eq.fn", bx(|a: &$NZ, b: &$NZ| bs($eq(*a, *b))), bx(|a: &$NZ, b: &$NZ| bs(a == b))),
            ("cmp.fn", bx(|a: &$NZ, b: &$NZ| o($cmp(*a, *b))), bx(|a: &$NZ, b: &$NZ| o(a.cmp(b)))),
            ("eq.macro", bx(|a: &$NZ, b: &$NZ| bm!(const_eq!(*a, *b))), bx(|a: &$NZ, b: &$NZ| bs(a == b))),
            ("cmp.macro", bx(|a: &$NZ, b: &$NZ| om!(const_cmp!(*a, *b))), bx(|a: &$NZ, b: &$NZ| o(a.cmp(b)))),
        ];
        pairs(out, $name, &vals, &show, &ops, &|_, _| true);
        let oshow = move |v: &Option<$NZ>| opt(v, &show);
        let oops: Vec<Op<Option<$NZ>>> = vec![
            ("eq.opt", bx(|a: &Option<$NZ>, b: &Option<$NZ>| bs($eqo(*a, *b))), bx(|a: &Option<$NZ>, b: &Option<$NZ>| bs(a == b))),
            ("cmp.opt", bx(|a: &Option<$NZ>, b: &Option<$NZ>| o($cmpo(*a, *b))), bx(|a: &Option<$NZ>, b: &Option<$NZ>| o(a.cmp(b)))),
            ("eq.optmacro", bx(|a: &Option<$NZ>, b: &Option<$NZ>| bm!(const_eq!(*a, *b))), bx(|a: &Option<$NZ>, b: &Option<$NZ>| bs(a == b))),
            ("cmp.optmacro", bx(|a: &Option<$NZ>, b: &Option<$NZ>| om!(const_cmp!(*a, *b))), bx(|a: &Option<$NZ>, b: &Option<$NZ>| o(a.cmp(b)))),
            ("eq.optfor", bx(|a: &Option<$NZ>, b: &Option<$NZ>| bm!(const_eq_for!(option; *a, *b))), bx(|a: &Option<$NZ>, b: &Option<$NZ>| bs(a == b))),
            ("cmp.optfor", bx(|a: &Option<$NZ>, b: &Option<$NZ>| om!(const_cmp_for!(option; *a, *b))), bx(|a: &Option<$NZ>, b: &Option<$NZ>| o(a.cmp(b)))),
        ];
        pairs(out, $name, &with_none(&vals), &oshow, &oops, &|_, _| true);
    }};
}

// ---------------------------------------------------------------------------------------------
// ranges
// ---------------------------------------------------------------------------------------------

macro_rules! range_family {
    ($out:expr, $T:ty, $name:literal, $show:expr, $bounds:expr, $eqr:ident, $eqri:ident) => {{
        use konst::range::cmp::{$eqr, $eqri};
        let out: &mut Out = $out;
        let show1 = $show;
        let bounds: Vec<$T> = $bounds;
        let mut rs: Vec<Range<$T>> = Vec::new();
        let mut ris: Vec<RangeInclusive<$T>> = Vec::new();
        for s in &bounds {
            for e in &bounds {
                rs.push(*s..*e);
                ris.push(*s..=*e);
            }
        }
        // inclusive ranges that iteration has exhausted: same bounds as `s..=s`, private flag set
        for s in &bounds {
            let mut r = *s..=*s;
            r.next();
            assert!(r.is_empty() && r.start() == r.end());
            ris.push(r);
        }
        let rshow = move |r: &Range<$T>| format!("{}|{}", show1(r.start), show1(r.end));
        let rops: Vec<Op<Range<$T>>> = vec![
            ("eq.fn", bx(|a: &Range<$T>, b: &Range<$T>| bs($eqr(a, b))), bx(|a: &Range<$T>, b: &Range<$T>| bs(a == b))),
            ("eq.macro", bx(|a: &Range<$T>, b: &Range<$T>| bm!(const_eq!(*a, *b))), bx(|a: &Range<$T>, b: &Range<$T>| bs(a == b))),
            ("eq.for", bx(|a: &Range<$T>, b: &Range<$T>| bm!(const_eq_for!(range; *a, *b))), bx(|a: &Range<$T>, b: &Range<$T>| bs(a == b))),
        ];
        pairs(out, concat!("range_", $name), &rs, &rshow, &rops, &|_, _| true);
        // `x..=x` is not empty; an exhausted one is (that is how the flag is observed here)
        let rishow = move |r: &RangeInclusive<$T>| {
            format!("{}|{}|{}", show1(*r.start()), show1(*r.end()), if r.start() == r.end() && r.is_empty() { 1 } else { 0 })
        };
        let riops: Vec<Op<RangeInclusive<$T>>> = vec![
            ("eq.fn", bx(|a: &RangeInclusive<$T>, b: &RangeInclusive<$T>| bs($eqri(a, b))), bx(|a: &RangeInclusive<$T>, b: &RangeInclusive<$T>| bs(a == b))),
            ("eq.macro", bx(|a: &RangeInclusive<$T>, b: &RangeInclusive<$T>| bm!(const_eq!(*a, *b))), bx(|a: &RangeInclusive<$T>, b: &RangeInclusive<$T>| bs(a == b))),
            ("eq.for", bx(|a: &RangeInclusive<$T>, b: &RangeInclusive<$T>| bm!(const_eq_for!(range_inclusive; *a, *b))), bx(|a: &RangeInclusive<$T>, b: &RangeInclusive<$T>| bs(a == b))),
        ];
        pairs(out, concat!("rangeinc_", $name), &ris, &rishow, &riops, &|_, _| true);
    }};
}

// ---------------------------------------------------------------------------------------------
// strings, slices of strings, slices of byte slices, Ordering
// ---------------------------------------------------------------------------------------------

fn str_family(out: &mut Out, tier: &str, rng: &mut Rng) {
    use konst::{cmp_option_str, cmp_str, eq_option_str, eq_str};
    let letters: Vec<&[u8]> = if tier == "thorough" {
        vec![b"a", b"b", "ñ".as_bytes(), "\u{10FFFF}".as_bytes()]
    } else {
        vec![b"a", b"b", "ñ".as_bytes()]
    };
    let vals: Vec<String> = all_words(&letters, 3).into_iter().map(|w| String::from_utf8(w).unwrap()).collect();
    let show = |s: &String| hex(s.as_bytes());
    let ops: Vec<Op<String>> = vec![
        ("eq.fn", bx(|a: &String, b: &String| bs(eq_str(a, b))), bx(|a: &String, b: &String| bs(a == b))),
        ("cmp.fn", bx(|a: &String, b: &String| o(cmp_str(a, b))), bx(|a: &String, b: &String| o(a.as_str().cmp(b.as_str())))),
        ("eq.macro", bx(|a: &String, b: &String| bm!(const_eq!(a.as_str(), b.as_str()))), bx(|a: &String, b: &String| bs(a == b))),
        ("cmp.macro", bx(|a: &String, b: &String| om!(const_cmp!(a.as_str(), b.as_str()))), bx(|a: &String, b: &String| o(a.as_str().cmp(b.as_str())))),
        ("assertc.eq", bx(|a: &String, b: &String| { assertc_eq!(a.as_str(), b.as_str()); "ok".to_string() }), bx(|a: &String, b: &String| okp(a == b))),
        ("assertc.ne", bx(|a: &String, b: &String| { assertc_ne!(a.as_str(), b.as_str()); "ok".to_string() }), bx(|a: &String, b: &String| okp(a != b))),
    ];
    pairs(out, "str", &vals, &show, &ops, &|_, _| true);
    let oshow = move |v: &Option<String>| opt(v, &show);
    let oops: Vec<Op<Option<String>>> = vec![
        ("eq.opt", bx(|a: &Option<String>, b: &Option<String>| bs(eq_option_str(a.as_deref(), b.as_deref()))), bx(|a: &Option<String>, b: &Option<String>| bs(a == b))),
        ("cmp.opt", bx(|a: &Option<String>, b: &Option<String>| o(cmp_option_str(a.as_deref(), b.as_deref()))), bx(|a: &Option<String>, b: &Option<String>| o(a.as_deref().cmp(&b.as_deref())))),
        ("eq.optmacro", bx(|a: &Option<String>, b: &Option<String>| bm!(const_eq!(a.as_deref(), b.as_deref()))), bx(|a: &Option<String>, b: &Option<String>| bs(a == b))),
        ("cmp.optmacro", bx(|a: &Option<String>, b: &Option<String>| om!(const_cmp!(a.as_deref(), b.as_deref()))), bx(|a: &Option<String>, b: &Option<String>| o(a.as_deref().cmp(&b.as_deref())))),
        ("eq.optfor", bx(|a: &Option<String>, b: &Option<String>| bm!(const_eq_for!(option; a.as_deref(), b.as_deref()))), bx(|a: &Option<String>, b: &Option<String>| bs(a == b))),
        ("cmp.optfor", bx(|a: &Option<String>, b: &Option<String>| om!(const_cmp_for!(option; a.as_deref(), b.as_deref()))), bx(|a: &Option<String>, b: &Option<String>| o(a.as_deref().cmp(&b.as_deref())))),
    ];
    let small: Vec<String> = all_words(&letters[..3], 2).into_iter().map(|w| String::from_utf8(w).unwrap()).collect();
    pairs(out, "str", &with_none(&small), &oshow, &oops, &|_, _| true);
    let tw: Vec<String> = all_words(&letters[1..3], 2).into_iter().map(|w| String::from_utf8(w).unwrap()).collect();
    triples(out, "str", &tw, &show, &bx(|a: &String, b: &String| o(cmp_str(a, b))), &bx(|a: &String, b: &String| o(a.as_str().cmp(b.as_str()))));
    // random: longer strings over 1-, 2-, 3- and 4-byte characters
    let alpha: Vec<char> = vec!['a', 'b', '\u{7f}', '\u{80}', 'ñ', '\u{7ff}', '\u{800}', '€', '\u{ffff}', '\u{10000}', '\u{10FFFF}'];
    let n = if tier == "thorough" { 40000 } else { 3000 };
    let prs: Vec<(String, String)> = (0..n)
        .map(|_| {
            let (a, bv) = related(rng, &alpha, 10);
            (a.into_iter().collect(), bv.into_iter().collect())
        })
        .collect();
    some_pairs(out, "str", &prs, &show, &ops[..4]);
    // LONG strings (10..=40 chars) with many multi-byte characters, differing late
    let n = if tier == "thorough" { 3000 } else { 300 };
    let mut pick_any = |rng: &mut Rng, alpha: &[char]| if rng.below(3) == 0 { rand_char(rng) } else { pick_uniform(rng, alpha) };
    let prs: Vec<(String, String)> = (0..n)
        .map(|i| {
            let (a, bv) = if i % 2 == 0 { related_long(rng, &alpha, &mut pick_any) } else { related_long(rng, &alpha[..4], &mut pick_uniform) };
            (a.into_iter().collect(), bv.into_iter().collect())
        })
        .collect();
    some_pairs(out, "str", &prs, &show, &ops[..4]);
    let oprs: Vec<(Option<String>, Option<String>)> = prs[..n / 10].iter().map(|(a, b)| (Some(a.clone()), Some(b.clone()))).collect();
    some_pairs(out, "str", &oprs, &oshow, &oops);
}

fn slice_str_family(out: &mut Out, tier: &str, rng: &mut Rng) {
    use konst::slice::cmp::{cmp_option_slice_str, cmp_slice_str, eq_option_slice_str, eq_slice_str};
    type V = Vec<&'static str>;
    // "b" > "aa" lexicographically although it is shorter: the element comparison matters too
    let alpha: Vec<&'static str> = if tier == "thorough" { vec!["", "b", "aa", "ñ"] } else { vec!["", "b", "aa"] };
    let vals: Vec<V> = words(&alpha, 3);
    let show = |v: &V| list(v.iter().map(|s| hex(s.as_bytes())));
    let ops: Vec<Op<V>> = vec![
        ("eq.fn", bx(|a: &V, b: &V| bs(eq_slice_str(a, b))), bx(|a: &V, b: &V| bs(a == b))),
        ("cmp.fn", bx(|a: &V, b: &V| o(cmp_slice_str(a, b))), bx(|a: &V, b: &V| o(a[..].cmp(&b[..])))),
        ("eq.macro", bx(|a: &V, b: &V| bm!(const_eq!(&a[..], &b[..]))), bx(|a: &V, b: &V| bs(a == b))),
        ("cmp.macro", bx(|a: &V, b: &V| om!(const_cmp!(&a[..], &b[..]))), bx(|a: &V, b: &V| o(a[..].cmp(&b[..])))),
        ("eq.for", bx(|a: &V, b: &V| bm!(const_eq_for!(slice; &a[..], &b[..]))), bx(|a: &V, b: &V| bs(a == b))),
        ("cmp.for", bx(|a: &V, b: &V| om!(const_cmp_for!(slice; &a[..], &b[..]))), bx(|a: &V, b: &V| o(a[..].cmp(&b[..])))),
        ("eq.forpath", bx(|a: &V, b: &V| bm!(const_eq_for!(slice; &a[..], &b[..], konst::eq_str))), bx(|a: &V, b: &V| bs(a == b))),
        ("cmp.forpath", bx(|a: &V, b: &V| om!(const_cmp_for!(slice; &a[..], &b[..], konst::cmp_str))), bx(|a: &V, b: &V| o(a[..].cmp(&b[..])))),
    ];
    pairs(out, "slice_str", &vals, &show, &ops, &|_, _| true);
    let oshow = move |v: &Option<V>| opt(v, &show);
    let oops: Vec<Op<Option<V>>> = vec![
        ("eq.opt", bx(|a: &Option<V>, b: &Option<V>| bs(eq_option_slice_str(a.as_deref(), b.as_deref()))), bx(|a: &Option<V>, b: &Option<V>| bs(a == b))),
        ("cmp.opt", bx(|a: &Option<V>, b: &Option<V>| o(cmp_option_slice_str(a.as_deref(), b.as_deref()))), bx(|a: &Option<V>, b: &Option<V>| o(a.as_deref().cmp(&b.as_deref())))),
        ("eq.optmacro", bx(|a: &Option<V>, b: &Option<V>| bm!(const_eq!(a.as_deref(), b.as_deref()))), bx(|a: &Option<V>, b: &Option<V>| bs(a == b))),
        ("cmp.optmacro", bx(|a: &Option<V>, b: &Option<V>| om!(const_cmp!(a.as_deref(), b.as_deref()))), bx(|a: &Option<V>, b: &Option<V>| o(a.as_deref().cmp(&b.as_deref())))),
    ];
    pairs(out, "slice_str", &with_none(&words(&alpha[..3], 2)), &oshow, &oops, &|_, _| true);
    triples(out, "slice_str", &words(&alpha[1..3], 2), &show, &bx(|a: &V, b: &V| o(cmp_slice_str(a, b))), &bx(|a: &V, b: &V| o(a[..].cmp(&b[..]))));
    let ralpha: Vec<&'static str> = vec!["", "a", "b", "aa", "ab", "ñ", "aab", "b\u{10FFFF}"];
    let n = if tier == "thorough" { 20000 } else { 2000 };
    let prs: Vec<(V, V)> = (0..n).map(|_| related(rng, &ralpha, 6)).collect();
    some_pairs(out, "slice_str", &prs, &show, &ops[..6]);
    // LONG slices (10..=40 strings) with a long shared prefix; the elements themselves are long strings
    // sharing long prefixes (the late difference sits inside an element, or in the lengths)
    let n = if tier == "thorough" { 1500 } else { 150 };
    let calpha: Vec<char> = vec!['a', 'b', 'ñ', '€', '\u{10FFFF}'];
    let mut long_elems: Vec<&'static str> = Vec::new();
    for _ in 0..4 {
        let (a, bv) = related_long(rng, &calpha, &mut pick_uniform);
        long_elems.push(Box::leak(a.into_iter().collect::<String>().into_boxed_str()));
        long_elems.push(Box::leak(bv.into_iter().collect::<String>().into_boxed_str()));
    }
    let prs: Vec<(V, V)> = (0..n)
        .map(|i| if i % 2 == 0 { related_long(rng, &ralpha, &mut pick_uniform) } else { related_long(rng, &long_elems, &mut pick_uniform) })
        .collect();
    some_pairs(out, "slice_str", &prs, &show, &ops);
    let oprs: Vec<(Option<V>, Option<V>)> = prs[..n / 10].iter().map(|(a, b)| (Some(a.clone()), Some(b.clone()))).collect();
    some_pairs(out, "slice_str", &oprs, &oshow, &oops);
}

fn slice_bytes_family(out: &mut Out, tier: &str, rng: &mut Rng) {
    use konst::slice::cmp::{cmp_option_slice_bytes, cmp_slice_bytes, eq_option_slice_bytes, eq_slice_bytes};
    type V = Vec<&'static [u8]>;
    let alpha: Vec<&'static [u8]> = if tier == "thorough" { vec![b"", b"\x02", b"\x01\x01", b"\xff"] } else { vec![b"", b"\x02", b"\x01\x01"] };
    let vals: Vec<V> = words(&alpha, 3);
    let show = |v: &V| list(v.iter().map(|s| hex(s)));
    let ops: Vec<Op<V>> = vec![
        ("eq.fn", bx(|a: &V, b: &V| bs(eq_slice_bytes(a, b))), bx(|a: &V, b: &V| bs(a == b))),
        ("cmp.fn", bx(|a: &V, b: &V| o(cmp_slice_bytes(a, b))), bx(|a: &V, b: &V| o(a[..].cmp(&b[..])))),
        ("eq.macro", bx(|a: &V, b: &V| bm!(const_eq!(&a[..], &b[..]))), bx(|a: &V, b: &V| bs(a == b))),
        ("cmp.macro", bx(|a: &V, b: &V| om!(const_cmp!(&a[..], &b[..]))), bx(|a: &V, b: &V| o(a[..].cmp(&b[..])))),
        ("eq.for", bx(|a: &V, b: &V| bm!(const_eq_for!(slice; &a[..], &b[..]))), bx(|a: &V, b: &V| bs(a == b))),
        ("cmp.for", bx(|a: &V, b: &V| om!(const_cmp_for!(slice; &a[..], &b[..]))), bx(|a: &V, b: &V| o(a[..].cmp(&b[..])))),
    ];
    pairs(out, "slice_bytes", &vals, &show, &ops, &|_, _| true);
    let oshow = move |v: &Option<V>| opt(v, &show);
    let oops: Vec<Op<Option<V>>> = vec![
        ("eq.opt", bx(|a: &Option<V>, b: &Option<V>| bs(eq_option_slice_bytes(a.as_deref(), b.as_deref()))), bx(|a: &Option<V>, b: &Option<V>| bs(a == b))),
        ("cmp.opt", bx(|a: &Option<V>, b: &Option<V>| o(cmp_option_slice_bytes(a.as_deref(), b.as_deref()))), bx(|a: &Option<V>, b: &Option<V>| o(a.as_deref().cmp(&b.as_deref())))),
        ("eq.optmacro", bx(|a: &Option<V>, b: &Option<V>| bm!(const_eq!(a.as_deref(), b.as_deref()))), bx(|a: &Option<V>, b: &Option<V>| bs(a == b))),
        ("cmp.optmacro", bx(|a: &Option<V>, b: &Option<V>| om!(const_cmp!(a.as_deref(), b.as_deref()))), bx(|a: &Option<V>, b: &Option<V>| o(a.as_deref().cmp(&b.as_deref())))),
    ];
    pairs(out, "slice_bytes", &with_none(&words(&alpha[..3], 2)), &oshow, &oops, &|_, _| true);
    let ralpha: Vec<&'static [u8]> = vec![b"", b"\x00", b"\x01", b"\x01\x01", b"\x02", b"\x01\x02", b"\xff", b"\x80\x00"];
    let n = if tier == "thorough" { 20000 } else { 2000 };
    let prs: Vec<(V, V)> = (0..n).map(|_| related(rng, &ralpha, 6)).collect();
    some_pairs(out, "slice_bytes", &prs, &show, &ops);
    // LONG slices (10..=40 byte strings) with a long shared prefix; long elements sharing long prefixes
    let n = if tier == "thorough" { 1500 } else { 150 };
    let balpha: Vec<u8> = vec![0, 1, 2, 0x7f, 0x80, 0xff];
    let mut long_elems: Vec<&'static [u8]> = Vec::new();
    for _ in 0..4 {
        let (a, bv) = related_long(rng, &balpha, &mut pick_uniform);
        long_elems.push(Box::leak(a.into_boxed_slice()));
        long_elems.push(Box::leak(bv.into_boxed_slice()));
    }
    let prs: Vec<(V, V)> = (0..n)
        .map(|i| if i % 2 == 0 { related_long(rng, &ralpha, &mut pick_uniform) } else { related_long(rng, &long_elems, &mut pick_uniform) })
        .collect();
    some_pairs(out, "slice_bytes", &prs, &show, &ops);
    let oprs: Vec<(Option<V>, Option<V>)> = prs[..n / 10].iter().map(|(a, b)| (Some(a.clone()), Some(b.clone()))).collect();
    some_pairs(out, "slice_bytes", &oprs, &oshow, &oops);
}

fn ordering_family(out: &mut Out) {
    use konst::other::cmp::{cmp_option_ordering, cmp_ordering, eq_option_ordering, eq_ordering};
    type V = Ordering;
    let vals = vec![Ordering::Less, Ordering::Equal, Ordering::Greater];
    let show = |v: &V| o(*v);
    let ops: Vec<Op<V>> = vec![
        ("eq.fn", bx(|a: &V, b: &V| bs(eq_ordering(*a, *b))), bx(|a: &V, b: &V| bs(a == b))),
        ("cmp.fn", bx(|a: &V, b: &V| o(cmp_ordering(*a, *b))), bx(|a: &V, b: &V| o(a.cmp(b)))),
        ("eq.macro", bx(|a: &V, b: &V| bm!(const_eq!(*a, *b))), bx(|a: &V, b: &V| bs(a == b))),
        ("cmp.macro", bx(|a: &V, b: &V| om!(const_cmp!(*a, *b))), bx(|a: &V, b: &V| o(a.cmp(b)))),
    ];
    pairs(out, "ordering", &vals, &show, &ops, &|_, _| true);
    triples(out, "ordering", &vals, &show, &bx(|a: &V, b: &V| o(cmp_ordering(*a, *b))), &bx(|a: &V, b: &V| o(a.cmp(b))));
    let oshow = move |v: &Option<V>| opt(v, &show);
    let oops: Vec<Op<Option<V>>> = vec![
        ("eq.opt", bx(|a: &Option<V>, b: &Option<V>| bs(eq_option_ordering(*a, *b))), bx(|a: &Option<V>, b: &Option<V>| bs(a == b))),
        ("cmp.opt", bx(|a: &Option<V>, b: &Option<V>| o(cmp_option_ordering(*a, *b))), bx(|a: &Option<V>, b: &Option<V>| o(a.cmp(b)))),
        ("eq.optmacro", bx(|a: &Option<V>, b: &Option<V>| bm!(const_eq!(*a, *b))), bx(|a: &Option<V>, b: &Option<V>| bs(a == b))),
        ("cmp.optmacro", bx(|a: &Option<V>, b: &Option<V>| om!(const_cmp!(*a, *b))), bx(|a: &Option<V>, b: &Option<V>| o(a.cmp(b)))),
        ("eq.optfor", bx(|a: &Option<V>, b: &Option<V>| bm!(const_eq_for!(option; *a, *b))), bx(|a: &Option<V>, b: &Option<V>| bs(a == b))),
        ("cmp.optfor", bx(|a: &Option<V>, b: &Option<V>| om!(const_cmp_for!(option; *a, *b))), bx(|a: &Option<V>, b: &Option<V>| o(a.cmp(b)))),
    ];
    pairs(out, "ordering", &with_none(&vals), &oshow, &oops, &|_, _| true);
}

pub fn run(tier: &str, seed: u64, out: &mut Out) {
    let mut rng = Rng(seed ^ 0xC16);
    let rng = &mut rng;
    let d = |x| -> String { format!("{}", x) };
    macro_rules! dec {
        ($T:ty) => {
            |x: $T| -> String { x.to_string() }
        };
    }
    let _ = d(0);

    scalar_family!(out, tier, rng, u8, "u8", dec!(u8), uint_vals!(u8), uint_alphas!(u8),
        cmp_u8, eq_option_u8, cmp_option_u8, eq_slice_u8, cmp_slice_u8, eq_option_slice_u8, cmp_option_slice_u8, no);
    scalar_family!(out, tier, rng, u16, "u16", dec!(u16), uint_vals!(u16), uint_alphas!(u16),
        cmp_u16, eq_option_u16, cmp_option_u16, eq_slice_u16, cmp_slice_u16, eq_option_slice_u16, cmp_option_slice_u16, no);
    scalar_family!(out, tier, rng, u32, "u32", dec!(u32), uint_vals!(u32), uint_alphas!(u32),
        cmp_u32, eq_option_u32, cmp_option_u32, eq_slice_u32, cmp_slice_u32, eq_option_slice_u32, cmp_option_slice_u32, no);
    scalar_family!(out, tier, rng, u64, "u64", dec!(u64), uint_vals!(u64), uint_alphas!(u64),
        cmp_u64, eq_option_u64, cmp_option_u64, eq_slice_u64, cmp_slice_u64, eq_option_slice_u64, cmp_option_slice_u64, no);
    scalar_family!(out, tier, rng, u128, "u128", dec!(u128), uint_vals!(u128), uint_alphas!(u128),
        cmp_u128, eq_option_u128, cmp_option_u128, eq_slice_u128, cmp_slice_u128, eq_option_slice_u128, cmp_option_slice_u128, no);
    scalar_family!(out, tier, rng, usize, "usize", dec!(usize), uint_vals!(usize), uint_alphas!(usize),
        cmp_usize, eq_option_usize, cmp_option_usize, eq_slice_usize, cmp_slice_usize, eq_option_slice_usize, cmp_option_slice_usize, no);
    scalar_family!(out, tier, rng, i8, "i8", dec!(i8), int_vals!(i8), int_alphas!(i8),
        cmp_i8, eq_option_i8, cmp_option_i8, eq_slice_i8, cmp_slice_i8, eq_option_slice_i8, cmp_option_slice_i8, no);
    scalar_family!(out, tier, rng, i16, "i16", dec!(i16), int_vals!(i16), int_alphas!(i16),
        cmp_i16, eq_option_i16, cmp_option_i16, eq_slice_i16, cmp_slice_i16, eq_option_slice_i16, cmp_option_slice_i16, no);
    scalar_family!(out, tier, rng, i32, "i32", dec!(i32), int_vals!(i32), int_alphas!(i32),
        cmp_i32, eq_option_i32, cmp_option_i32, eq_slice_i32, cmp_slice_i32, eq_option_slice_i32, cmp_option_slice_i32, no);
    scalar_family!(out, tier, rng, i64, "i64", dec!(i64), int_vals!(i64), int_alphas!(i64),
        cmp_i64, eq_option_i64, cmp_option_i64, eq_slice_i64, cmp_slice_i64, eq_option_slice_i64, cmp_option_slice_i64, no);
    scalar_family!(out, tier, rng, i128, "i128", dec!(i128), int_vals!(i128), int_alphas!(i128),
        cmp_i128, eq_option_i128, cmp_option_i128, eq_slice_i128, cmp_slice_i128, eq_option_slice_i128, cmp_option_slice_i128, no);
    scalar_family!(out, tier, rng, isize, "isize", dec!(isize), int_vals!(isize), int_alphas!(isize),
        cmp_isize, eq_option_isize, cmp_option_isize, eq_slice_isize, cmp_slice_isize, eq_option_slice_isize, cmp_option_slice_isize, no);
    scalar_family!(out, tier, rng, bool, "bool", |x: bool| (x as u8).to_string(), vec![false, true], vec![vec![false, true]],
        cmp_bool, eq_option_bool, cmp_option_bool, eq_slice_bool, cmp_slice_bool, eq_option_slice_bool, cmp_option_slice_bool, no);
    scalar_family!(out, tier, rng, char, "char", |x: char| (x as u32).to_string(),
        vec!['\0', 'a', 'b', 'ñ', '\u{D7FF}', '\u{E000}', '\u{10FFFE}', '\u{10FFFF}'],
        vec![vec!['a', 'b', 'ñ'], vec!['\0', '\u{D7FF}', '\u{10FFFF}']],
        cmp_char, eq_option_char, cmp_option_char, eq_slice_char, cmp_slice_char, eq_option_slice_char, cmp_option_slice_char, no);

    nonzero_family!(out, NonZeroU8, "nzu8", uint_vals!(u8), eq_nonzerou8, cmp_nonzerou8, eq_option_nonzerou8, cmp_option_nonzerou8);
    nonzero_family!(out, NonZeroU16, "nzu16", uint_vals!(u16), eq_nonzerou16, cmp_nonzerou16, eq_option_nonzerou16, cmp_option_nonzerou16);
    nonzero_family!(out, NonZeroU32, "nzu32", uint_vals!(u32), eq_nonzerou32, cmp_nonzerou32, eq_option_nonzerou32, cmp_option_nonzerou32);
    nonzero_family!(out, NonZeroU64, "nzu64", uint_vals!(u64), eq_nonzerou64, cmp_nonzerou64, eq_option_nonzerou64, cmp_option_nonzerou64);
    nonzero_family!(out, NonZeroU128, "nzu128", uint_vals!(u128), eq_nonzerou128, cmp_nonzerou128, eq_option_nonzerou128, cmp_option_nonzerou128);
    nonzero_family!(out, NonZeroUsize, "nzusize", uint_vals!(usize), eq_nonzerousize, cmp_nonzerousize, eq_option_nonzerousize, cmp_option_nonzerousize);
    nonzero_family!(out, NonZeroI8, "nzi8", int_vals!(i8), eq_nonzeroi8, cmp_nonzeroi8, eq_option_nonzeroi8, cmp_option_nonzeroi8);
    nonzero_family!(out, NonZeroI16, "nzi16", int_vals!(i16), eq_nonzeroi16, cmp_nonzeroi16, eq_option_nonzeroi16, cmp_option_nonzeroi16);
    nonzero_family!(out, NonZeroI32, "nzi32", int_vals!(i32), eq_nonzeroi32, cmp_nonzeroi32, eq_option_nonzeroi32, cmp_option_nonzeroi32);
    nonzero_family!(out, NonZeroI64, "nzi64", int_vals!(i64), eq_nonzeroi64, cmp_nonzeroi64, eq_option_nonzeroi64, cmp_option_nonzeroi64);
    nonzero_family!(out, NonZeroI128, "nzi128", int_vals!(i128), eq_nonzeroi128, cmp_nonzeroi128, eq_option_nonzeroi128, cmp_option_nonzeroi128);
    nonzero_family!(out, NonZeroIsize, "nzisize", int_vals!(isize), eq_nonzeroisize, cmp_nonzeroisize, eq_option_nonzeroisize, cmp_option_nonzeroisize);

    range_family!(out, u8, "u8", dec!(u8), vec![0, 1, 127, 128, 255], eq_range_u8, eq_rangeinc_u8);
    range_family!(out, u16, "u16", dec!(u16), vec![0, 1, u16::MAX], eq_range_u16, eq_rangeinc_u16);
    range_family!(out, u32, "u32", dec!(u32), vec![0, 1, u32::MAX], eq_range_u32, eq_rangeinc_u32);
    range_family!(out, u64, "u64", dec!(u64), vec![0, 1, u64::MAX], eq_range_u64, eq_rangeinc_u64);
    range_family!(out, u128, "u128", dec!(u128), vec![0, 1, u128::MAX], eq_range_u128, eq_rangeinc_u128);
    range_family!(out, usize, "usize", dec!(usize), vec![0, 1, usize::MAX], eq_range_usize, eq_rangeinc_usize);
    range_family!(out, char, "char", |x: char| (x as u32).to_string(), vec!['\0', 'a', '\u{D7FF}', '\u{E000}', '\u{10FFFF}'], eq_range_char, eq_rangeinc_char);

    user_type_family(out, tier);
    array_family(out);
    ordering_family(out);
    str_family(out, tier, rng);
    slice_str_family(out, tier, rng);
    slice_bytes_family(out, tier, rng);
}
