//! C04: pattern search (find / rfind / contains / *_skip / *_keep / split_once / rsplit_once)
//! on byte slices (`b.`) and strs (`st.`), all four pattern kinds through the public generic
//! functions, vs std (`str::find` …) and a naive windowed search for byte slices.
use crate::util::*;
use konst::slice as ks;
use konst::string as kst;

/// the four `BytesPattern` kinds (`str`, `char`, `[u8]`, `[u8; N]`)
#[derive(Clone, Copy, PartialEq, Eq, Debug)]
pub enum Kind {
    Str,
    Char,
    Bytes,
    Arr,
}

impl Kind {
    pub fn name(self) -> &'static str {
        match self {
            Kind::Str => "str",
            Kind::Char => "char",
            Kind::Bytes => "bytes",
            Kind::Arr => "arr",
        }
    }
}

pub const MAX_ARR: usize = 8;

/// if the needle's bytes are exactly one UTF-8 encoded char, that char
pub fn as_char(n: &[u8]) -> Option<char> {
    let s = std::str::from_utf8(n).ok()?;
    let mut it = s.chars();
    let c = it.next()?;
    if it.next().is_some() {
        return None;
    }
    // the request carries the bytes std's encode_utf8 produces for the char
    let mut buf = [0u8; 4];
    assert_eq!(c.encode_utf8(&mut buf).as_bytes(), n);
    Some(c)
}

/// the kinds through which a needle with these bytes can be passed
pub fn kinds_for(n: &[u8]) -> Vec<Kind> {
    let mut v = vec![Kind::Bytes];
    if n.len() <= MAX_ARR {
        v.push(Kind::Arr);
    }
    if std::str::from_utf8(n).is_ok() {
        v.push(Kind::Str);
    }
    if as_char(n).is_some() {
        v.push(Kind::Char);
    }
    v
}

/// array patterns of the large random streams go up to this length
pub const MAX_ARR_BIG: usize = 24;

/// `kinds_for` with array patterns up to `MAX_ARR_BIG` bytes (the large random streams)
pub fn kinds_for_big(n: &[u8]) -> Vec<Kind> {
    let mut v = kinds_for(n);
    if n.len() > MAX_ARR && n.len() <= MAX_ARR_BIG {
        v.push(Kind::Arr);
    }
    v
}

/// call a generic `konst::slice::bytes_*` function with the needle passed as a real value of the
/// requested pattern kind: `with_bpat!(kind, needle, |p| ks::bytes_find(h, p))`
macro_rules! with_bpat {
    ($kind:expr, $n:expr, |$p:ident| $body:expr) => {{
        let n__: &[u8] = $n;
        match $kind {
            Kind::Str => {
                let $p: &str = std::str::from_utf8(n__).unwrap();
                $body
            }
            Kind::Char => {
                let c__: char = crate::c04::as_char(n__).unwrap();
                let $p: &char = &c__;
                $body
            }
            Kind::Bytes => {
                let $p: &[u8] = n__;
                $body
            }
            Kind::Arr => match n__.len() {
                0 => { let a__: [u8; 0] = n__.try_into().unwrap(); let $p = &a__; $body }
                1 => { let a__: [u8; 1] = n__.try_into().unwrap(); let $p = &a__; $body }
                2 => { let a__: [u8; 2] = n__.try_into().unwrap(); let $p = &a__; $body }
                3 => { let a__: [u8; 3] = n__.try_into().unwrap(); let $p = &a__; $body }
                4 => { let a__: [u8; 4] = n__.try_into().unwrap(); let $p = &a__; $body }
                5 => { let a__: [u8; 5] = n__.try_into().unwrap(); let $p = &a__; $body }
                6 => { let a__: [u8; 6] = n__.try_into().unwrap(); let $p = &a__; $body }
                7 => { let a__: [u8; 7] = n__.try_into().unwrap(); let $p = &a__; $body }
                8 => { let a__: [u8; 8] = n__.try_into().unwrap(); let $p = &a__; $body }
                9 => { let a__: [u8; 9] = n__.try_into().unwrap(); let $p = &a__; $body }
                10 => { let a__: [u8; 10] = n__.try_into().unwrap(); let $p = &a__; $body }
                11 => { let a__: [u8; 11] = n__.try_into().unwrap(); let $p = &a__; $body }
                12 => { let a__: [u8; 12] = n__.try_into().unwrap(); let $p = &a__; $body }
                13 => { let a__: [u8; 13] = n__.try_into().unwrap(); let $p = &a__; $body }
                14 => { let a__: [u8; 14] = n__.try_into().unwrap(); let $p = &a__; $body }
                15 => { let a__: [u8; 15] = n__.try_into().unwrap(); let $p = &a__; $body }
                16 => { let a__: [u8; 16] = n__.try_into().unwrap(); let $p = &a__; $body }
                17 => { let a__: [u8; 17] = n__.try_into().unwrap(); let $p = &a__; $body }
                18 => { let a__: [u8; 18] = n__.try_into().unwrap(); let $p = &a__; $body }
                19 => { let a__: [u8; 19] = n__.try_into().unwrap(); let $p = &a__; $body }
                20 => { let a__: [u8; 20] = n__.try_into().unwrap(); let $p = &a__; $body }
                21 => { let a__: [u8; 21] = n__.try_into().unwrap(); let $p = &a__; $body }
                22 => { let a__: [u8; 22] = n__.try_into().unwrap(); let $p = &a__; $body }
                23 => { let a__: [u8; 23] = n__.try_into().unwrap(); let $p = &a__; $body }
                24 => { let a__: [u8; 24] = n__.try_into().unwrap(); let $p = &a__; $body }
                _ => unreachable!(),
            },
        }
    }};
}
pub(crate) use with_bpat;

/// same for the `konst::string` functions (`Pattern` kinds: `&str`, `char`, by value)
macro_rules! with_spat {
    ($kind:expr, $n:expr, |$p:ident| $body:expr) => {{
        let n__: &[u8] = $n;
        match $kind {
            Kind::Str => {
                let $p: &str = std::str::from_utf8(n__).unwrap();
                $body
            }
            Kind::Char => {
                let $p: char = crate::c04::as_char(n__).unwrap();
                $body
            }
            _ => unreachable!(),
        }
    }};
}
pub(crate) use with_spat;

// ---- naive oracles for byte slices -----------------------------------------------------------

pub fn naive_find(h: &[u8], n: &[u8]) -> Option<usize> {
    if n.len() > h.len() {
        return None;
    }
    (0..=h.len() - n.len()).find(|&i| &h[i..i + n.len()] == n)
}

pub fn naive_rfind(h: &[u8], n: &[u8]) -> Option<usize> {
    if n.len() > h.len() {
        return None;
    }
    (0..=h.len() - n.len()).rev().find(|&i| &h[i..i + n.len()] == n)
}

fn split_str(h: &str, r: Option<(&str, &str)>) -> String {
    match r {
        None => "none".into(),
        Some((a, b)) => format!("{}|{}", view_str(h, a), view_str(h, b)),
    }
}

/// all C04 byte-slice requests for one (haystack, needle, kind)
fn bytes_case(h: &[u8], n: &[u8], kind: Kind, out: &mut Out) {
    let k = kind.name();
    let (hh, nh) = (hex(h), hex(n));
    let fwd = naive_find(h, n);
    let rev = naive_rfind(h, n);
    // the property does not constrain a reverse search for an empty pattern
    let rscope = !n.is_empty();
    let req = |f: &str| format!("b.{} {} {} {}", f, k, hh, nh);

    let imp = catch(|| opt_usize(with_bpat!(kind, n, |p| ks::bytes_find(h, p))));
    out.emit(&req("find"), &imp, &opt_usize(fwd), true);
    let imp = catch(|| opt_usize(with_bpat!(kind, n, |p| ks::bytes_rfind(h, p))));
    out.emit(&req("rfind"), &imp, &opt_usize(rev), rscope);
    let imp = catch(|| b(with_bpat!(kind, n, |p| ks::bytes_contain(h, p))).to_string());
    out.emit(&req("contains"), &imp, b(fwd.is_some()), true);
    let imp = catch(|| b(with_bpat!(kind, n, |p| ks::bytes_rcontain(h, p))).to_string());
    out.emit(&req("rcontains"), &imp, b(rev.is_some()), rscope);
    let imp = catch(|| opt_view(h, with_bpat!(kind, n, |p| ks::bytes_find_skip(h, p))));
    out.emit(&req("find_skip"), &imp, &opt_view(h, fwd.map(|i| &h[i + n.len()..])), true);
    let imp = catch(|| opt_view(h, with_bpat!(kind, n, |p| ks::bytes_find_keep(h, p))));
    out.emit(&req("find_keep"), &imp, &opt_view(h, fwd.map(|i| &h[i..])), true);
    let imp = catch(|| opt_view(h, with_bpat!(kind, n, |p| ks::bytes_rfind_skip(h, p))));
    out.emit(&req("rfind_skip"), &imp, &opt_view(h, rev.map(|i| &h[..i])), rscope);
    let imp = catch(|| opt_view(h, with_bpat!(kind, n, |p| ks::bytes_rfind_keep(h, p))));
    out.emit(&req("rfind_keep"), &imp, &opt_view(h, rev.map(|i| &h[..i + n.len()])), rscope);
}

/// all C04 str requests for one (haystack, needle, kind ∈ {str, char}); oracle = std's str methods
fn str_case(h: &str, n: &[u8], kind: Kind, out: &mut Out) {
    let k = kind.name();
    let (hh, nh) = (hex(h.as_bytes()), hex(n));
    let rscope = !n.is_empty();
    let req = |f: &str| format!("st.{} {} {} {}", f, k, hh, nh);
    let ns = std::str::from_utf8(n).unwrap();
    // std oracle with the same kind of pattern
    let (fwd, rev) = match kind {
        Kind::Char => {
            let c = as_char(n).unwrap();
            (h.find(c), h.rfind(c))
        }
        _ => (h.find(ns), h.rfind(ns)),
    };
    let (so, rso) = match kind {
        Kind::Char => {
            let c = as_char(n).unwrap();
            (h.split_once(c), h.rsplit_once(c))
        }
        _ => (h.split_once(ns), h.rsplit_once(ns)),
    };
    let cont = match kind {
        Kind::Char => h.contains(as_char(n).unwrap()),
        _ => h.contains(ns),
    };

    let imp = catch(|| opt_usize(with_spat!(kind, n, |p| kst::find(h, p))));
    out.emit(&req("find"), &imp, &opt_usize(fwd), true);
    let imp = catch(|| opt_usize(with_spat!(kind, n, |p| kst::rfind(h, p))));
    out.emit(&req("rfind"), &imp, &opt_usize(rev), rscope);
    let imp = catch(|| b(with_spat!(kind, n, |p| kst::contains(h, p))).to_string());
    out.emit(&req("contains"), &imp, b(cont), true);
    let imp = catch(|| b(with_spat!(kind, n, |p| kst::rcontains(h, p))).to_string());
    out.emit(&req("rcontains"), &imp, b(rev.is_some()), rscope);
    let imp = catch(|| opt_view_str(h, with_spat!(kind, n, |p| kst::find_skip(h, p))));
    out.emit(&req("find_skip"), &imp, &opt_view_str(h, fwd.map(|i| &h[i + n.len()..])), true);
    let imp = catch(|| opt_view_str(h, with_spat!(kind, n, |p| kst::find_keep(h, p))));
    out.emit(&req("find_keep"), &imp, &opt_view_str(h, fwd.map(|i| &h[i..])), true);
    let imp = catch(|| opt_view_str(h, with_spat!(kind, n, |p| kst::rfind_skip(h, p))));
    out.emit(&req("rfind_skip"), &imp, &opt_view_str(h, rev.map(|i| &h[..i])), rscope);
    let imp = catch(|| opt_view_str(h, with_spat!(kind, n, |p| kst::rfind_keep(h, p))));
    out.emit(&req("rfind_keep"), &imp, &opt_view_str(h, rev.map(|i| &h[..i + n.len()])), rscope);
    let imp = catch(|| split_str(h, with_spat!(kind, n, |p| kst::split_once(h, p))));
    out.emit(&req("split_once"), &imp, &split_str(h, so), true);
    let imp = catch(|| split_str(h, with_spat!(kind, n, |p| kst::rsplit_once(h, p))));
    out.emit(&req("rsplit_once"), &imp, &split_str(h, rso), rscope);
}

fn str_kinds(n: &[u8]) -> Vec<Kind> {
    let mut v = vec![Kind::Str];
    if as_char(n).is_some() {
        v.push(Kind::Char);
    }
    v
}

/// random haystack over a small alphabet with a needle that is (usually) planted
pub fn random_case(rng: &mut Rng, alphabet: &[&[u8]], max_hay: usize, max_needle: usize) -> (Vec<u8>, Vec<u8>) {
    let hl = 1 + rng.below(max_hay as u64) as usize;
    let mut letters: Vec<&[u8]> = Vec::new();
    for _ in 0..hl {
        letters.push(alphabet[rng.below(alphabet.len() as u64) as usize]);
    }
    let nl = 1 + rng.below(max_needle as u64) as usize;
    let needle_letters: Vec<&[u8]> = match rng.below(4) {
        // a window of the haystack (occurs; often more than once over a 2-letter alphabet)
        0 | 1 => {
            let nl = nl.min(hl);
            let st = rng.below((hl - nl + 1) as u64) as usize;
            letters[st..st + nl].to_vec()
        }
        // a window with its last letter changed (a near miss: long partial matches)
        2 => {
            let nl = nl.min(hl);
            let st = rng.below((hl - nl + 1) as u64) as usize;
            let mut w = letters[st..st + nl].to_vec();
            let last = w.len() - 1;
            w[last] = alphabet[rng.below(alphabet.len() as u64) as usize];
            w
        }
        _ => (0..nl).map(|_| alphabet[rng.below(alphabet.len() as u64) as usize]).collect(),
    };
    (letters.concat(), needle_letters.concat())
}

/// letter alphabets of the large streams; `raw` ones are not UTF-8 (byte-slice functions only)
#[derive(Clone, Copy, PartialEq, Eq, Debug)]
pub enum Alpha {
    /// {a, b}
    Two,
    /// {a, b, c, d}
    Four,
    /// all 256 byte values
    Raw256,
    /// {a, ñ, €, 😀}: one letter of each encoded length
    Utf4,
    /// any scalar value (`util::rand_char`)
    AnyChar,
}

impl Alpha {
    pub fn letter(self, rng: &mut Rng) -> Vec<u8> {
        match self {
            Alpha::Two => vec![b'a' + rng.below(2) as u8],
            Alpha::Four => vec![b'a' + rng.below(4) as u8],
            Alpha::Raw256 => vec![rng.below(256) as u8],
            Alpha::Utf4 => ["a", "ñ", "€", "😀"][rng.below(4) as usize].as_bytes().to_vec(),
            Alpha::AnyChar => rand_char(rng).to_string().into_bytes(),
        }
    }
    pub fn is_utf8(self) -> bool {
        self != Alpha::Raw256
    }
}

/// LARGE structured case: a haystack of 20..=200 letters and a needle of 5..=24 letters that is random
/// or has a long period ("abababac", "aaaaaab", "abcabcabc"), planted 0..=3 times (at the very start,
/// at the very end, anywhere, overlapping its previous copy by a multiple of the period) into a filler
/// that is random or made of the needle's period (long partial matches everywhere); sometimes the
/// needle is longer than the haystack.  Returns (haystack, needle) as bytes.
pub fn large_case(rng: &mut Rng, alpha: Alpha) -> (Vec<u8>, Vec<u8>) {
    let nl = 5 + rng.below(20) as usize;
    let period = 1 + rng.below(3) as usize;
    let unit: Vec<Vec<u8>> = (0..period).map(|_| alpha.letter(rng)).collect();
    let shape = rng.below(4);
    let mut needle: Vec<Vec<u8>> = match shape {
        0 => (0..nl).map(|_| alpha.letter(rng)).collect(),
        _ => (0..nl).map(|i| unit[i % period].clone()).collect(),
    };
    if shape == 1 || shape == 2 {
        // periodic with a different last letter (shape 2: also a different first one)
        needle[nl - 1] = alpha.letter(rng);
        if shape == 2 && rng.below(2) == 0 {
            needle[0] = alpha.letter(rng);
        }
    }
    let mut hl = 20 + rng.below(181) as usize;
    let longer = rng.below(14) == 0;
    if longer {
        hl = 1 + rng.below(nl as u64 - 1) as usize; // needle longer than the haystack
    } else if hl < nl + 2 {
        hl = nl + rng.below(3) as usize; // exactly as long as the needle, or barely longer
    }
    let periodic_filler = shape != 0 && rng.below(2) == 0;
    let phase = rng.below(period as u64) as usize;
    let mut hay: Vec<Vec<u8>> =
        (0..hl).map(|i| if periodic_filler { unit[(i + phase) % period].clone() } else { alpha.letter(rng) }).collect();
    if longer {
        if rng.below(2) == 0 {
            // the haystack is a prefix / suffix of the needle
            let st = if rng.below(2) == 0 { 0 } else { nl - hl };
            hay = needle[st..st + hl].to_vec();
        }
    } else {
        let plants = rng.below(4);
        let mut prev: Option<usize> = None;
        for _ in 0..plants {
            let shift = period * (1 + rng.below(3) as usize);
            let pos = match (rng.below(5), prev) {
                (0, _) => 0,
                (1, _) => hl - nl,
                (2, Some(p)) if p + shift + nl <= hl => p + shift,
                _ => rng.below((hl - nl + 1) as u64) as usize,
            };
            hay[pos..pos + nl].clone_from_slice(&needle);
            prev = Some(pos);
        }
        if rng.below(6) == 0 {
            // a near miss at the very end / start: the needle without its last / first letter
            if rng.below(2) == 0 {
                hay[hl - (nl - 1)..].clone_from_slice(&needle[..nl - 1]);
            } else {
                hay[..nl - 1].clone_from_slice(&needle[1..]);
            }
        }
    }
    (hay.concat(), needle.concat())
}

/// LARGE case with a one-character needle (the `char` pattern kind): a long string of random
/// characters with the needle character planted 0..=3 times (start / end / anywhere)
pub fn large_char_case(rng: &mut Rng) -> (Vec<u8>, Vec<u8>) {
    let alpha = if rng.below(2) == 0 { Alpha::Utf4 } else { Alpha::AnyChar };
    let plants = rng.below(4);
    // an absent needle: a character the small alphabet does not have
    let c = if plants == 0 { Alpha::AnyChar.letter(rng) } else { alpha.letter(rng) };
    let hl = 20 + rng.below(101) as usize;
    let mut hay: Vec<Vec<u8>> = (0..hl).map(|_| alpha.letter(rng)).collect();
    for _ in 0..plants {
        let pos = match rng.below(4) {
            0 => 0,
            1 => hl - 1,
            _ => rng.below(hl as u64) as usize,
        };
        hay[pos] = c.clone();
    }
    (hay.concat(), c)
}

fn run_large(thorough: bool, seed: u64, out: &mut Out) {
    let mut rng = Rng(seed ^ 0xC04_1A26E);
    let cases = if thorough { 2400 } else { 240 };
    for i in 0..cases {
        let alpha = [Alpha::Two, Alpha::Four, Alpha::Raw256, Alpha::Utf4, Alpha::AnyChar, Alpha::Two][i % 6];
        if i % 8 == 7 {
            let (h, n) = large_char_case(&mut rng);
            bytes_case(&h, &n, if i % 16 == 7 { Kind::Char } else { Kind::Arr }, out);
            str_case(std::str::from_utf8(&h).unwrap(), &n, if i % 32 == 31 { Kind::Str } else { Kind::Char }, out);
            continue;
        }
        let (h, n) = large_case(&mut rng, alpha);
        let kinds = kinds_for_big(&n);
        bytes_case(&h, &n, kinds[(i / 6) % kinds.len()], out);
        if let (Ok(hs), true) = (std::str::from_utf8(&h), std::str::from_utf8(&n).is_ok()) {
            let sk = str_kinds(&n);
            str_case(hs, &n, sk[(i / 6) % sk.len()], out);
        }
    }
}

pub fn run(tier: &str, seed: u64, out: &mut Out) {
    let thorough = tier == "thorough";
    let (max_h, max_n) = if thorough { (11, 5) } else { (8, 4) };

    // 0. the inputs on which the pre-116b24e matcher failed, first (replay of a revert)
    for (h, n) in [("aaab", "aab"), ("aaabaab", "aab"), ("abbb", "abb"), ("ababac", "abac"), ("aabaabaaab", "aabaaab")] {
        for kind in kinds_for(n.as_bytes()) {
            bytes_case(h.as_bytes(), n.as_bytes(), kind, out);
        }
        for kind in str_kinds(n.as_bytes()) {
            str_case(h, n.as_bytes(), kind, out);
        }
    }

    // 1. exhaustive: all haystacks over {a,b} up to max_h x all needles over {a,b} up to max_n
    //    (incl. empty and longer-than-haystack); every kind the needle can be passed as
    let hays = all_words(&[b"a", b"b"], max_h);
    let needles = all_words(&[b"a", b"b"], max_n);
    let mut rot = 0usize;
    for h in &hays {
        let hs = std::str::from_utf8(h).unwrap();
        for n in &needles {
            let kinds = kinds_for(n);
            if h.len() <= 8 {
                for &kind in &kinds {
                    bytes_case(h, n, kind, out);
                }
                for kind in str_kinds(n) {
                    str_case(hs, n, kind, out);
                }
            } else {
                // thorough-only sizes: one kind per pair, rotating
                rot += 1;
                bytes_case(h, n, kinds[rot % kinds.len()], out);
                let sk = str_kinds(n);
                str_case(hs, n, sk[rot % sk.len()], out);
            }
        }
    }

    // 2. exhaustive: all strs over {a, ñ} up to 5 (6) chars x str needles over {a, ñ} up to 3 chars
    //    (char kind whenever the needle is one char), also through the byte-slice functions
    let enye = "ñ".as_bytes();
    let max_c = if thorough { 6 } else { 5 };
    let hays2 = all_words(&[b"a", enye], max_c);
    let needles2 = all_words(&[b"a", enye], 3);
    // byte needles that cut characters apart (byte-slice functions only)
    let needles2b = all_words(&[b"a", &enye[0..1], &enye[1..2]], 3);
    for h in &hays2 {
        let hs = std::str::from_utf8(h).unwrap();
        for n in &needles2 {
            for kind in str_kinds(n) {
                str_case(hs, n, kind, out);
            }
            for kind in kinds_for(n) {
                bytes_case(h, n, kind, out);
            }
        }
        for n in &needles2b {
            if std::str::from_utf8(n).is_ok() {
                continue; // already covered above
            }
            for kind in kinds_for(n) {
                bytes_case(h, n, kind, out);
            }
        }
    }
    // 3- and 4-byte characters as char / str needles
    for h in ["€", "a€", "€a", "😀", "a😀b", "€😀€", "😀😀", "ñ€😀", "€ñ", "\u{7ff}\u{800}", "\u{ffff}\u{10000}", "\u{10ffff}a"] {
        for n in ["€", "😀", "ñ", "a", "€😀", "\u{7ff}", "\u{800}", "\u{ffff}", "\u{10000}", "\u{10ffff}", "\u{80}"] {
            for kind in str_kinds(n.as_bytes()) {
                str_case(h, n.as_bytes(), kind, out);
            }
            for kind in kinds_for(n.as_bytes()) {
                bytes_case(h.as_bytes(), n.as_bytes(), kind, out);
            }
        }
    }

    // 3. seeded random: long haystacks with planted needles / near misses
    let mut rng = Rng(seed ^ 0xC04);
    let cases = if thorough { 20000 } else { 3000 };
    for i in 0..cases {
        let (h, n) = match i % 3 {
            0 => random_case(&mut rng, &[b"a", b"b"], 120, 9),
            1 => random_case(&mut rng, &[b"a", b"b", b"c"], 200, 12),
            _ => random_case(&mut rng, &[b"a", enye, "€".as_bytes()], 60, 6),
        };
        let kinds = kinds_for(&n);
        bytes_case(&h, &n, kinds[i % kinds.len()], out);
        let hs = std::str::from_utf8(&h).unwrap();
        let sk = str_kinds(&n);
        str_case(hs, &n, sk[i % sk.len()], out);
    }
    run_large(thorough, seed, out);
}
