//! C20 (CStr half): konst::ffi::cstr vs core::ffi::CStr.
//!   cstr.until_nul <hex> | cstr.with_nul <hex> | cstr.with_nul_kind <hex> | cstr.with_nul_kind_m <hex>
//!   cstr.to_bytes_with_nul <hex> | cstr.to_bytes <hex> | cstr.to_str <hex>
//! For the conversions the CStr is made with std's `from_bytes_until_nul` from the given memory
//! (requests are only emitted when that succeeds). Results are `<off>:<hex>` relative to the input
//! (`_:-` for an empty slice, whose address is not observable).
use crate::util::{self, Out, Rng};
use core::ffi::CStr;
use konst::ffi::cstr;
use std::collections::HashSet;

fn sub(base: &[u8], s: &[u8]) -> String {
    if s.is_empty() {
        return "_:-".to_string();
    }
    let b = base.as_ptr() as usize;
    let p = s.as_ptr() as usize;
    if p < b || p - b + s.len() > base.len() {
        return format!("OUTSIDE:{}", util::hex(s));
    }
    format!("{}:{}", p - b, util::hex(s))
}

fn cstr_tok(base: &[u8], c: &CStr) -> String {
    // observed with std's accessor (length is part of the &CStr)
    format!("ok:{}", sub(base, c.to_bytes_with_nul()))
}

/// konst's error type has no accessor: the kind is read off the derived `Debug` rendering
/// (`FromBytesWithNulError { kind: InternalNul(3) }` / `{ kind: NotNulTerminated }`)
fn konst_kind(e: &cstr::FromBytesWithNulError) -> String {
    let d = format!("{:?}", e);
    if d.contains("NotNulTerminated") {
        return "nnt".to_string();
    }
    if let Some(i) = d.find("InternalNul(") {
        let rest = &d[i + "InternalNul(".len()..];
        let num: String = rest.chars().take_while(|c| c.is_ascii_digit()).collect();
        return format!("interior:{}", num);
    }
    format!("unknown:{}", d.replace(|c: char| c.is_whitespace(), "_"))
}

fn std_kind(e: &core::ffi::FromBytesWithNulError) -> String {
    match e {
        core::ffi::FromBytesWithNulError::InteriorNul { position } => format!("interior:{}", position),
        core::ffi::FromBytesWithNulError::NotNulTerminated => "nnt".to_string(),
    }
}

fn one(bytes: &[u8], out: &mut Out) {
    let h = util::hex(bytes);
    // constructors
    {
        let b = bytes.to_vec();
        let imp = util::catch(move || match cstr::from_bytes_until_nul(&b) {
            Ok(c) => cstr_tok(&b, c),
            Err(_) => "err".to_string(),
        });
        let ora = match CStr::from_bytes_until_nul(bytes) {
            Ok(c) => cstr_tok(bytes, c),
            Err(_) => "err".to_string(),
        };
        out.emit(&format!("cstr.until_nul {}", h), &imp, &ora, true);
    }
    {
        let b = bytes.to_vec();
        let imp = util::catch(move || match cstr::from_bytes_with_nul(&b) {
            Ok(c) => cstr_tok(&b, c),
            Err(_) => "err".to_string(),
        });
        let ora = match CStr::from_bytes_with_nul(bytes) {
            Ok(c) => cstr_tok(bytes, c),
            Err(_) => "err".to_string(),
        };
        out.emit(&format!("cstr.with_nul {}", h), &imp, &ora, true);
    }
    {
        // the error kind is not constrained by C20 (which speaks of success and of the returned
        // CStr): reported as drift only
        let b = bytes.to_vec();
        let imp = util::catch(move || match cstr::from_bytes_with_nul(&b) {
            Ok(_) => "ok".to_string(),
            Err(e) => {
                let k = konst_kind(&e);
                // `copy()` must preserve the kind
                if e.copy() != e {
                    return format!("copy-differs:{}", k);
                }
                k
            }
        });
        let ora = match CStr::from_bytes_with_nul(bytes) {
            Ok(_) => "ok".to_string(),
            Err(e) => std_kind(&e),
        };
        out.emit(&format!("cstr.with_nul_kind {}", h), &imp, &ora, false);
        // the same observation against the model alone (no std column): a change of the kind logic
        // is a broken correspondence even though C20 does not constrain the kind
        out.emit(&format!("cstr.with_nul_kind_m {}", h), &imp, "?", true);
    }
    // conversions, on the CStr std makes from this memory
    if CStr::from_bytes_until_nul(bytes).is_ok() {
        {
            let b = bytes.to_vec();
            let imp = util::catch(move || {
                let c = CStr::from_bytes_until_nul(&b).unwrap();
                sub(&b, cstr::to_bytes_with_nul(c))
            });
            let c = CStr::from_bytes_until_nul(bytes).unwrap();
            out.emit(&format!("cstr.to_bytes_with_nul {}", h), &imp, &sub(bytes, c.to_bytes_with_nul()), true);
        }
        {
            let b = bytes.to_vec();
            let imp = util::catch(move || {
                let c = CStr::from_bytes_until_nul(&b).unwrap();
                sub(&b, cstr::to_bytes(c))
            });
            let c = CStr::from_bytes_until_nul(bytes).unwrap();
            out.emit(&format!("cstr.to_bytes {}", h), &imp, &sub(bytes, c.to_bytes()), true);
        }
        {
            let b = bytes.to_vec();
            let imp = util::catch(move || {
                let c = CStr::from_bytes_until_nul(&b).unwrap();
                match cstr::to_str(c) {
                    Ok(s) => format!("ok:{}", sub(&b, s.as_bytes())),
                    Err(e) => format!("err:{}", e.0.valid_up_to()),
                }
            });
            let c = CStr::from_bytes_until_nul(bytes).unwrap();
            let ora = match c.to_str() {
                Ok(s) => format!("ok:{}", sub(bytes, s.as_bytes())),
                Err(e) => format!("err:{}", e.valid_up_to()),
            };
            out.emit(&format!("cstr.to_str {}", h), &imp, &ora, true);
        }
    }
}

pub fn run(tier: &str, seed: u64, out: &mut Out) {
    let thorough = tier == "thorough";
    let mut seen: HashSet<Vec<u8>> = HashSet::new();
    let mut go = |w: Vec<u8>, out: &mut Out| {
        if seen.insert(w.clone()) {
            one(&w, out);
        }
    };
    // 1. complete: every byte string over {0x00, 'a', 0xFF} up to length 7 (11 thorough)
    let a1: [&[u8]; 3] = [&[0x00], &[0x61], &[0xFF]];
    for w in util::all_words(&a1, if thorough { 11 } else { 7 }) {
        go(w, out);
    }
    // 2. complete over letters that are whole / broken UTF-8 characters (for to_str):
    //    nul, 'a', ñ, €, 😀, a lone lead byte, a lone continuation byte, an overlong/surrogate start
    let a2: [&[u8]; 9] = [
        &[0x00],
        &[0x61],
        &[0xC3, 0xB1],
        &[0xE2, 0x82, 0xAC],
        &[0xF0, 0x9F, 0x98, 0x80],
        &[0xC3],
        &[0xB1],
        &[0xED, 0xA0, 0x80],
        &[0xC0, 0x80],
    ];
    for w in util::all_words(&a2, if thorough { 5 } else { 4 }) {
        go(w, out);
    }
    // 3. seeded random: longer strings, arbitrary bytes, sparse nuls
    let mut rng = Rng(seed ^ 0xC20);
    let n = if thorough { 20000 } else { 3000 };
    for _ in 0..n {
        let len = rng.below(40) as usize;
        let mut w = Vec::with_capacity(len);
        let nul_rate = 2 + rng.below(20);
        for _ in 0..len {
            let r = rng.below(100);
            let b = if r < nul_rate {
                0
            } else if r < 60 {
                0x20 + rng.below(0x5f) as u8
            } else {
                rng.below(256) as u8
            };
            w.push(b);
        }
        go(w, out);
    }
}
