//! C11: array::map!/from_fn!/map_!/from_fn_! on well-behaved closures (lengths 0..=4, Copy and
//! drop-logging elements) against `<[T;N]>::map` / `core::array::from_fn`, and all ArrayBuilder
//! histories (push / clone / `clone_from` between two builders / build / drop incl. over- and
//! under-filling) against a `Vec` with a capacity check.  Early-exit closures and collect_const! are generated programs (vlib/progs/c11.py).
use crate::util::elog::{self, E};
use crate::util::*;
use konst::array::ArrayBuilder;
use std::panic::{catch_unwind, AssertUnwindSafe};

macro_rules! with_n {
    ($n:expr, $f:ident $(, $args:expr)*) => {
        match $n {
            0 => $f::<0>($($args),*),
            1 => $f::<1>($($args),*),
            2 => $f::<2>($($args),*),
            3 => $f::<3>($($args),*),
            4 => $f::<4>($($args),*),
            5 => $f::<5>($($args),*),
            6 => $f::<6>($($args),*),
            _ => unreachable!(),
        }
    };
}
pub(crate) use with_n;

fn nums(v: &[u64]) -> String {
    format!("[{}]", v.iter().map(|x| x.to_string()).collect::<Vec<_>>().join(";"))
}

fn input_copy<const N: usize>() -> [u64; N] {
    core::array::from_fn(|i| 10 + i as u64)
}
fn input_log<const N: usize>() -> [E; N] {
    core::array::from_fn(|i| elog::with_val(10 + i as u32))
}

fn macros_value<const N: usize>(out: &mut Out) {
    // Copy elements
    let imp = catch(|| nums(&konst::array::map!(input_copy::<N>(), |x| 2 * x + 1)));
    let ora = catch(|| nums(&input_copy::<N>().map(|x| 2 * x + 1)));
    out.emit(&format!("arr.map fn copy {} none", N), &imp, &ora, true);
    let imp = catch(|| nums(&konst::array::map_!(input_copy::<N>(), |x| 2 * x + 1)));
    out.emit(&format!("arr.map_ fn copy {} none", N), &imp, &ora, true);
    // a function path instead of a closure
    fn dbl(x: u64) -> u64 {
        2 * x + 1
    }
    let imp = catch(|| nums(&konst::array::map!(input_copy::<N>(), dbl)));
    out.emit(&format!("arr.map fn copy {} none", N), &imp, &ora, true);
    let imp = catch(|| nums(&konst::array::map_!(input_copy::<N>(), dbl)));
    out.emit(&format!("arr.map_ fn copy {} none", N), &imp, &ora, true);
    let imp = catch(|| {
        let r: [u64; N] = konst::array::from_fn!(|i| 3 * i as u64 + 2);
        nums(&r)
    });
    let ora = catch(|| nums(&core::array::from_fn::<u64, N, _>(|i| 3 * i as u64 + 2)));
    out.emit(&format!("arr.from_fn fn copy {} none", N), &imp, &ora, true);
    let imp = catch(|| {
        let r: [u64; N] = konst::array::from_fn_!(|i| 3 * i as u64 + 2);
        nums(&r)
    });
    out.emit(&format!("arr.from_fn_ fn copy {} none", N), &imp, &ora, true);
    // non-Copy (drop-logging) elements; the values are the payloads
    let vals = |a: [E; N]| nums(&a.iter().map(|e| e.val as u64).collect::<Vec<_>>());
    elog::reset();
    let imp = catch(|| {
        let inp = input_log::<N>();
        nums(&konst::array::map!(inp, |ref e| 2 * e.val as u64 + 1))
    });
    let ora = catch(|| nums(&input_log::<N>().map(|e| 2 * e.val as u64 + 1)));
    out.emit(&format!("arr.map fn log {} none", N), &imp, &ora, true);
    let imp = catch(|| vals(konst::array::map_!(input_log::<N>(), |e: E| elog::with_val(2 * e.val + 1))));
    let ora = catch(|| vals(input_log::<N>().map(|e: E| elog::with_val(2 * e.val + 1))));
    out.emit(&format!("arr.map_ fn log {} none", N), &imp, &ora, true);
    let imp = catch(|| {
        let r: [E; N] = konst::array::from_fn!(|i| elog::with_val(3 * i as u32 + 2));
        vals(r)
    });
    let ora = catch(|| vals(core::array::from_fn::<E, N, _>(|i| elog::with_val(3 * i as u32 + 2))));
    out.emit(&format!("arr.from_fn fn log {} none", N), &imp, &ora, true);
    let imp = catch(|| {
        let r: [E; N] = konst::array::from_fn_!(|i| elog::with_val(3 * i as u32 + 2));
        vals(r)
    });
    out.emit(&format!("arr.from_fn_ fn log {} none", N), &imp, &ora, true);
    if elog::log() == "CORRUPT" {
        out.emit(&format!("arr.map_ fn log {} none", N), "CORRUPT", "ok", true);
    }
    // zero-sized outputs: `[z;…]`, with the number of live tokens appended if it is not the array length
    let zs = |a: [elog::Z; N]| {
        let live = elog::zlive();
        let s = format!("[{}]", vec!["z"; a.len()].join(";"));
        drop(a);
        if live == N as i64 && elog::zlive() == 0 { s } else { format!("{}|LIVE={}", s, live) }
    };
    elog::reset();
    let ora = catch(|| zs(input_copy::<N>().map(|_x| elog::znew())));
    elog::reset();
    let imp = catch(|| zs(konst::array::map!(input_copy::<N>(), |_x| elog::znew())));
    out.emit(&format!("arr.map fn zst {} none", N), &imp, &ora, true);
    elog::reset();
    let imp = catch(|| zs(konst::array::map_!(input_copy::<N>(), |_x| elog::znew())));
    out.emit(&format!("arr.map_ fn zst {} none", N), &imp, &ora, true);
    elog::reset();
    let ora = catch(|| zs(core::array::from_fn::<elog::Z, N, _>(|_i| elog::znew())));
    elog::reset();
    let imp = catch(|| {
        let r: [elog::Z; N] = konst::array::from_fn!(|_i| elog::znew());
        zs(r)
    });
    out.emit(&format!("arr.from_fn fn zst {} none", N), &imp, &ora, true);
    elog::reset();
    let imp = catch(|| {
        let r: [elog::Z; N] = konst::array::from_fn_!(|_i| elog::znew());
        zs(r)
    });
    out.emit(&format!("arr.from_fn_ fn zst {} none", N), &imp, &ora, true);
}

fn slice_ids(s: &[E]) -> String {
    elog::ids(&s.iter().map(elog::peek).collect::<Vec<_>>())
}

/// element kinds of the builder histories: the drop-logging `E` (identity = creation number) and the
/// zero-sized token `Z` (no identity: every observation is a COUNT)
pub trait Tok: Clone {
    fn mk() -> Self;
    fn slice(s: &[Self]) -> String;
    /// the caller receives the elements of a built array
    fn built(v: Vec<Self>) -> String;
    fn ledger() -> String;
}
impl Tok for E {
    fn mk() -> E {
        elog::new()
    }
    fn slice(s: &[E]) -> String {
        slice_ids(s)
    }
    fn built(v: Vec<E>) -> String {
        let ids: Vec<u32> = v.into_iter().map(elog::take).collect();
        elog::ids(&ids)
    }
    fn ledger() -> String {
        format!("L={}", elog::log())
    }
}
impl Tok for elog::Z {
    fn mk() -> elog::Z {
        elog::znew()
    }
    fn slice(s: &[elog::Z]) -> String {
        s.len().to_string()
    }
    fn built(v: Vec<elog::Z>) -> String {
        let n = v.len();
        v.into_iter().for_each(elog::ztake);
        format!("arr:{}", n)
    }
    fn ledger() -> String {
        elog::zcounts()
    }
}

/// one builder history on the real `ArrayBuilder<T, N>`
pub fn bld_hist<T: Tok, const N: usize>(ops: &[u8]) -> String {
    elog::reset();
    let mut cur: Option<ArrayBuilder<T, N>> = Some(ArrayBuilder::new());
    let mut steps: Vec<String> = Vec::new();
    let mut fin = String::new();
    for &op in ops {
        let mut ok = true;
        let mut src: Option<String> = None; // clone_from steps: the source's `as_slice` after the call
        match op {
            b'p' => {
                let e = T::mk();
                let b = cur.as_mut().unwrap();
                ok = catch_unwind(AssertUnwindSafe(|| b.push(e))).is_ok();
            }
            b'c' => {
                let old = cur.take().unwrap();
                let new = old.clone();
                drop(old);
                cur = Some(new);
            }
            b'k' => {
                let cl = cur.as_ref().unwrap().clone();
                drop(cl);
            }
            b'0'..=b'9' => {
                // the element's `Clone` panics on its j-th call inside `ArrayBuilder::clone`
                elog::arm_clone_panic((op - b'0') as u32);
                let b = cur.as_ref().unwrap();
                let r = catch_unwind(AssertUnwindSafe(|| b.clone()));
                elog::disarm_clone_panic();
                ok = r.is_ok();
                drop(r);
            }
            b'A'..=b'H' | b'S'..=b'Z' => {
                // a SECOND builder `t` of the same capacity gets m pushes (each caught), then
                // `Clone::clone_from` between the two: A.. = `cur.clone_from(&t)`, `t` dropped;
                // S.. = `t.clone_from(&cur)`, `cur` dropped, continue with `t`
                let into_cur = op <= b'H';
                let m = (if into_cur { op - b'A' } else { op - b'S' }) as usize;
                let mut t: ArrayBuilder<T, N> = ArrayBuilder::new();
                for _ in 0..m {
                    let e = T::mk();
                    let _ = catch_unwind(AssertUnwindSafe(|| t.push(e)));
                }
                let mut c = cur.take().unwrap();
                if into_cur {
                    ok = catch_unwind(AssertUnwindSafe(|| c.clone_from(&t))).is_ok();
                    src = Some(T::slice(t.as_slice()));
                    drop(t);
                    cur = Some(c);
                } else {
                    ok = catch_unwind(AssertUnwindSafe(|| t.clone_from(&c))).is_ok();
                    src = Some(T::slice(c.as_slice()));
                    drop(c);
                    cur = Some(t);
                }
            }
            b'b' => {
                let b = cur.take().unwrap();
                fin = match catch_unwind(AssertUnwindSafe(move || b.build())) {
                    Ok(arr) => format!("b={}", T::built(arr.into_iter().collect())),
                    Err(_) => "b=panic".to_string(),
                };
                break;
            }
            b'd' => {
                drop(cur.take());
                fin = "d".to_string();
                break;
            }
            _ => return "bad-op".to_string(),
        }
        let b = cur.as_mut().unwrap();
        let sl = T::slice(b.as_slice());
        let slm = T::slice(b.as_mut_slice());
        let sl = if sl == slm { sl } else { "MUTDIFF".to_string() };
        let sl = match src {
            Some(x) => format!("{},{}", sl, x),
            None => sl,
        };
        steps.push(format!("{}={},{},{},{}", op as char, if ok { "ok" } else { "panic" }, b.len(), crate::util::b(b.is_full()), sl));
    }
    drop(cur);
    format!("{}|{}|{}", if steps.is_empty() { "-".to_string() } else { steps.join(";") }, fin, T::ledger())
}

/// the same history on a `Vec<T>` with a capacity check (the reference)
pub fn bld_hist_ref<T: Tok>(n: usize, ops: &[u8]) -> String {
    elog::reset();
    let mut cur: Vec<T> = Vec::new();
    let mut steps: Vec<String> = Vec::new();
    let mut fin = String::new();
    for &op in ops {
        let mut ok = true;
        let mut src: Option<String> = None;
        match op {
            b'p' => {
                let e = T::mk();
                if cur.len() < n {
                    cur.push(e);
                } else {
                    ok = false;
                    drop(e);
                }
            }
            b'c' => {
                let new = cur.clone();
                cur = new; // the old vector is dropped here, front to back
            }
            b'k' => {
                drop(cur.clone());
            }
            b'0'..=b'9' => {
                elog::arm_clone_panic((op - b'0') as u32);
                let r = catch_unwind(AssertUnwindSafe(|| cur.clone()));
                elog::disarm_clone_panic();
                ok = r.is_ok();
                drop(r);
            }
            b'A'..=b'H' | b'S'..=b'Z' => {
                // `a.clone_from(&b)` is documented (`Clone::clone_from`) as equivalent to `a = b.clone()`:
                // the clone is made, then the old value of `a` is dropped
                let into_cur = op <= b'H';
                let m = (if into_cur { op - b'A' } else { op - b'S' }) as usize;
                let mut t: Vec<T> = Vec::new();
                for _ in 0..m {
                    let e = T::mk();
                    if t.len() < n {
                        t.push(e);
                    } else {
                        drop(e);
                    }
                }
                if into_cur {
                    cur = t.clone();
                    src = Some(T::slice(&t));
                    drop(t);
                } else {
                    t = cur.clone();
                    src = Some(T::slice(&cur));
                    cur = t; // the old `cur` is dropped here
                }
            }
            b'b' => {
                fin = if cur.len() == n {
                    format!("b={}", T::built(std::mem::take(&mut cur)))
                } else {
                    cur.clear();
                    "b=panic".to_string()
                };
                break;
            }
            b'd' => {
                cur.clear();
                fin = "d".to_string();
                break;
            }
            _ => return "bad-op".to_string(),
        }
        let sl = match src {
            Some(x) => format!("{},{}", T::slice(&cur), x),
            None => T::slice(&cur),
        };
        steps.push(format!("{}={},{},{},{}", op as char, if ok { "ok" } else { "panic" }, cur.len(), crate::util::b(cur.len() == n), sl));
    }
    drop(cur);
    format!("{}|{}|{}", if steps.is_empty() { "-".to_string() } else { steps.join(";") }, fin, T::ledger())
}

/// all words over `alpha` with at most `max` letters, each followed by every terminal
pub fn histories(alpha: &[u8], terms: &[u8], max: usize) -> Vec<Vec<u8>> {
    let mut out = Vec::new();
    let mut layer: Vec<Vec<u8>> = vec![vec![]];
    for d in 0..=max {
        for w in &layer {
            for t in terms {
                let mut x = w.clone();
                x.push(*t);
                out.push(x);
            }
        }
        if d == max {
            break;
        }
        let mut next = Vec::new();
        for w in &layer {
            for a in alpha {
                let mut x = w.clone();
                x.push(*a);
                next.push(x);
            }
        }
        layer = next;
    }
    out
}

fn bld_row<T: Tok>(n: usize, h: &[u8], zst: bool, out: &mut Out) {
    fn imp<T: Tok, const N: usize>(h: &[u8]) -> String {
        bld_hist::<T, N>(h)
    }
    let imp = match n {
        0 => imp::<T, 0>(h),
        1 => imp::<T, 1>(h),
        2 => imp::<T, 2>(h),
        3 => imp::<T, 3>(h),
        4 => imp::<T, 4>(h),
        6 => imp::<T, 6>(h),
        _ => unreachable!(),
    };
    let ora = bld_hist_ref::<T>(n, h);
    out.emit(&format!("bld.hist {} {}{}", n, String::from_utf8_lossy(h), if zst { " zst" } else { "" }), &imp, &ora, true);
}

pub fn run_builder(tier: &str, out: &mut Out) {
    let depth = if tier == "thorough" { 8 } else if tier == "small" { 4 } else { 6 };
    for n in 0..=4usize {
        for h in histories(b"pck", b"bd", depth - 1) {
            bld_row::<E>(n, &h, false, out);
        }
    }
    // long fill / overfill runs on a larger capacity
    for extra in 0..3usize {
        let mut h = vec![b'p'; 6 + extra];
        h.push(b'b');
        bld_row::<E>(6, &h, false, out);
    }
    // ZERO-SIZED elements (`size_of::<T>() == 0`, `size_of::<[T; N]>() == 0`): every history again, observed
    // as counts (created / dropped / moved tokens, lengths) — a fullness test phrased in bytes is vacuous here
    let zdepth = if tier == "thorough" { 6 } else if tier == "small" { 3 } else { 4 };
    for n in 0..=4usize {
        for h in histories(b"pck", b"bd", zdepth) {
            bld_row::<elog::Z>(n, &h, true, out);
        }
    }
    for h in [&b"pb"[..], b"ppppppb", b"pppppb", b"pppcppb", b"d", b"pppkd"] {
        bld_row::<elog::Z>(6, h, true, out);
    }
    // an element `Clone` that PANICS on its j-th call inside `ArrayBuilder::clone` (caught): the copies pushed
    // into the half-built clone are dropped by unwinding, the original is intact
    let pdepth = if tier == "thorough" { 5 } else if tier == "small" { 3 } else { 4 };
    for n in 0..=4usize {
        let mut alpha: Vec<u8> = b"pc".to_vec();
        for j in 0..=n.min(3) {
            alpha.push(b'0' + j as u8);
        }
        for h in histories(&alpha, b"bd", pdepth) {
            if !h.iter().any(|c| c.is_ascii_digit()) {
                continue;
            }
            bld_row::<E>(n, &h, false, out);
            if h.len() <= 4 {
                bld_row::<elog::Z>(n, &h, true, out);
            }
        }
    }
    run_clone_from(tier, out);
}

/// `Clone::clone_from` between TWO builders (letters A.. = `cur.clone_from(&t)`, S.. = `t.clone_from(&cur)`,
/// `t` a second builder holding m pushed values): the target may hold more, fewer or as many elements as
/// the source, either may be empty or full.  Afterwards the target must be exactly a clone of the source
/// (len / is_full / as_slice / build / drop) and every old element of the target must have been dropped
/// exactly once; the source must be unchanged.
fn run_clone_from(tier: &str, out: &mut Out) {
    let is_cf = |c: &u8| c.is_ascii_uppercase();
    let cf_letters = |ms: &[usize]| -> Vec<u8> {
        let mut v = Vec::new();
        for &m in ms {
            v.push(b'A' + m as u8);
        }
        for &m in ms {
            v.push(b'S' + m as u8);
        }
        v
    };
    // (1) ALL histories over {p, A0..An, S0..Sn} that contain a clone_from, every capacity
    let depth = if tier == "thorough" { 4 } else if tier == "small" { 2 } else { 3 };
    for n in 0..=4usize {
        let mut alpha: Vec<u8> = b"p".to_vec();
        alpha.extend(cf_letters(&(0..=n).collect::<Vec<_>>()));
        for h in histories(&alpha, b"bd", depth) {
            if !h.iter().any(is_cf) {
                continue;
            }
            bld_row::<E>(n, &h, false, out);
            if h.len() <= depth {
                bld_row::<elog::Z>(n, &h, true, out);
            }
        }
        // ... and mixed with plain clones
        alpha.extend(b"ck");
        for h in histories(&alpha, b"bd", depth) {
            if !h.iter().any(is_cf) || !h.iter().any(|c| *c == b'c' || *c == b'k') {
                continue;
            }
            bld_row::<E>(n, &h, false, out);
        }
    }
    // (2) fill levels: i pushes, one clone_from with a second builder of m values (m = n + 1: one push into the
    // second builder is rejected), j more pushes, build / drop — every i, m, j for capacities 0..=4, a selection
    // on capacity 6
    let small = tier == "small";
    for n in [0usize, 1, 2, 3, 4, 6] {
        let pick = |full: Vec<usize>, few: Vec<usize>| if n == 6 || small { few } else { full };
        let is_ = pick((0..=n).collect(), vec![0, n / 2, n]);
        let ms = pick((0..=n + 1).collect(), vec![0, 1, n, n + 1]);
        let js = pick((0..=n).collect(), vec![0, n - n / 2, n]);
        for &i in &is_ {
            for &l in &cf_letters(&ms) {
                for &j in &js {
                    for t in [b'b', b'd'] {
                        let mut h = vec![b'p'; i];
                        h.push(l);
                        h.extend(vec![b'p'; j]);
                        h.push(t);
                        bld_row::<E>(n, &h, false, out);
                        bld_row::<elog::Z>(n, &h, true, out);
                    }
                }
            }
        }
    }
    // (3) together with a panicking element `Clone` in a later / earlier plain clone
    let pdepth = if tier == "thorough" { 4 } else if small { 2 } else { 3 };
    for n in 0..=4usize {
        let mut alpha: Vec<u8> = b"p".to_vec();
        for j in 0..=n.min(3) {
            alpha.push(b'0' + j as u8);
        }
        alpha.extend(cf_letters(&if n == 0 { vec![0] } else { vec![0, n] }));
        for h in histories(&alpha, b"bd", pdepth) {
            if !h.iter().any(is_cf) || !h.iter().any(|c| c.is_ascii_digit()) {
                continue;
            }
            bld_row::<E>(n, &h, false, out);
            bld_row::<elog::Z>(n, &h, true, out);
        }
    }
}

pub fn run(tier: &str, _seed: u64, out: &mut Out) {
    macros_value::<0>(out);
    macros_value::<1>(out);
    macros_value::<2>(out);
    macros_value::<3>(out);
    macros_value::<4>(out);
    run_builder(tier, out);
}
