//! C11: array::map!/from_fn!/map_!/from_fn_! on well-behaved closures (lengths 0..=4, Copy and
//! drop-logging elements) against `<[T;N]>::map` / `core::array::from_fn`, and all ArrayBuilder
//! histories (push / clone / build / drop incl. over- and under-filling) against a `Vec` with a
//! capacity check.  Early-exit closures and collect_const! are generated programs (vlib/progs/c11.py).
use crate::util::elog::{self, E};
use crate::util::*;
use konst::array::ArrayBuilder;
use std::panic::{catch_unwind, AssertUnwindSafe};

macro_rules! with_n {
    ($n:expr, $f:ident $(, $args:expr)*) => {
        match $n {
            0 => $f::<0>($($args),*),
            1 => $f::<1>($($args),*),
            2 => $f::<2>($($args),*),
            3 => $f::<3>($($args),*),
            4 => $f::<4>($($args),*),
            5 => $f::<5>($($args),*),
            6 => $f::<6>($($args),*),
            _ => unreachable!(),
        }
    };
}
pub(crate) use with_n;

fn nums(v: &[u64]) -> String {
    format!("[{}]", v.iter().map(|x| x.to_string()).collect::<Vec<_>>().join(";"))
}

fn input_copy<const N: usize>() -> [u64; N] {
    core::array::from_fn(|i| 10 + i as u64)
}
fn input_log<const N: usize>() -> [E; N] {
    core::array::from_fn(|i| elog::with_val(10 + i as u32))
}

fn macros_value<const N: usize>(out: &mut Out) {
    // Copy elements
    let imp = catch(|| nums(&konst::array::map!(input_copy::<N>(), |x| 2 * x + 1)));
    let ora = catch(|| nums(&input_copy::<N>().map(|x| 2 * x + 1)));
    out.emit(&format!("arr.map fn copy {} none", N), &imp, &ora, true);
    let imp = catch(|| nums(&konst::array::map_!(input_copy::<N>(), |x| 2 * x + 1)));
    out.emit(&format!("arr.map_ fn copy {} none", N), &imp, &ora, true);
    // a function path instead of a closure
    fn dbl(x: u64) -> u64 {
        2 * x + 1
    }
    let imp = catch(|| nums(&konst::array::map!(input_copy::<N>(), dbl)));
    out.emit(&format!("arr.map fn copy {} none", N), &imp, &ora, true);
    let imp = catch(|| nums(&konst::array::map_!(input_copy::<N>(), dbl)));
    out.emit(&format!("arr.map_ fn copy {} none", N), &imp, &ora, true);
    let imp = catch(|| {
        let r: [u64; N] = konst::array::from_fn!(|i| 3 * i as u64 + 2);
        nums(&r)
    });
    let ora = catch(|| nums(&core::array::from_fn::<u64, N, _>(|i| 3 * i as u64 + 2)));
    out.emit(&format!("arr.from_fn fn copy {} none", N), &imp, &ora, true);
    let imp = catch(|| {
        let r: [u64; N] = konst::array::from_fn_!(|i| 3 * i as u64 + 2);
        nums(&r)
    });
    out.emit(&format!("arr.from_fn_ fn copy {} none", N), &imp, &ora, true);
    // non-Copy (drop-logging) elements; the values are the payloads
    let vals = |a: [E; N]| nums(&a.iter().map(|e| e.val as u64).collect::<Vec<_>>());
    elog::reset();
    let imp = catch(|| {
        let inp = input_log::<N>();
        nums(&konst::array::map!(inp, |ref e| 2 * e.val as u64 + 1))
    });
    let ora = catch(|| nums(&input_log::<N>().map(|e| 2 * e.val as u64 + 1)));
    out.emit(&format!("arr.map fn log {} none", N), &imp, &ora, true);
    let imp = catch(|| vals(konst::array::map_!(input_log::<N>(), |e: E| elog::with_val(2 * e.val + 1))));
    let ora = catch(|| vals(input_log::<N>().map(|e: E| elog::with_val(2 * e.val + 1))));
    out.emit(&format!("arr.map_ fn log {} none", N), &imp, &ora, true);
    let imp = catch(|| {
        let r: [E; N] = konst::array::from_fn!(|i| elog::with_val(3 * i as u32 + 2));
        vals(r)
    });
    let ora = catch(|| vals(core::array::from_fn::<E, N, _>(|i| elog::with_val(3 * i as u32 + 2))));
    out.emit(&format!("arr.from_fn fn log {} none", N), &imp, &ora, true);
    let imp = catch(|| {
        let r: [E; N] = konst::array::from_fn_!(|i| elog::with_val(3 * i as u32 + 2));
        vals(r)
    });
    out.emit(&format!("arr.from_fn_ fn log {} none", N), &imp, &ora, true);
    if elog::log() == "CORRUPT" {
        out.emit(&format!("arr.map_ fn log {} none", N), "CORRUPT", "ok", true);
    }
}

fn slice_ids(s: &[E]) -> String {
    elog::ids(&s.iter().map(elog::peek).collect::<Vec<_>>())
}

/// one builder history on the real `ArrayBuilder<E, N>`
pub fn bld_hist<const N: usize>(ops: &[u8]) -> String {
    elog::reset();
    let mut cur: Option<ArrayBuilder<E, N>> = Some(ArrayBuilder::new());
    let mut steps: Vec<String> = Vec::new();
    let mut fin = String::new();
    for &op in ops {
        let mut ok = true;
        match op {
            b'p' => {
                let e = elog::new();
                let b = cur.as_mut().unwrap();
                ok = catch_unwind(AssertUnwindSafe(|| b.push(e))).is_ok();
            }
            b'c' => {
                let old = cur.take().unwrap();
                let new = old.clone();
                drop(old);
                cur = Some(new);
            }
            b'k' => {
                let cl = cur.as_ref().unwrap().clone();
                drop(cl);
            }
            b'b' => {
                let b = cur.take().unwrap();
                fin = match catch_unwind(AssertUnwindSafe(move || b.build())) {
                    Ok(arr) => {
                        let ids: Vec<u32> = arr.into_iter().map(elog::take).collect();
                        format!("b={}", elog::ids(&ids))
                    }
                    Err(_) => "b=panic".to_string(),
                };
                break;
            }
            b'd' => {
                drop(cur.take());
                fin = "d".to_string();
                break;
            }
            _ => return "bad-op".to_string(),
        }
        let b = cur.as_mut().unwrap();
        let sl = slice_ids(b.as_slice());
        let slm = slice_ids(b.as_mut_slice());
        let sl = if sl == slm { sl } else { "MUTDIFF".to_string() };
        steps.push(format!("{}={},{},{},{}", op as char, if ok { "ok" } else { "panic" }, b.len(), crate::util::b(b.is_full()), sl));
    }
    drop(cur);
    format!("{}|{}|L={}", if steps.is_empty() { "-".to_string() } else { steps.join(";") }, fin, elog::log())
}

/// the same history on a `Vec<E>` with a capacity check (the reference)
pub fn bld_hist_ref(n: usize, ops: &[u8]) -> String {
    elog::reset();
    let mut cur: Vec<E> = Vec::new();
    let mut steps: Vec<String> = Vec::new();
    let mut fin = String::new();
    for &op in ops {
        let mut ok = true;
        match op {
            b'p' => {
                let e = elog::new();
                if cur.len() < n {
                    cur.push(e);
                } else {
                    ok = false;
                    drop(e);
                }
            }
            b'c' => {
                let new = cur.clone();
                cur = new; // the old vector is dropped here, front to back
            }
            b'k' => {
                drop(cur.clone());
            }
            b'b' => {
                fin = if cur.len() == n {
                    let ids: Vec<u32> = std::mem::take(&mut cur).into_iter().map(elog::take).collect();
                    format!("b={}", elog::ids(&ids))
                } else {
                    cur.clear();
                    "b=panic".to_string()
                };
                break;
            }
            b'd' => {
                cur.clear();
                fin = "d".to_string();
                break;
            }
            _ => return "bad-op".to_string(),
        }
        steps.push(format!("{}={},{},{},{}", op as char, if ok { "ok" } else { "panic" }, cur.len(), crate::util::b(cur.len() == n), slice_ids(&cur)));
    }
    drop(cur);
    format!("{}|{}|L={}", if steps.is_empty() { "-".to_string() } else { steps.join(";") }, fin, elog::log())
}

/// all words over `alpha` with at most `max` letters, each followed by every terminal
pub fn histories(alpha: &[u8], terms: &[u8], max: usize) -> Vec<Vec<u8>> {
    let mut out = Vec::new();
    let mut layer: Vec<Vec<u8>> = vec![vec![]];
    for d in 0..=max {
        for w in &layer {
            for t in terms {
                let mut x = w.clone();
                x.push(*t);
                out.push(x);
            }
        }
        if d == max {
            break;
        }
        let mut next = Vec::new();
        for w in &layer {
            for a in alpha {
                let mut x = w.clone();
                x.push(*a);
                next.push(x);
            }
        }
        layer = next;
    }
    out
}

pub fn run_builder(tier: &str, out: &mut Out) {
    let depth = if tier == "thorough" { 8 } else if tier == "small" { 4 } else { 6 };
    for n in 0..=4usize {
        for h in histories(b"pck", b"bd", depth - 1) {
            let imp = with_n!(n, bld_hist, &h);
            let ora = bld_hist_ref(n, &h);
            out.emit(&format!("bld.hist {} {}", n, String::from_utf8_lossy(&h)), &imp, &ora, true);
        }
    }
    // long fill / overfill runs on a larger capacity
    for extra in 0..3usize {
        let mut h = vec![b'p'; 6 + extra];
        h.push(b'b');
        let imp = bld_hist::<6>(&h);
        let ora = bld_hist_ref(6, &h);
        out.emit(&format!("bld.hist 6 {}", String::from_utf8_lossy(&h)), &imp, &ora, true);
    }
}

pub fn run(tier: &str, _seed: u64, out: &mut Out) {
    macros_value::<0>(out);
    macros_value::<1>(out);
    macros_value::<2>(out);
    macros_value::<3>(out);
    macros_value::<4>(out);
    run_builder(tier, out);
}
