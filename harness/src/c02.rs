//! C02 (and the slice half of C01): slice indexing / splitting vs std.
use crate::util::*;
use konst::slice as ks;

fn indices(len: usize) -> Vec<usize> {
    let mut v: Vec<usize> = (0..=len + 2).collect();
    v.extend_from_slice(&[isize::MAX as usize, isize::MAX as usize + 1, usize::MAX - 1, usize::MAX]);
    v
}

fn pair(a: String, b: String) -> String {
    format!("{}|{}", a, b)
}

macro_rules! with_n {
    ($n:expr, $f:ident, $($args:expr),*) => {
        match $n {
            0 => $f::<_, 0>($($args),*),
            1 => $f::<_, 1>($($args),*),
            2 => $f::<_, 2>($($args),*),
            3 => $f::<_, 3>($($args),*),
            4 => $f::<_, 4>($($args),*),
            5 => $f::<_, 5>($($args),*),
            7 => $f::<_, 7>($($args),*),
            13 => $f::<_, 13>($($args),*),
            16 => $f::<_, 16>($($args),*),
            64 => $f::<_, 64>($($args),*),
            4294967296 => $f::<_, 4294967296>($($args),*),
            4294967297 => $f::<_, 4294967297>($($args),*),
            _ => unreachable!(),
        }
    };
}

fn try_into_array_n<T, const N: usize>(s: &[T], out: &mut Out, elem: &str) {
    let imp = catch(|| match ks::try_into_array::<T, N>(s) {
        Ok(a) => view(s, &a[..]),
        Err(_) => "none".into(),
    });
    let ora = match <&[T; N]>::try_from(s) {
        Ok(a) => view(s, &a[..]),
        Err(_) => "none".into(),
    };
    out.emit(&format!("s.try_into_array {} {} {}", elem, s.len(), N), &imp, &ora, true);
}

fn try_into_array_mut_n<T: Clone, const N: usize>(s: &[T], out: &mut Out, elem: &str) {
    let mut v = s.to_vec();
    let (bp, bl) = (v.as_ptr(), v.len());
    let imp = catch(|| match ks::try_into_array_mut::<T, N>(&mut v) {
        Ok(a) => view_raw(bp, bl, a.as_ptr(), a.len()),
        Err(_) => "none".into(),
    });
    let mut w = s.to_vec();
    let (bp, bl) = (w.as_ptr(), w.len());
    let ora = match <&mut [T; N]>::try_from(&mut w[..]) {
        Ok(a) => view_raw(bp, bl, a.as_ptr(), a.len()),
        Err(_) => "none".into(),
    };
    out.emit(&format!("s.try_into_array.mut {} {} {}", elem, s.len(), N), &imp, &ora, true);
}

fn flat<T, const N: usize>(base: &[T], arrs: &[[T; N]]) -> String {
    // the `[[T;N]]` part seen as a flat run of elements
    view_raw(base.as_ptr(), base.len(), arrs.as_ptr() as *const T, arrs.len() * N)
}

fn as_chunks_n<T: std::panic::RefUnwindSafe, const N: usize>(s: &[T], out: &mut Out, elem: &str) {
    let imp = catch(|| {
        let (a, r) = ks::as_chunks::<T, N>(s);
        format!("{}|{}|{}", flat(s, a), a.len(), view(s, r))
    });
    let ora = catch(|| {
        if N == 0 {
            panic!("chunk size must be non-zero")
        }
        let (a, r) = s.as_chunks::<N>();
        format!("{}|{}|{}", flat(s, a), a.len(), view(s, r))
    });
    out.emit(&format!("s.as_chunks {} {} {}", elem, s.len(), N), &imp, &ora, true);
    let imp = catch(|| {
        let (r, a) = ks::as_rchunks::<T, N>(s);
        format!("{}|{}|{}", view(s, r), flat(s, a), a.len())
    });
    let ora = catch(|| {
        if N == 0 {
            panic!("chunk size must be non-zero")
        }
        let (r, a) = s.as_rchunks::<N>();
        format!("{}|{}|{}", view(s, r), flat(s, a), a.len())
    });
    out.emit(&format!("s.as_rchunks {} {} {}", elem, s.len(), N), &imp, &ora, true);
}

fn one<T>(base: &[T], x: Option<&T>) -> String {
    match x {
        None => "none".into(),
        Some(r) => view(base, core::slice::from_ref(r)),
    }
}

fn run_type<T: Clone + std::panic::RefUnwindSafe>(elem: &str, mk: &dyn Fn(usize) -> T, max_len: usize, out: &mut Out) {
    for len in 0..=max_len {
        run_len(elem, mk, len, indices(len), &[0, 1, 2, 3, 4, 5], out);
    }
}

/// seeded stream of LARGE slices: lengths up to 600, a few random indices each (plus the huge ones),
/// chunk/array sizes up to 64 — the exhaustive part above stops at small lengths
fn run_random<T: Clone + std::panic::RefUnwindSafe>(elem: &str, mk: &dyn Fn(usize) -> T, cases: usize, rng: &mut Rng, out: &mut Out) {
    for _ in 0..cases {
        let len = 9 + rng.below(592) as usize;
        let mut idx: Vec<usize> = (0..3).map(|_| rng.below(len as u64 + 3) as usize).collect();
        idx.push(len);
        idx.push([isize::MAX as usize, usize::MAX, len + 1][rng.below(3) as usize]);
        let ns = [[7usize, 13], [16, 64], [5, 64], [13, 16]][rng.below(4) as usize];
        run_len(elem, mk, len, idx, &ns, out);
    }
}

fn run_len<T: Clone + std::panic::RefUnwindSafe>(elem: &str, mk: &dyn Fn(usize) -> T, len: usize, idx: Vec<usize>, ns: &[usize], out: &mut Out) {
    let v: Vec<T> = (0..len).map(|i| mk(i)).collect();
    run_vec(elem, v, idx, ns, out)
}

/// zero-sized elements allow slices longer than isize::MAX elements: lengths around 2^32, 2^63 and usize::MAX
fn run_zst_huge(out: &mut Out) {
    for len in [(1usize << 32) + 5, (1 << 63) - 1, 1 << 63, (1 << 63) + 999, usize::MAX - 1, usize::MAX] {
        let mut v: Vec<()> = Vec::new();
        // SAFETY: `()` is zero-sized: any length is within the capacity (usize::MAX) and nothing needs initialising
        unsafe { v.set_len(len) };
        let mut idx = vec![0usize, 1, len - 1, len, (1 << 63) - 1, 1 << 63, (1 << 63) + 1, (1 << 32), usize::MAX];
        idx.sort();
        idx.dedup();
        run_vec("zst", v, idx, &[1, 5, 64, 4294967296, 4294967297], out);
    }
}

fn run_vec<T: Clone + std::panic::RefUnwindSafe>(elem: &str, v: Vec<T>, idx: Vec<usize>, ns: &[usize], out: &mut Out) {
    let len = v.len();
    {
        let s: &[T] = &v;
        for &i in &idx {
            out.emit(&format!("s.get {} {} {}", elem, len, i), &catch(|| one(s, ks::get(s, i))), &one(s, s.get(i)), true);
            out.emit(&format!("s.get_from {} {} {}", elem, len, i), &catch(|| opt_view(s, ks::get_from(s, i))), &opt_view(s, s.get(i..)), true);
            out.emit(&format!("s.get_up_to {} {} {}", elem, len, i), &catch(|| opt_view(s, ks::get_up_to(s, i))), &opt_view(s, s.get(..i)), true);
            out.emit(&format!("s.slice_from {} {} {}", elem, len, i), &catch(|| view(s, ks::slice_from(s, i))), &view(s, s.get(i..).unwrap_or(&[])), true);
            out.emit(&format!("s.slice_up_to {} {} {}", elem, len, i), &catch(|| view(s, ks::slice_up_to(s, i))), &view(s, s.get(..i).unwrap_or(s)), true);
            {
                let imp_sa = catch(|| { let (a, b) = ks::split_at(s, i); pair(view(s, a), view(s, b)) });
                let (oa, ob) = s.split_at_checked(i).unwrap_or((s, &[]));
                out.emit(&format!("s.split_at {} {} {}", elem, len, i), &imp_sa, &pair(view(s, oa), view(s, ob)), true);
            }
            // `_mut` twins: observe which elements the returned reference addresses
            {
                let mut m = v.clone();
                let (bp, bl) = (m.as_ptr(), m.len());
                let imp = catch(|| match ks::get_mut(&mut m, i) { None => "none".to_string(), Some(r) => view_raw(bp, bl, r as *const T, 1) });
                out.emit(&format!("s.get.mut {} {} {}", elem, len, i), &imp, &one(s, s.get(i)), true);
                let mut m = v.clone();
                let (bp, bl) = (m.as_ptr(), m.len());
                let imp = catch(|| match ks::get_from_mut(&mut m, i) { None => "none".to_string(), Some(r) => view_raw(bp, bl, r.as_ptr(), r.len()) });
                out.emit(&format!("s.get_from.mut {} {} {}", elem, len, i), &imp, &opt_view(s, s.get(i..)), true);
                let mut m = v.clone();
                let (bp, bl) = (m.as_ptr(), m.len());
                let imp = catch(|| match ks::get_up_to_mut(&mut m, i) { None => "none".to_string(), Some(r) => view_raw(bp, bl, r.as_ptr(), r.len()) });
                out.emit(&format!("s.get_up_to.mut {} {} {}", elem, len, i), &imp, &opt_view(s, s.get(..i)), true);
                let mut m = v.clone();
                let (bp, bl) = (m.as_ptr(), m.len());
                let imp = catch(|| { let r = ks::slice_from_mut(&mut m, i); view_raw(bp, bl, r.as_ptr(), r.len()) });
                out.emit(&format!("s.slice_from.mut {} {} {}", elem, len, i), &imp, &view(s, s.get(i..).unwrap_or(&[])), true);
                let mut m = v.clone();
                let (bp, bl) = (m.as_ptr(), m.len());
                let imp = catch(|| { let r = ks::slice_up_to_mut(&mut m, i); view_raw(bp, bl, r.as_ptr(), r.len()) });
                out.emit(&format!("s.slice_up_to.mut {} {} {}", elem, len, i), &imp, &view(s, s.get(..i).unwrap_or(s)), true);
                let mut m = v.clone();
                let (bp, bl) = (m.as_ptr(), m.len());
                let imp = catch(|| { let (a, b) = ks::split_at_mut(&mut m, i); pair(view_raw(bp, bl, a.as_ptr(), a.len()), view_raw(bp, bl, b.as_ptr(), b.len())) });
                let (oa, ob) = s.split_at_checked(i).unwrap_or((s, &[]));
                out.emit(&format!("s.split_at.mut {} {} {}", elem, len, i), &imp, &pair(view(s, oa), view(s, ob)), true);
            }
            for &j in &idx {
                let e = j.min(len);
                let st = i.min(e);
                out.emit(&format!("s.get_range {} {} {} {}", elem, len, i, j), &catch(|| opt_view(s, ks::get_range(s, i, j))), &opt_view(s, if i <= j { s.get(i..j) } else { None }), true);
                out.emit(&format!("s.slice_range {} {} {} {}", elem, len, i, j), &catch(|| view(s, ks::slice_range(s, i, j))), &view(s, &s[st..e]), true);
                let mut m = v.clone();
                let (bp, bl) = (m.as_ptr(), m.len());
                let imp = catch(|| match ks::get_range_mut(&mut m, i, j) { None => "none".to_string(), Some(r) => view_raw(bp, bl, r.as_ptr(), r.len()) });
                out.emit(&format!("s.get_range.mut {} {} {} {}", elem, len, i, j), &imp, &opt_view(s, if i <= j { s.get(i..j) } else { None }), true);
                let mut m = v.clone();
                let (bp, bl) = (m.as_ptr(), m.len());
                let imp = catch(|| { let r = ks::slice_range_mut(&mut m, i, j); view_raw(bp, bl, r.as_ptr(), r.len()) });
                out.emit(&format!("s.slice_range.mut {} {} {} {}", elem, len, i, j), &imp, &view(s, &s[st..e]), true);
            }
        }
        // first/last/split_first/split_last (_mut only exist in konst; std's shared versions are the oracle)
        {
            let mut m = v.clone();
            let (bp, bl) = (m.as_ptr(), m.len());
            let imp = catch(|| match ks::first_mut(&mut m) { None => "none".to_string(), Some(r) => view_raw(bp, bl, r as *const T, 1) });
            out.emit(&format!("s.first.mut {} {}", elem, len), &imp, &one(s, s.first()), true);
            let mut m = v.clone();
            let (bp, bl) = (m.as_ptr(), m.len());
            let imp = catch(|| match ks::last_mut(&mut m) { None => "none".to_string(), Some(r) => view_raw(bp, bl, r as *const T, 1) });
            out.emit(&format!("s.last.mut {} {}", elem, len), &imp, &one(s, s.last()), true);
            let mut m = v.clone();
            let (bp, bl) = (m.as_ptr(), m.len());
            let imp = catch(|| match ks::split_first_mut(&mut m) { None => "none".to_string(), Some((f, r)) => pair(view_raw(bp, bl, f as *const T, 1), view_raw(bp, bl, r.as_ptr(), r.len())) });
            let ora = match s.split_first() { None => "none".to_string(), Some((f, r)) => pair(view(s, core::slice::from_ref(f)), view(s, r)) };
            out.emit(&format!("s.split_first.mut {} {}", elem, len), &imp, &ora, true);
            let mut m = v.clone();
            let (bp, bl) = (m.as_ptr(), m.len());
            let imp = catch(|| match ks::split_last_mut(&mut m) { None => "none".to_string(), Some((f, r)) => pair(view_raw(bp, bl, f as *const T, 1), view_raw(bp, bl, r.as_ptr(), r.len())) });
            let ora = match s.split_last() { None => "none".to_string(), Some((f, r)) => pair(view(s, core::slice::from_ref(f)), view(s, r)) };
            out.emit(&format!("s.split_last.mut {} {}", elem, len), &imp, &ora, true);
        }
        for &n in ns {
            with_n!(n, try_into_array_n, s, out, elem);
            with_n!(n, try_into_array_mut_n, s, out, elem);
            with_n!(n, as_chunks_n, s, out, elem);
        }
    }
}

pub fn run(tier: &str, seed: u64, out: &mut Out) {
    let max_len = if tier == "thorough" { 16 } else { 8 };
    let mut rng = Rng(seed ^ 0xC02);
    let cases = if tier == "thorough" { 1500 } else { 250 };
    run_random::<u8>("u8", &|i| i as u8, cases, &mut rng, out);
    run_random::<()>("zst", &|_| (), cases / 4, &mut rng, out);
    run_random::<[u16; 3]>("u16x3", &|i| [i as u16; 3], cases / 4, &mut rng, out);
    run_zst_huge(out);
    // array/chunk sizes beyond 2^32 on small slices
    for len in [0usize, 1, 3] {
        run_len::<u8>("u8", &|i| i as u8, len, vec![0, len], &[4294967296, 4294967297], out);
    }
    run_type::<u8>("u8", &|i| i as u8, max_len, out);
    run_type::<()>("zst", &|_| (), max_len, out);
    run_type::<String>("string", &|i| format!("s{}", i), max_len.min(10), out);
    run_type::<[u16; 3]>("u16x3", &|i| [i as u16; 3], max_len.min(10), out);
}
