//! C13 + C14: histories of `konst::Parser` operations (shared module; family `c13` emits the C13
//! observations, family `c14` the C14 observations of the SAME generated histories).
//!
//! requests (see lean/Driver/C13.lean); a history is `<base> <hayhex> <op>[:<arg>] …` on one line:
//!   par13 <base> <hay> <ops…>   per step  ok:<start_offset>:<end_offset>:<view of remainder() in the original>
//!                                       | err:<offset()>:<error_direction() S|E|B> | panic
//!        oracle = the C13 invariant evaluated on the implementation's own answers: the original
//!        sliced (`str::get`) at the REPORTED offsets minus the base, which must exist (both offsets
//!        char boundaries, inside, ordered) and BE the remainder (same bytes, same address unless
//!        empty); for an error: the start (operations working from the start) resp. end offset of
//!        the parser the failing method was called on, and that end's name.
//!   par14 <base> <hay> <ops…>   per step  ok:<view of the new remainder in the previous one>[:<value>]
//!                                       | err:<ErrorKind> | panic
//!        oracle = the free functions `konst::string::*` (and the documented prefix-parse rule +
//!        `str::parse`, `str::is_char_boundary` for skip/skip_back) applied to the previous
//!        remainder in a chain of their own, with the documented one-shot "last piece was returned"
//!        rule for the split family.
//!   pardir <base> <hay> <ops…>  (out of scope, drift only) per step the `parse_direction()` stored by
//!        the step and `into_error(Other).offset()` of the parser held afterwards
//!   parproto.<split|rsplit|split_terminator|rsplit_terminator> <hay> <delim>   (family c14)
//!        the method iterated from `Parser::new(hay)` until it fails:
//!        `[piece views in hay…]|<ErrorKind>` (split, rsplit)  /  `[…]|err` (the terminator twins);
//!        oracle = `str::split` / `str::rsplit` (all pieces + SplitExhausted; all but the last + err)
//! values: piece = view in the previous remainder, integers in decimal, bools t/f.
//! op tokens: split_terminator rsplit_terminator split rsplit split_keep strip_prefix strip_suffix
//!   trim_matches trim_start_matches trim_end_matches find_skip rfind_skip  with `:s<hex>` (a `&str`
//!   pattern) or `:c<hex>` (a `char` pattern);  trim trim_start trim_end;  skip:<n> skip_back:<n>;
//!   parse_<ty> (u8…isize, bool)
use crate::util::*;
use konst::parsing::{ErrorKind, ParseDirection, ParseError};
use konst::string as ks;
use konst::Parser;
use std::panic::{catch_unwind, AssertUnwindSafe};

#[derive(Clone, Copy, PartialEq, Debug)]
pub enum Pat {
    S(&'static str),
    C(char),
}

#[derive(Clone, Copy, PartialEq, Debug)]
pub enum M {
    SplitTerminator,
    RsplitTerminator,
    Split,
    Rsplit,
    SplitKeep,
    StripPrefix,
    StripSuffix,
    TrimMatches,
    TrimStartMatches,
    TrimEndMatches,
    FindSkip,
    RfindSkip,
}
pub const PAT_METHODS: [M; 12] = [
    M::SplitTerminator,
    M::RsplitTerminator,
    M::Split,
    M::Rsplit,
    M::SplitKeep,
    M::StripPrefix,
    M::StripSuffix,
    M::TrimMatches,
    M::TrimStartMatches,
    M::TrimEndMatches,
    M::FindSkip,
    M::RfindSkip,
];

#[derive(Clone, Copy, PartialEq, Debug)]
pub enum Op {
    P(M, Pat),
    Trim,
    TrimStart,
    TrimEnd,
    Skip(usize),
    SkipBack(usize),
    ParseInt(&'static str),
    ParseBool,
    /// `parse_with!(parser, T)` (HasParser / StdParser::<T>::parse_with): behaves as `Parser::parse_T`
    PwInt(&'static str),
    PwBool,
}

fn m_name(m: M) -> &'static str {
    match m {
        M::SplitTerminator => "split_terminator",
        M::RsplitTerminator => "rsplit_terminator",
        M::Split => "split",
        M::Rsplit => "rsplit",
        M::SplitKeep => "split_keep",
        M::StripPrefix => "strip_prefix",
        M::StripSuffix => "strip_suffix",
        M::TrimMatches => "trim_matches",
        M::TrimStartMatches => "trim_start_matches",
        M::TrimEndMatches => "trim_end_matches",
        M::FindSkip => "find_skip",
        M::RfindSkip => "rfind_skip",
    }
}

fn pat_tok(p: Pat) -> String {
    match p {
        Pat::S(s) => format!("s{}", hex(s.as_bytes())),
        Pat::C(c) => {
            let mut b = [0u8; 4];
            format!("c{}", hex(c.encode_utf8(&mut b).as_bytes()))
        }
    }
}

fn op_tok(op: &Op) -> String {
    match op {
        Op::P(m, p) => format!("{}:{}", m_name(*m), pat_tok(*p)),
        Op::Trim => "trim".into(),
        Op::TrimStart => "trim_start".into(),
        Op::TrimEnd => "trim_end".into(),
        Op::Skip(n) => format!("skip:{}", n),
        Op::SkipBack(n) => format!("skip_back:{}", n),
        Op::ParseInt(t) => format!("parse_{}", t),
        Op::ParseBool => "parse_bool".into(),
        Op::PwInt(t) => format!("pw_{}", t),
        Op::PwBool => "pw_bool".into(),
    }
}

/// does the operation work from the end of the string? (the table the C13 oracle uses for errors)
fn from_end(op: &Op) -> bool {
    matches!(
        op,
        Op::P(M::RsplitTerminator, _)
            | Op::P(M::Rsplit, _)
            | Op::P(M::StripSuffix, _)
            | Op::P(M::TrimEndMatches, _)
            | Op::P(M::RfindSkip, _)
            | Op::TrimEnd
            | Op::SkipBack(_)
    )
}

pub enum Val<'a> {
    Unit,
    Piece(&'a str),
    Int(String),
    Bool(bool),
}

pub enum StepOut<'a> {
    Ok(Parser<'a>, Val<'a>),
    Err(ParseError<'a>),
}

macro_rules! with_pat {
    ($pat:expr, |$x:ident| $e:expr) => {
        match $pat {
            Pat::S(s) => {
                let $x = s;
                $e
            }
            Pat::C(c) => {
                let $x = c;
                $e
            }
        }
    };
}

fn piece_res<'a>(r: Result<(&'a str, Parser<'a>), ParseError<'a>>) -> StepOut<'a> {
    match r {
        Ok((s, p)) => StepOut::Ok(p, Val::Piece(s)),
        Err(e) => StepOut::Err(e),
    }
}
fn unit_res<'a>(r: Result<Parser<'a>, ParseError<'a>>) -> StepOut<'a> {
    match r {
        Ok(p) => StepOut::Ok(p, Val::Unit),
        Err(e) => StepOut::Err(e),
    }
}

macro_rules! int_method {
    ($p:expr, $ty:expr, $( $name:literal => $meth:ident ),*) => {
        match $ty {
            $( $name => match $p.$meth() {
                Ok((v, p)) => StepOut::Ok(p, Val::Int(v.to_string())),
                Err(e) => StepOut::Err(e),
            }, )*
            _ => unreachable!("type {}", $ty),
        }
    };
}

macro_rules! pw_method {
    ($p:expr, $ty:expr, $( $name:literal => $t:ty ),*) => {
        match $ty {
            $( $name => match konst::parse_with!($p, $t) {
                Ok((v, p)) => StepOut::Ok(p, Val::Int(v.to_string())),
                Err(e) => StepOut::Err(e),
            }, )*
            _ => unreachable!("type {}", $ty),
        }
    };
}

/// the REAL method call
fn apply<'a>(p: Parser<'a>, op: &Op) -> StepOut<'a> {
    match *op {
        Op::P(m, pat) => with_pat!(pat, |x| match m {
            M::SplitTerminator => piece_res(p.split_terminator(x)),
            M::RsplitTerminator => piece_res(p.rsplit_terminator(x)),
            M::Split => piece_res(p.split(x)),
            M::Rsplit => piece_res(p.rsplit(x)),
            M::SplitKeep => piece_res(p.split_keep(x)),
            M::StripPrefix => unit_res(p.strip_prefix(x)),
            M::StripSuffix => unit_res(p.strip_suffix(x)),
            M::TrimMatches => StepOut::Ok(p.trim_matches(x), Val::Unit),
            M::TrimStartMatches => StepOut::Ok(p.trim_start_matches(x), Val::Unit),
            M::TrimEndMatches => StepOut::Ok(p.trim_end_matches(x), Val::Unit),
            M::FindSkip => unit_res(p.find_skip(x)),
            M::RfindSkip => unit_res(p.rfind_skip(x)),
        }),
        Op::Trim => StepOut::Ok(p.trim(), Val::Unit),
        Op::TrimStart => StepOut::Ok(p.trim_start(), Val::Unit),
        Op::TrimEnd => StepOut::Ok(p.trim_end(), Val::Unit),
        Op::Skip(n) => StepOut::Ok(p.skip(n), Val::Unit),
        Op::SkipBack(n) => StepOut::Ok(p.skip_back(n), Val::Unit),
        Op::ParseInt(t) => int_method!(p, t,
            "u8" => parse_u8, "u16" => parse_u16, "u32" => parse_u32, "u64" => parse_u64,
            "u128" => parse_u128, "usize" => parse_usize, "i8" => parse_i8, "i16" => parse_i16,
            "i32" => parse_i32, "i64" => parse_i64, "i128" => parse_i128, "isize" => parse_isize),
        Op::ParseBool => match p.parse_bool() {
            Ok((v, p)) => StepOut::Ok(p, Val::Bool(v)),
            Err(e) => StepOut::Err(e),
        },
        Op::PwInt(t) => pw_method!(p, t,
            "u8" => u8, "u16" => u16, "u32" => u32, "u64" => u64, "u128" => u128, "usize" => usize,
            "i8" => i8, "i16" => i16, "i32" => i32, "i64" => i64, "i128" => i128, "isize" => isize),
        Op::PwBool => match konst::parse_with!(p, bool) {
            Ok((v, p)) => StepOut::Ok(p, Val::Bool(v)),
            Err(e) => StepOut::Err(e),
        },
    }
}

fn dir_tok(d: ParseDirection) -> &'static str {
    match d {
        ParseDirection::FromStart => "S",
        ParseDirection::FromEnd => "E",
        ParseDirection::FromBoth => "B",
    }
}

fn kind_tok(k: ErrorKind) -> String {
    format!("{:?}", k)
}

fn val_tok(prev: &str, v: &Val) -> String {
    match v {
        Val::Unit => String::new(),
        Val::Piece(s) => format!(":{}", view_str(prev, s)),
        Val::Int(s) => format!(":{}", s),
        Val::Bool(x) => format!(":{}", b(*x)),
    }
}

// ------------------------------------------------------------------------------------------------
// C14 oracle: the free functions applied to the previous remainder
// ------------------------------------------------------------------------------------------------

pub enum Ref<'a> {
    Ok(&'a str, Val<'a>),
    Err(&'static str),
}

macro_rules! int_ref {
    ($r:expr, $ty:expr, $( $name:literal => $t:ty ),*) => {{
        // documented rule: optional '-' (signed types only), then the longest run of ASCII digits
        let r: &str = $r;
        let bytes = r.as_bytes();
        let signed = $ty.starts_with('i');
        let mut n = 0usize;
        if signed && bytes.first() == Some(&b'-') {
            n = 1;
        }
        while n < bytes.len() && bytes[n].is_ascii_digit() {
            n += 1;
        }
        let piece = &r[..n];
        let parsed: Option<String> = match $ty {
            $( $name => piece.parse::<$t>().ok().map(|v| v.to_string()), )*
            _ => unreachable!(),
        };
        match parsed {
            Some(v) => Ref::Ok(&r[n..], Val::Int(v)),
            None => Ref::Err("ParseInteger"),
        }
    }};
}

/// one step of the reference chain: `r` = previous remainder, `e` = the last piece was handed out
fn ref_step<'a>(r: &'a str, e: &mut bool, op: &Op) -> Ref<'a> {
    match *op {
        Op::P(m, pat) => with_pat!(pat, |x| match m {
            M::StripPrefix => match ks::strip_prefix(r, x) {
                Some(t) => Ref::Ok(t, Val::Unit),
                None => Ref::Err("Strip"),
            },
            M::StripSuffix => match ks::strip_suffix(r, x) {
                Some(t) => Ref::Ok(t, Val::Unit),
                None => Ref::Err("Strip"),
            },
            M::TrimMatches => Ref::Ok(ks::trim_matches(r, x), Val::Unit),
            M::TrimStartMatches => Ref::Ok(ks::trim_start_matches(r, x), Val::Unit),
            M::TrimEndMatches => Ref::Ok(ks::trim_end_matches(r, x), Val::Unit),
            M::FindSkip => match ks::find_skip(r, x) {
                Some(t) => Ref::Ok(t, Val::Unit),
                None => Ref::Err("Find"),
            },
            M::RfindSkip => match ks::rfind_skip(r, x) {
                Some(t) => Ref::Ok(t, Val::Unit),
                None => Ref::Err("Find"),
            },
            M::Split => {
                if *e {
                    return Ref::Err("SplitExhausted");
                }
                match ks::split_once(r, x) {
                    Some((before, after)) => Ref::Ok(after, Val::Piece(before)),
                    None => {
                        *e = true;
                        Ref::Ok(&r[r.len()..], Val::Piece(r))
                    }
                }
            }
            M::SplitKeep => {
                if *e {
                    return Ref::Err("SplitExhausted");
                }
                match ks::find(r, x) {
                    Some(pos) => Ref::Ok(&r[pos..], Val::Piece(&r[..pos])),
                    None => {
                        *e = true;
                        Ref::Ok(&r[r.len()..], Val::Piece(r))
                    }
                }
            }
            M::Rsplit => {
                if *e {
                    return Ref::Err("SplitExhausted");
                }
                match ks::rsplit_once(r, x) {
                    Some((before, after)) => Ref::Ok(before, Val::Piece(after)),
                    None => {
                        *e = true;
                        Ref::Ok(&r[..0], Val::Piece(r))
                    }
                }
            }
            M::SplitTerminator => {
                if *e {
                    return Ref::Err("SplitExhausted");
                }
                if r.is_empty() {
                    return Ref::Err("DelimiterNotFound");
                }
                match ks::split_once(r, x) {
                    Some((before, after)) => {
                        *e = after.is_empty();
                        Ref::Ok(after, Val::Piece(before))
                    }
                    None => Ref::Err("DelimiterNotFound"),
                }
            }
            M::RsplitTerminator => {
                if *e {
                    return Ref::Err("SplitExhausted");
                }
                if r.is_empty() {
                    return Ref::Err("DelimiterNotFound");
                }
                match ks::rsplit_once(r, x) {
                    Some((before, after)) => {
                        *e = before.is_empty();
                        Ref::Ok(before, Val::Piece(after))
                    }
                    None => Ref::Err("DelimiterNotFound"),
                }
            }
        }),
        Op::Trim => Ref::Ok(ks::trim(r), Val::Unit),
        Op::TrimStart => Ref::Ok(ks::trim_start(r), Val::Unit),
        Op::TrimEnd => Ref::Ok(ks::trim_end(r), Val::Unit),
        Op::Skip(n) => {
            let mut k = n.min(r.len());
            while !r.is_char_boundary(k) {
                k += 1;
            }
            Ref::Ok(&r[k..], Val::Unit)
        }
        Op::SkipBack(n) => {
            let mut k = r.len().saturating_sub(n);
            while !r.is_char_boundary(k) {
                k -= 1;
            }
            Ref::Ok(&r[..k], Val::Unit)
        }
        Op::ParseInt(t) | Op::PwInt(t) => int_ref!(r, t,
            "u8" => u8, "u16" => u16, "u32" => u32, "u64" => u64, "u128" => u128, "usize" => usize,
            "i8" => i8, "i16" => i16, "i32" => i32, "i64" => i64, "i128" => i128, "isize" => isize),
        Op::ParseBool | Op::PwBool => {
            if let Some(t) = r.strip_prefix("true") {
                Ref::Ok(t, Val::Bool(true))
            } else if let Some(t) = r.strip_prefix("false") {
                Ref::Ok(t, Val::Bool(false))
            } else {
                Ref::Err("ParseBool")
            }
        }
    }
}

// ------------------------------------------------------------------------------------------------
// one history
// ------------------------------------------------------------------------------------------------

#[derive(Clone, Copy, PartialEq)]
pub enum Mode {
    C13,
    C14,
}

fn list(v: &[String]) -> String {
    format!("[{}]", v.join(";"))
}

fn run_history(out: &mut Out, mode: Mode, base: usize, hay: &str, ops: &[Op], with_dir: bool) {
    let mut req = format!("{} {}", base, hex(hay.as_bytes()));
    for op in ops {
        req.push(' ');
        req.push_str(&op_tok(op));
    }
    let mut imp: Vec<String> = Vec::with_capacity(ops.len());
    let mut ora: Vec<String> = Vec::with_capacity(ops.len());
    let mut dirs: Vec<String> = Vec::new();
    let mut p = if base == 0 { Parser::new(hay) } else { Parser::with_start_offset(hay, base) };
    // the reference chain of C14
    let mut r: &str = hay;
    let mut e = false;
    let mut dead = false; // the implementation panicked: only the (independent) C14 reference chain goes on
    for op in ops {
        if dead {
            if mode == Mode::C14 {
                let rr = r;
                let mut e2 = e;
                match ref_step(rr, &mut e2, op) {
                    Ref::Ok(nr, v) => {
                        ora.push(format!("ok:{}{}", view_str(rr, nr), val_tok(rr, &v)));
                        r = nr;
                        e = e2;
                    }
                    Ref::Err(k) => ora.push(format!("err:{}", k)),
                }
                continue;
            }
            break;
        }
        let prev = p;
        let res = catch_unwind(AssertUnwindSafe(|| apply(prev, op)));
        match mode {
            Mode::C13 => match &res {
                Err(_) => {
                    imp.push("panic".into());
                    // the property's histories do not panic
                    ora.push("nopanic".into());
                }
                Ok(StepOut::Ok(np, _)) => {
                    let (s, en, rem) = (np.start_offset(), np.end_offset(), np.remainder());
                    imp.push(format!("ok:{}:{}:{}", s, en, view_str(hay, rem)));
                    let sliced = if s >= base && en >= s { hay.get(s - base..en - base) } else { None };
                    let o = match sliced {
                        Some(x) if x == rem && (x.is_empty() || x.as_ptr() == rem.as_ptr()) => view_str(hay, x),
                        _ => "noslice".to_string(),
                    };
                    ora.push(format!("ok:{}:{}:{}", s, en, o));
                }
                Ok(StepOut::Err(er)) => {
                    imp.push(format!("err:{}:{}", er.offset(), dir_tok(er.error_direction())));
                    if from_end(op) {
                        ora.push(format!("err:{}:E", prev.end_offset()));
                    } else {
                        ora.push(format!("err:{}:S", prev.start_offset()));
                    }
                }
            },
            Mode::C14 => {
                let prev_rem = prev.remainder();
                match &res {
                    Err(_) => imp.push("panic".into()),
                    Ok(StepOut::Ok(np, v)) => {
                        imp.push(format!("ok:{}{}", view_str(prev_rem, np.remainder()), val_tok(prev_rem, v)))
                    }
                    Ok(StepOut::Err(er)) => imp.push(format!("err:{}", kind_tok(er.kind()))),
                }
                let rr = r;
                let rres = catch_unwind(AssertUnwindSafe(|| {
                    let mut e2 = e;
                    let x = ref_step(rr, &mut e2, op);
                    (x, e2)
                }));
                match rres {
                    Err(_) => ora.push("panic".into()),
                    Ok((Ref::Ok(nr, v), e2)) => {
                        ora.push(format!("ok:{}{}", view_str(rr, nr), val_tok(rr, &v)));
                        r = nr;
                        e = e2;
                    }
                    Ok((Ref::Err(k), _)) => ora.push(format!("err:{}", k)),
                }
            }
        }
        match res {
            Err(_) => {
                dead = true;
                continue;
            }
            Ok(StepOut::Ok(np, _)) => {
                p = np;
            }
            Ok(StepOut::Err(_)) => {}
        }
        if with_dir {
            dirs.push(format!(
                "{}:{}",
                dir_tok(p.parse_direction()),
                p.into_error(ErrorKind::Other).offset()
            ));
        }
    }
    match mode {
        Mode::C13 => out.emit(&format!("par13 {}", req), &list(&imp), &list(&ora), true),
        Mode::C14 => out.emit(&format!("par14 {}", req), &list(&imp), &list(&ora), true),
    }
    if with_dir {
        out.emit(&format!("pardir {}", req), &list(&dirs), "?", false);
    }
}

// ------------------------------------------------------------------------------------------------
// split protocols (C14)
// ------------------------------------------------------------------------------------------------

fn protocol(out: &mut Out, m: M, hay: &str, delim: Pat) {
    let name = m_name(m);
    let req = format!("parproto.{} {} {}", name, hex(hay.as_bytes()), pat_tok(delim));
    let terminator = matches!(m, M::SplitTerminator | M::RsplitTerminator);
    let cap = hay.len() + 3;
    let imp = catch(|| {
        let mut p = Parser::new(hay);
        let mut pieces: Vec<String> = Vec::new();
        let mut end = String::from("unfinished");
        for _ in 0..cap {
            match apply(p, &Op::P(m, delim)) {
                StepOut::Ok(np, Val::Piece(s)) => {
                    pieces.push(view_str(hay, s));
                    p = np;
                }
                StepOut::Ok(_, _) => unreachable!(),
                StepOut::Err(er) => {
                    end = if terminator { "err".into() } else { kind_tok(er.kind()) };
                    break;
                }
            }
        }
        format!("{}|{}", list(&pieces), end)
    });
    let ora = {
        let all: Vec<&str> = with_pat!(delim, |x| match m {
            M::Split | M::SplitTerminator => hay.split(x).collect(),
            _ => hay.rsplit(x).collect(),
        });
        let n = if terminator { all.len() - 1 } else { all.len() };
        let pieces: Vec<String> = all[..n].iter().map(|s| view_str(hay, s)).collect();
        format!("{}|{}", list(&pieces), if terminator { "err" } else { "SplitExhausted" })
    };
    out.emit(&req, &imp, &ora, true);
}

// ------------------------------------------------------------------------------------------------
// generators
// ------------------------------------------------------------------------------------------------

/// pattern arguments of the exhaustive scopes
pub const PATS: [Pat; 6] = [Pat::S(" "), Pat::S(","), Pat::C('ñ'), Pat::S("ab"), Pat::S(""), Pat::S("a,")];
/// additional patterns of the random stream
pub const PATS_RANDOM: [Pat; 8] =
    [Pat::C(','), Pat::C(' '), Pat::S("ñ"), Pat::S(",,"), Pat::S("1"), Pat::C('€'), Pat::S("true"), Pat::S(" ,")];

pub fn all_ops() -> Vec<Op> {
    let mut v = Vec::new();
    for m in PAT_METHODS {
        for p in PATS {
            v.push(Op::P(m, p));
        }
    }
    v.extend([Op::Trim, Op::TrimStart, Op::TrimEnd]);
    for n in [0usize, 1, 2, 9] {
        v.push(Op::Skip(n));
        v.push(Op::SkipBack(n));
    }
    v.extend([Op::ParseInt("u8"), Op::ParseInt("i16"), Op::ParseBool]);
    // parse_with! after operations that worked from the end / both ends: the error must still be parse_T's
    // (added after seeded change C13-r4-1)
    v.extend([Op::PwInt("u8"), Op::PwInt("i16"), Op::PwBool]);
    v
}

fn random_op(rng: &mut Rng, ops: &[Op]) -> Op {
    match rng.below(10) {
        0 => {
            let m = PAT_METHODS[rng.below(12) as usize];
            Op::P(m, PATS_RANDOM[rng.below(PATS_RANDOM.len() as u64) as usize])
        }
        1 => {
            let tys = ["u8", "u16", "u32", "u64", "u128", "usize", "i8", "i16", "i32", "i64", "i128", "isize"];
            match rng.below(4) {
                0 => Op::ParseBool,
                1 => Op::Skip(rng.below(6) as usize),
                2 => Op::SkipBack(rng.below(6) as usize),
                _ => {
                    if rng.below(3) == 0 {
                        Op::PwInt(tys[rng.below(12) as usize])
                    } else {
                        Op::ParseInt(tys[rng.below(12) as usize])
                    }
                }
            }
        }
        _ => ops[rng.below(ops.len() as u64) as usize],
    }
}

fn random_hay(rng: &mut Rng, max_tokens: u64) -> String {
    const TOK: [&str; 16] =
        [" ", ",", "a", "ñ", "1", "-", "true", "false", "b", "\t", "€", "12", "ab", "a,", "\u{1F600}", "300"];
    let n = rng.below(max_tokens + 1);
    let mut s = String::new();
    for _ in 0..n {
        // the first five tokens (the exhaustive alphabet) are drawn more often
        let i = if rng.below(2) == 0 { rng.below(5) } else { rng.below(TOK.len() as u64) };
        s.push_str(TOK[i as usize]);
    }
    s
}

pub fn run_mode(mode: Mode, tier: &str, seed: u64, out: &mut Out) {
    let thorough = tier == "thorough";
    let alphabet: [&[u8]; 5] = [b" ", b",", b"a", "ñ".as_bytes(), b"1"];
    let ops = all_ops();
    let to_str = |w: &Vec<u8>| String::from_utf8(w.clone()).unwrap();

    // corpus: inputs that exposed past defects run first (F3: two-sided trims)
    for (base, hay, hist) in [
        (0usize, "  a  ", vec![Op::Trim]),
        (7, "  a  ", vec![Op::Trim, Op::P(M::StripSuffix, Pat::S("b"))]),
        (0, ",,a,,", vec![Op::P(M::TrimMatches, Pat::S(",")), Op::P(M::StripPrefix, Pat::S("b"))]),
        (7, "ña a,", vec![Op::P(M::Rsplit, Pat::S(",")), Op::P(M::RfindSkip, Pat::S("b"))]),
    ] {
        run_history(out, mode, base, hay, &hist, true);
    }

    // depth 1: every operation x every string up to L1 letters x both bases
    let l1 = if thorough { 6 } else { 5 };
    let words1: Vec<String> = all_words(&alphabet, l1).iter().map(to_str).collect();
    for w in &words1 {
        for base in [0usize, 7] {
            for op in &ops {
                run_history(out, mode, base, w, &[*op], w.chars().count() <= 3);
            }
        }
    }
    // parse_*: every string of at most 3 tokens over {true,false,-1,12,300,a,space,U+00F1} x a parse
    // operation x a second operation from a small set (both orders) x both bases
    {
        let ptoks: [&[u8]; 10] = [b"true", b"false", b"-1", b"12", b"300", b"a", b" ", "ñ".as_bytes(), b"-0", b"0"];
        let pops = [Op::ParseBool, Op::ParseInt("u8"), Op::ParseInt("i8"), Op::ParseInt("i16"), Op::ParseInt("u64"),
                    Op::PwInt("u8"), Op::PwInt("i16"), Op::PwBool];
        let others = [
            Op::TrimStart, Op::Trim, Op::SkipBack(1), Op::Skip(1), Op::P(M::StripPrefix, Pat::S("true")),
            Op::P(M::Split, Pat::S(" ")), Op::P(M::RfindSkip, Pat::S("a")), Op::ParseBool, Op::ParseInt("i8"),
            Op::P(M::StripSuffix, Pat::C('ñ')),
        ];
        for w in all_words(&ptoks, 3).iter().map(to_str) {
            for base in [0usize, 7] {
                for a in &pops {
                    run_history(out, mode, base, &w, &[*a], false);
                    for b2 in &others {
                        run_history(out, mode, base, &w, &[*a, *b2], false);
                        run_history(out, mode, base, &w, &[*b2, *a], false);
                    }
                }
            }
        }
    }
    // ASCII whitespace: every string of at most 4 tokens over all five whitespace bytes, vertical tab (NOT
    // whitespace), a letter and a 2-byte char x the three whitespace trims, alone and followed by an operation that
    // reports the offsets again (added after seeded change C13-r4-2: Parser::trim counted the leading whitespace with
    // a byte list that lacked form feed)
    {
        let wtoks: [&[u8]; 8] = [b" ", b"\t", b"\n", b"\x0C", b"\r", b"\x0B", b"x", "ñ".as_bytes()];
        let trims = [Op::Trim, Op::TrimStart, Op::TrimEnd];
        let seconds = [Op::ParseInt("u8"), Op::P(M::StripSuffix, Pat::S("b")), Op::Skip(1)];
        for w in all_words(&wtoks, 4).iter().map(to_str) {
            for base in [0usize, 7] {
                for t in &trims {
                    run_history(out, mode, base, &w, &[*t], false);
                    if base == 0 {
                        for s2 in &seconds {
                            run_history(out, mode, base, &w, &[*t, *s2], false);
                        }
                    }
                }
            }
        }
    }
    // self-overlapping ("bordered") needles on strings over {a, b}: front and back matches of a two-sided
    // trim can share bytes, find/rfind can overlap; alone and after an operation that moved the start
    {
        let ab: [&[u8]; 2] = [b"a", b"b"];
        let bordered = [Pat::S("aba"), Pat::S("aa"), Pat::S("abab"), Pat::S("a"), Pat::S("bab")];
        let firsts = [None, Some(Op::Skip(1)), Some(Op::P(M::StripSuffix, Pat::S("a"))), Some(Op::P(M::FindSkip, Pat::S("b")))];
        let lb = if thorough { 8 } else { 6 };
        for w in all_words(&ab, lb).iter().map(to_str) {
            for (wi, base) in [0usize, 7].iter().enumerate() {
                for m in PAT_METHODS {
                    for p in bordered {
                        for f in &firsts {
                            // keep the volume down: the prefixed variants only for one base
                            if f.is_some() && wi == 1 {
                                continue;
                            }
                            match f {
                                None => run_history(out, mode, *base, &w, &[Op::P(m, p)], false),
                                Some(f) => run_history(out, mode, *base, &w, &[*f, Op::P(m, p)], false),
                            }
                        }
                    }
                }
            }
        }
    }
    // depth 2: every ordered pair of operations x every string up to L2 letters; the base alternates
    // with the string (both bases for every string in the thorough tier)
    let l2 = if thorough { 4 } else { 3 };
    let words2: Vec<String> = all_words(&alphabet, l2).iter().map(to_str).collect();
    for (wi, w) in words2.iter().enumerate() {
        let bases: &[usize] = if thorough { &[0, 7] } else if wi % 2 == 0 { &[0] } else { &[7] };
        for &base in bases {
            for a in &ops {
                for b2 in &ops {
                    run_history(out, mode, base, w, &[*a, *b2], false);
                }
            }
        }
    }
    // depth 3 (thorough: also depth 4): a seeded sample of the operation triples for every string up
    // to L3 letters
    let mut rng = Rng(seed ^ 0xC13C14);
    let l3 = if thorough { 5 } else { 4 };
    let words3: Vec<String> = all_words(&alphabet, l3).iter().map(to_str).collect();
    let per_word = if thorough { 1500 } else { 260 };
    for w in &words3 {
        for k in 0..per_word {
            let depth = if thorough && k % 3 == 0 { 4 } else { 3 };
            let hist: Vec<Op> = (0..depth).map(|_| ops[rng.below(ops.len() as u64) as usize]).collect();
            let base = if rng.below(2) == 0 { 0 } else { 7 };
            run_history(out, mode, base, w, &hist, k % 16 == 0);
        }
    }
    // long random histories over a richer alphabet (numbers, "true"/"false", 3- and 4-byte chars)
    let (n_random, len) = if thorough { (120_000, 30) } else { (25_000, 12) };
    for k in 0..n_random {
        let hay = random_hay(&mut rng, 10);
        let hist: Vec<Op> = (0..len).map(|_| random_op(&mut rng, &ops)).collect();
        let base = [0usize, 7, 1, 4_000_000][rng.below(4) as usize];
        run_history(out, mode, base, &hay, &hist, k % 8 == 0);
    }

    if mode == Mode::C14 {
        // the split protocols: every string up to LP letters x non-empty delimiters
        let palpha: [&[u8]; 4] = [b",", b"a", "ñ".as_bytes(), b" "];
        let lp = if thorough { 8 } else { 6 };
        let delims = [Pat::S(","), Pat::C(','), Pat::C('ñ'), Pat::S("a,"), Pat::S(",,"), Pat::S("ab"), Pat::S(",a,")];
        for w in all_words(&palpha, lp).iter().map(to_str) {
            for d in delims {
                for m in [M::Split, M::Rsplit, M::SplitTerminator, M::RsplitTerminator] {
                    protocol(out, m, &w, d);
                }
            }
        }
        for _ in 0..(if thorough { 60_000 } else { 8_000 }) {
            let hay = random_hay(&mut rng, 14);
            let d = if rng.below(2) == 0 {
                PATS_RANDOM[rng.below(PATS_RANDOM.len() as u64) as usize]
            } else {
                delims[rng.below(delims.len() as u64) as usize]
            };
            let m = [M::Split, M::Rsplit, M::SplitTerminator, M::RsplitTerminator][rng.below(4) as usize];
            protocol(out, m, &hay, d);
        }
    }
}

pub fn run(tier: &str, seed: u64, out: &mut Out) {
    run_mode(Mode::C13, tier, seed, out)
}

pub fn run_c14(tier: &str, seed: u64, out: &mut Out) {
    run_mode(Mode::C14, tier, seed, out)
}
