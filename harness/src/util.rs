#![allow(dead_code)]
//! Shared helpers: canonical rendering, transcript writer, panic capture, PRNG.
use std::io::{BufWriter, Write};
use std::panic::catch_unwind;

pub fn hex(b: &[u8]) -> String {
    if b.is_empty() {
        return "-".to_string();
    }
    let mut s = String::with_capacity(b.len() * 2);
    for x in b {
        s.push_str(&format!("{:02x}", x));
    }
    s
}

/// canonical view of `sub` relative to `base`: `v:<off>:<len>`; the offset of an empty result and of
/// zero-sized elements is not observable and printed as `_`; a non-empty result that is not inside
/// `base` is printed as `v:OUTSIDE:<len>` (this is the "borrows a sub-range" half of C01).
pub fn view_raw<T>(base: *const T, base_len: usize, sub: *const T, sub_len: usize) -> String {
    if sub_len == 0 {
        return "v:_:0".to_string();
    }
    let sz = std::mem::size_of::<T>();
    if sz == 0 {
        return format!("v:_:{}", sub_len);
    }
    let b = base as usize;
    let s = sub as usize;
    if s < b || (s - b) % sz != 0 || (s - b) / sz + sub_len > base_len {
        return format!("v:OUTSIDE:{}", sub_len);
    }
    format!("v:{}:{}", (s - b) / sz, sub_len)
}

pub fn view<T>(base: &[T], sub: &[T]) -> String {
    view_raw(base.as_ptr(), base.len(), sub.as_ptr(), sub.len())
}

pub fn view_str(base: &str, sub: &str) -> String {
    view(base.as_bytes(), sub.as_bytes())
}

pub fn opt_view<T>(base: &[T], sub: Option<&[T]>) -> String {
    match sub {
        None => "none".to_string(),
        Some(s) => view(base, s),
    }
}

pub fn opt_view_str(base: &str, sub: Option<&str>) -> String {
    match sub {
        None => "none".to_string(),
        Some(s) => view_str(base, s),
    }
}

pub fn opt_usize(x: Option<usize>) -> String {
    match x {
        None => "none".to_string(),
        Some(n) => format!("some:{}", n),
    }
}

pub fn b(x: bool) -> &'static str {
    if x {
        "t"
    } else {
        "f"
    }
}

/// run `f`, mapping a panic to the token `panic`
pub fn catch<F: FnOnce() -> String>(f: F) -> String {
    match catch_unwind(std::panic::AssertUnwindSafe(f)) {
        Ok(s) => s,
        Err(_) => "panic".to_string(),
    }
}

pub struct Out {
    w: BufWriter<std::io::Stdout>,
    pub n: u64,
    flush_each: bool,
}

impl Out {
    pub fn new() -> Self {
        Out { w: BufWriter::with_capacity(1 << 20, std::io::stdout()), n: 0, flush_each: std::env::var("KH_FLUSH").is_ok() }
    }
    /// one transcript line: request, implementation result, oracle (std) result, scope tag
    pub fn emit(&mut self, req: &str, imp: &str, oracle: &str, in_scope: bool) {
        self.n += 1;
        writeln!(self.w, "{}\t{}\t{}\t{}", req, imp, oracle, if in_scope { "in" } else { "out" }).unwrap();
        if self.flush_each {
            // crash-localisation mode: the last line on stdout is the last request that completed
            self.w.flush().unwrap();
        }
    }
    pub fn finish(mut self) {
        self.w.flush().unwrap();
    }
}

/// splitmix64: every random choice of the harness derives from one state seeded by VERIF_SEED
pub struct Rng(pub u64);
impl Rng {
    pub fn next(&mut self) -> u64 {
        self.0 = self.0.wrapping_add(0x9E3779B97F4A7C15);
        let mut z = self.0;
        z = (z ^ (z >> 30)).wrapping_mul(0xBF58476D1CE4E5B9);
        z = (z ^ (z >> 27)).wrapping_mul(0x94D049BB133111EB);
        z ^ (z >> 31)
    }
    pub fn below(&mut self, n: u64) -> u64 {
        self.next() % n
    }
}

/// characters whose encodings contain the extreme lead / continuation bytes
/// (00 | 7F | C2 80 | DF BF | E0 A0 80 | ED 9F BF | EE 80 80 | EF BF BF | F0 90 80 80 | F4 8F BF BF)
pub const RARE_CHARS: [char; 10] =
    ['\u{0}', '\u{7F}', '\u{80}', '\u{7FF}', '\u{800}', '\u{D7FF}', '\u{E000}', '\u{FFFF}', '\u{10000}', '\u{10FFFF}'];

/// a random scalar value: the four encoded lengths with equal weight, the rare ones over-represented
pub fn rand_char(rng: &mut Rng) -> char {
    loop {
        let v = match rng.below(6) {
            0 => rng.below(0x80),
            1 => 0x80 + rng.below(0x800 - 0x80),
            2 => 0x800 + rng.below(0x10000 - 0x800),
            3 => 0x10000 + rng.below(0x110000 - 0x10000),
            // continuation bytes 80 / BF in every position
            4 => [0x80u64, 0xBF, 0xFF, 0x7BF, 0x840, 0xFFF, 0x1000, 0xFFC0, 0x1003F, 0x3F000, 0x3FFFF, 0x40000, 0xFFFFF, 0x100000, 0x10FFC0]
                [rng.below(15) as usize],
            _ => RARE_CHARS[rng.below(RARE_CHARS.len() as u64) as usize] as u64,
        } as u32;
        if let Some(c) = char::from_u32(v) {
            return c;
        }
    }
}

/// a random string of `min..=max` chars mixing 1/2/3/4-byte characters
pub fn rand_string(rng: &mut Rng, min: usize, max: usize) -> String {
    let k = min + rng.below((max - min + 1) as u64) as usize;
    (0..k).map(|_| rand_char(rng)).collect()
}

/// all strings over `alphabet` (each letter a byte string) with at most `max` letters
pub fn all_words(alphabet: &[&[u8]], max: usize) -> Vec<Vec<u8>> {
    let mut out: Vec<Vec<u8>> = vec![vec![]];
    let mut layer: Vec<Vec<u8>> = vec![vec![]];
    for _ in 0..max {
        let mut next = Vec::new();
        for w in &layer {
            for a in alphabet {
                let mut x = w.clone();
                x.extend_from_slice(a);
                next.push(x);
            }
        }
        out.extend(next.iter().cloned());
        layer = next;
    }
    out
}

// ---------------------------------------------------------------------------------------------
// drop-logging element with unique ids (C11/C15): appended by the C11/C15 builder
// ---------------------------------------------------------------------------------------------
pub mod elog {
    use std::cell::{Cell, RefCell};
    thread_local! {
        static LOG: RefCell<Vec<String>> = RefCell::new(Vec::new());
        static VALS: RefCell<Vec<u32>> = RefCell::new(Vec::new());
        static CORRUPT: Cell<bool> = Cell::new(false);
        /// `Some(k)`: the `Clone` impls below panic on the k-th call from now (counted from 0), once
        static CLONE_PANIC: Cell<Option<u32>> = Cell::new(None);
        /// zero-sized tokens: (created, dropped, moved to the caller)
        static ZC: Cell<(u32, u32, u32)> = Cell::new((0, 0, 0));
    }
    /// element with identity: `id` is its creation number, `val` a payload that must survive every move
    pub struct E {
        pub id: u32,
        pub val: u32,
    }
    pub fn reset() {
        LOG.with(|l| l.borrow_mut().clear());
        VALS.with(|v| v.borrow_mut().clear());
        CORRUPT.with(|c| c.set(false));
        CLONE_PANIC.with(|c| c.set(None));
        ZC.with(|c| c.set((0, 0, 0)));
    }
    /// make `E::clone` / `Z::clone` panic on their j-th call from now (j = 0: the next call); fires once
    pub fn arm_clone_panic(j: u32) {
        CLONE_PANIC.with(|c| c.set(Some(j)));
    }
    pub fn disarm_clone_panic() {
        CLONE_PANIC.with(|c| c.set(None));
    }
    /// called first thing by every `clone`: panics BEFORE a copy is created
    fn clone_gate() {
        CLONE_PANIC.with(|c| match c.get() {
            Some(0) => {
                c.set(None);
                panic!("element Clone panics");
            }
            Some(k) => c.set(Some(k - 1)),
            None => {}
        });
    }
    fn fresh(val: u32) -> E {
        let id = VALS.with(|v| {
            let mut v = v.borrow_mut();
            v.push(val);
            (v.len() - 1) as u32
        });
        E { id, val }
    }
    /// a new element; payload derived from the id
    pub fn new() -> E {
        let n = VALS.with(|v| v.borrow().len() as u32);
        fresh(n.wrapping_mul(2654435761).rotate_left(7) ^ 0x5bd1e995)
    }
    /// a new element with a chosen payload
    pub fn with_val(val: u32) -> E {
        fresh(val)
    }
    fn check(e: &E) {
        let ok = VALS.with(|v| v.borrow().get(e.id as usize).copied() == Some(e.val));
        if !ok {
            CORRUPT.with(|c| c.set(true));
        }
    }
    pub fn event(id: u32, tag: &str) {
        LOG.with(|l| l.borrow_mut().push(format!("{}:{}", id, tag)));
    }
    impl Drop for E {
        fn drop(&mut self) {
            check(self);
            event(self.id, "d");
        }
    }
    impl Clone for E {
        fn clone(&self) -> E {
            check(self);
            clone_gate();
            fresh(self.val)
        }
    }
    /// the caller receives the element: logged as `tag` (`m` moved to caller, `c` handed to a closure)
    pub fn take_as(e: E, tag: &str) -> u32 {
        check(&e);
        event(e.id, tag);
        let id = e.id;
        std::mem::forget(e);
        id
    }
    pub fn take(e: E) -> u32 {
        take_as(e, "m")
    }
    /// look at an element without moving it
    pub fn peek(e: &E) -> u32 {
        check(e);
        e.id
    }
    pub fn created() -> u32 {
        VALS.with(|v| v.borrow().len() as u32)
    }
    /// `[id:tag;…]` in event order; `CORRUPT` if any payload changed
    pub fn log() -> String {
        if CORRUPT.with(|c| c.get()) {
            return "CORRUPT".to_string();
        }
        LOG.with(|l| format!("[{}]", l.borrow().join(";")))
    }
    /// ids created but never moved out nor dropped
    pub fn leaked() -> String {
        let seen: Vec<u32> = LOG.with(|l| {
            l.borrow().iter().map(|s| s.split(':').next().unwrap().parse().unwrap()).collect()
        });
        let v: Vec<String> = (0..created()).filter(|i| !seen.contains(i)).map(|i| i.to_string()).collect();
        format!("[{}]", v.join(";"))
    }
    pub fn ids(v: &[u32]) -> String {
        format!("[{}]", v.iter().map(|x| x.to_string()).collect::<Vec<_>>().join(";"))
    }

    // ---- zero-sized token (C11: a ZST cannot carry an id, so its ledger is a set of COUNTERS) ----
    /// a zero-sized element with a destructor; only `znew` / `clone` create one
    pub struct Z(());
    pub fn znew() -> Z {
        ZC.with(|c| {
            let (a, b, m) = c.get();
            c.set((a + 1, b, m));
        });
        Z(())
    }
    impl Drop for Z {
        fn drop(&mut self) {
            ZC.with(|c| {
                let (a, b, m) = c.get();
                c.set((a, b + 1, m));
            });
        }
    }
    impl Clone for Z {
        fn clone(&self) -> Z {
            clone_gate();
            znew()
        }
    }
    /// the caller receives the token (counted as moved, not dropped)
    pub fn ztake(z: Z) {
        ZC.with(|c| {
            let (a, b, m) = c.get();
            c.set((a, b, m + 1));
        });
        std::mem::forget(z);
    }
    /// `Z=<created>,<dropped>,<moved>`
    pub fn zcounts() -> String {
        let (a, b, m) = ZC.with(|c| c.get());
        format!("Z={},{},{}", a, b, m)
    }
    /// tokens created and neither dropped nor moved out (negative: more were dropped than ever created)
    pub fn zlive() -> i64 {
        let (a, b, m) = ZC.with(|c| c.get());
        a as i64 - b as i64 - m as i64
    }
}
