#![allow(dead_code)]
//! Shared helpers: canonical rendering, transcript writer, panic capture, PRNG.
use std::io::{BufWriter, Write};
use std::panic::catch_unwind;

pub fn hex(b: &[u8]) -> String {
    if b.is_empty() {
        return "-".to_string();
    }
    let mut s = String::with_capacity(b.len() * 2);
    for x in b {
        s.push_str(&format!("{:02x}", x));
    }
    s
}

/// canonical view of `sub` relative to `base`: `v:<off>:<len>`; the offset of an empty result and of
/// zero-sized elements is not observable and printed as `_`; a non-empty result that is not inside
/// `base` is printed as `v:OUTSIDE:<len>` (this is the "borrows a sub-range" half of C01).
pub fn view_raw<T>(base: *const T, base_len: usize, sub: *const T, sub_len: usize) -> String {
    if sub_len == 0 {
        return "v:_:0".to_string();
    }
    let sz = std::mem::size_of::<T>();
    if sz == 0 {
        return format!("v:_:{}", sub_len);
    }
    let b = base as usize;
    let s = sub as usize;
    if s < b || (s - b) % sz != 0 || (s - b) / sz + sub_len > base_len {
        return format!("v:OUTSIDE:{}", sub_len);
    }
    format!("v:{}:{}", (s - b) / sz, sub_len)
}

pub fn view<T>(base: &[T], sub: &[T]) -> String {
    view_raw(base.as_ptr(), base.len(), sub.as_ptr(), sub.len())
}

pub fn view_str(base: &str, sub: &str) -> String {
    view(base.as_bytes(), sub.as_bytes())
}

pub fn opt_view<T>(base: &[T], sub: Option<&[T]>) -> String {
    match sub {
        None => "none".to_string(),
        Some(s) => view(base, s),
    }
}

pub fn opt_view_str(base: &str, sub: Option<&str>) -> String {
    match sub {
        None => "none".to_string(),
        Some(s) => view_str(base, s),
    }
}

pub fn opt_usize(x: Option<usize>) -> String {
    match x {
        None => "none".to_string(),
        Some(n) => format!("some:{}", n),
    }
}

pub fn b(x: bool) -> &'static str {
    if x {
        "t"
    } else {
        "f"
    }
}

/// run `f`, mapping a panic to the token `panic`
pub fn catch<F: FnOnce() -> String>(f: F) -> String {
    match catch_unwind(std::panic::AssertUnwindSafe(f)) {
        Ok(s) => s,
        Err(_) => "panic".to_string(),
    }
}

pub struct Out {
    w: BufWriter<std::io::Stdout>,
    pub n: u64,
    flush_each: bool,
}

impl Out {
    pub fn new() -> Self {
        Out { w: BufWriter::with_capacity(1 << 20, std::io::stdout()), n: 0, flush_each: std::env::var("KH_FLUSH").is_ok() }
    }
    /// one transcript line: request, implementation result, oracle (std) result, scope tag
    pub fn emit(&mut self, req: &str, imp: &str, oracle: &str, in_scope: bool) {
        self.n += 1;
        writeln!(self.w, "{}\t{}\t{}\t{}", req, imp, oracle, if in_scope { "in" } else { "out" }).unwrap();
        if self.flush_each {
            // crash-localisation mode: the last line on stdout is the last request that completed
            self.w.flush().unwrap();
        }
    }
    pub fn finish(mut self) {
        self.w.flush().unwrap();
    }
}

/// splitmix64: every random choice of the harness derives from one state seeded by VERIF_SEED
pub struct Rng(pub u64);
impl Rng {
    pub fn next(&mut self) -> u64 {
        self.0 = self.0.wrapping_add(0x9E3779B97F4A7C15);
        let mut z = self.0;
        z = (z ^ (z >> 30)).wrapping_mul(0xBF58476D1CE4E5B9);
        z = (z ^ (z >> 27)).wrapping_mul(0x94D049BB133111EB);
        z ^ (z >> 31)
    }
    pub fn below(&mut self, n: u64) -> u64 {
        self.next() % n
    }
}

/// all strings over `alphabet` (each letter a byte string) with at most `max` letters
pub fn all_words(alphabet: &[&[u8]], max: usize) -> Vec<Vec<u8>> {
    let mut out: Vec<Vec<u8>> = vec![vec![]];
    let mut layer: Vec<Vec<u8>> = vec![vec![]];
    for _ in 0..max {
        let mut next = Vec::new();
        for w in &layer {
            for a in alphabet {
                let mut x = w.clone();
                x.extend_from_slice(a);
                next.push(x);
            }
        }
        out.extend(next.iter().cloned());
        layer = next;
    }
    out
}
