//! C12: integer / bool parsing.  Whole string (`konst::primitive::parse_*`) vs `str::parse`, prefix form
//! (`konst::Parser::parse_*`, `StdParser::parse_with`, `parse_with!`) vs the documented behaviour
//! ("optional '-' for signed types, longest run of ASCII digits, value must fit, failure consumes nothing"),
//! whose value/range part is again delegated to `str::parse` on the consumed piece and cross-checked
//! against a checked-u128 reference.
//!
//! requests (see lean/Driver/C12.lean):
//!   pi.parse <ty> <hex>                 -> ok:<v> | err
//!   pi.pparse <ty> <hex>                -> ok:<v>:<remainder-len> | err
//!   pi.pwith <ty> <hex>                 -> same, through HasParser / parse_with!
//!   pi.pparse_at <ty> <s|e> <base> <hex>-> ok:<v>:<remainder-len>:<start_offset>:<end_offset>:<dir>
//!                                        | err:<offset()>:<kind>:<error_direction()>
use crate::util::*;
use konst::parsing::{ErrorKind, HasParser, ParseDirection, ParseValueResult};
use konst::Parser;

pub const INT_TYPES: [&str; 12] =
    ["u8", "u16", "u32", "u64", "u128", "usize", "i8", "i16", "i32", "i64", "i128", "isize"];

trait Tok {
    fn tok(&self) -> String;
}
macro_rules! tok_int { ($($t:ty),*) => { $(impl Tok for $t { fn tok(&self) -> String { self.to_string() } })* } }
tok_int!(u8, u16, u32, u64, u128, usize, i8, i16, i32, i64, i128, isize);
impl Tok for bool {
    fn tok(&self) -> String {
        b(*self).to_string()
    }
}

/// run `$mac!(type, parse_method, args…)` for the type named by `$ty`
macro_rules! dispatch {
    ($ty:expr, $mac:ident, $($args:tt)*) => {
        match $ty {
            "u8" => $mac!(u8, parse_u8, $($args)*),
            "u16" => $mac!(u16, parse_u16, $($args)*),
            "u32" => $mac!(u32, parse_u32, $($args)*),
            "u64" => $mac!(u64, parse_u64, $($args)*),
            "u128" => $mac!(u128, parse_u128, $($args)*),
            "usize" => $mac!(usize, parse_usize, $($args)*),
            "i8" => $mac!(i8, parse_i8, $($args)*),
            "i16" => $mac!(i16, parse_i16, $($args)*),
            "i32" => $mac!(i32, parse_i32, $($args)*),
            "i64" => $mac!(i64, parse_i64, $($args)*),
            "i128" => $mac!(i128, parse_i128, $($args)*),
            "isize" => $mac!(isize, parse_isize, $($args)*),
            "bool" => $mac!(bool, parse_bool, $($args)*),
            _ => unreachable!("type {}", $ty),
        }
    };
}

fn dir_tok(d: ParseDirection) -> &'static str {
    match d {
        ParseDirection::FromStart => "start",
        ParseDirection::FromEnd => "end",
        ParseDirection::FromBoth => "both",
    }
}
fn kind_tok(k: ErrorKind) -> &'static str {
    match k {
        ErrorKind::ParseInteger => "int",
        ErrorKind::ParseBool => "bool",
        _ => "other",
    }
}

/// length of the remainder, provided it really is the tail of `s` (same memory), else `BADREM`
fn rem_len(s: &str, rem: &str) -> String {
    if rem.is_empty() {
        return "0".into();
    }
    let (b0, r0) = (s.as_ptr() as usize, rem.as_ptr() as usize);
    if r0 >= b0 && r0 - b0 + rem.len() == s.len() {
        rem.len().to_string()
    } else {
        "BADREM".into()
    }
}

fn show_prefix<T: Tok>(s: &str, r: ParseValueResult<'_, T>, full: bool) -> String {
    match r {
        Ok((v, p)) => {
            if full {
                format!(
                    "ok:{}:{}:{}:{}:{}",
                    v.tok(),
                    rem_len(s, p.remainder()),
                    p.start_offset(),
                    p.end_offset(),
                    dir_tok(p.parse_direction())
                )
            } else {
                format!("ok:{}:{}", v.tok(), rem_len(s, p.remainder()))
            }
        }
        Err(e) => {
            if full {
                format!("err:{}:{}:{}", e.offset(), kind_tok(e.kind()), dir_tok(e.error_direction()))
            } else {
                "err".into()
            }
        }
    }
}

// ------------------------------------------------------------------------------------------------
// oracles
// ------------------------------------------------------------------------------------------------

/// The documented split: optional '-' (signed types only) + the longest run of ASCII digits.
/// Returns (consumed length, number of digits).
fn split_point(signed: bool, s: &str) -> (usize, usize) {
    let bytes = s.as_bytes();
    let sign = if signed && bytes.first() == Some(&b'-') { 1 } else { 0 };
    let nd = bytes[sign..].iter().take_while(|c| c.is_ascii_digit()).count();
    (sign + nd, nd)
}

/// checked-u128 reference for the value of `-?[0-9]+` in a type with the given maximum
/// (`max` = T::MAX as u128; signed minimum = -(max+1)).  Some(decimal text) if it fits.
fn reference_value(signed: bool, max: u128, piece: &str) -> Option<String> {
    let neg = signed && piece.starts_with('-');
    let digits = if neg { &piece[1..] } else { piece };
    if digits.is_empty() || !digits.bytes().all(|c| c.is_ascii_digit()) {
        return None;
    }
    let mut mag: Option<u128> = Some(0);
    for c in digits.bytes() {
        mag = mag.and_then(|m| m.checked_mul(10)).and_then(|m| m.checked_add((c - b'0') as u128));
    }
    let mag = mag?; // beyond u128: fits no type
    let limit = if neg { max.checked_add(1).unwrap_or(u128::MAX) } else { max };
    // (for i128, max+1 = 2^127 fits in u128; for unsigned types `neg` is never true)
    if mag > limit {
        return None;
    }
    Some(if neg && mag != 0 { format!("-{}", mag) } else { mag.to_string() })
}

macro_rules! type_facts {
    (bool, $m:ident,) => {
        (false, 0u128)
    };
    ($t:ty, $m:ident,) => {
        (<$t>::MIN != 0, <$t>::MAX as u128)
    };
}

/// whole string: real konst vs real std (+ the checked reference as a cross-check of the oracle)
macro_rules! whole_mac {
    (bool, $m:ident, $s:expr) => {{
        let s: &str = $s;
        let imp = catch(|| match konst::primitive::parse_bool(s) {
            Ok(v) => format!("ok:{}", v.tok()),
            Err(_) => "err".into(),
        });
        let ora = match s.parse::<bool>() {
            Ok(v) => format!("ok:{}", v.tok()),
            Err(_) => "err".into(),
        };
        (imp, ora)
    }};
    ($t:ty, $m:ident, $s:expr) => {{
        let s: &str = $s;
        let imp = catch(|| match konst::primitive::$m(s) {
            Ok(v) => format!("ok:{}", v.tok()),
            Err(_) => "err".into(),
        });
        let mut ora = match s.parse::<$t>() {
            Ok(v) => format!("ok:{}", v.tok()),
            Err(_) => "err".into(),
        };
        if !s.starts_with('+') {
            let (signed, max) = type_facts!($t, $m,);
            let r = match reference_value(signed, max, s) {
                Some(v) => format!("ok:{}", v),
                None => "err".into(),
            };
            if r != ora {
                ora = format!("ORACLE-SPLIT[std={}|ref={}]", ora, r);
            }
        }
        (imp, ora)
    }};
}

#[derive(Clone, Copy, PartialEq)]
enum Via {
    Method,
    StdParser,
    Macro,
}

/// prefix form: real konst vs the documented behaviour
macro_rules! prefix_mac {
    (bool, $m:ident, $s:expr, $via:expr, $full:expr, $base:expr, $from_end:expr) => {{
        let s: &str = $s;
        let (via, full, base, from_end): (Via, bool, usize, bool) = ($via, $full, $base, $from_end);
        let imp = catch(|| {
            let mut p = Parser::with_start_offset(s, base);
            if from_end {
                p = p.skip_back(0);
            }
            let r = match via {
                Via::Method => p.parse_bool(),
                Via::StdParser => <bool as HasParser>::Parser::parse_with(p),
                Via::Macro => konst::parse_with!(p, bool),
            };
            show_prefix(s, r, full)
        });
        let hit = if s.starts_with("true") {
            Some((true, 4))
        } else if s.starts_with("false") {
            Some((false, 5))
        } else {
            None
        };
        let ora = match hit {
            Some((v, k)) => {
                if full {
                    format!("ok:{}:{}:{}:{}:start", v.tok(), s.len() - k, base + k, base + s.len())
                } else {
                    format!("ok:{}:{}", v.tok(), s.len() - k)
                }
            }
            None => {
                if full {
                    format!("err:{}:bool:start", base)
                } else {
                    "err".into()
                }
            }
        };
        (imp, ora)
    }};
    ($t:ty, $m:ident, $s:expr, $via:expr, $full:expr, $base:expr, $from_end:expr) => {{
        let s: &str = $s;
        let (via, full, base, from_end): (Via, bool, usize, bool) = ($via, $full, $base, $from_end);
        let imp = catch(|| {
            let mut p = Parser::with_start_offset(s, base);
            if from_end {
                p = p.skip_back(0);
            }
            let r = match via {
                Via::Method => p.$m(),
                Via::StdParser => <$t as HasParser>::Parser::parse_with(p),
                Via::Macro => konst::parse_with!(p, $t),
            };
            show_prefix(s, r, full)
        });
        let (signed, max) = type_facts!($t, $m,);
        let (k, nd) = split_point(signed, s);
        // value and range of the consumed piece: the real std
        let std_v: Option<String> = if nd == 0 { None } else { s[..k].parse::<$t>().ok().map(|v| v.tok()) };
        let ref_v = if nd == 0 { None } else { reference_value(signed, max, &s[..k]) };
        let ora = if std_v != ref_v {
            format!("ORACLE-SPLIT[std={:?}|ref={:?}]", std_v, ref_v)
        } else {
            match std_v {
                Some(v) => {
                    if full {
                        format!("ok:{}:{}:{}:{}:start", v, s.len() - k, base + k, base + s.len())
                    } else {
                        format!("ok:{}:{}", v, s.len() - k)
                    }
                }
                None => {
                    if full {
                        format!("err:{}:int:start", base)
                    } else {
                        "err".into()
                    }
                }
            }
        };
        (imp, ora)
    }};
}

fn emit_parse(out: &mut Out, ty: &str, s: &str) {
    let (imp, ora) = dispatch!(ty, whole_mac, s);
    // the property speaks about strings without a leading '+' (std accepts "+5", konst does not)
    out.emit(&format!("pi.parse {} {}", ty, hex(s.as_bytes())), &imp, &ora, !s.starts_with('+'));
}
fn emit_pparse(out: &mut Out, ty: &str, s: &str) {
    let (imp, ora) = dispatch!(ty, prefix_mac, s, Via::Method, false, 0, false);
    out.emit(&format!("pi.pparse {} {}", ty, hex(s.as_bytes())), &imp, &ora, true);
}
fn emit_pwith(out: &mut Out, ty: &str, s: &str, mac: bool) {
    let (imp, ora) = dispatch!(ty, prefix_mac, s, if mac { Via::Macro } else { Via::StdParser }, false, 0, false);
    out.emit(&format!("pi.pwith {} {}", ty, hex(s.as_bytes())), &imp, &ora, true);
}
fn emit_at(out: &mut Out, ty: &str, from_end: bool, base: usize, s: &str) {
    let (imp, ora) = dispatch!(ty, prefix_mac, s, Via::Method, true, base, from_end);
    let pre = if from_end { "e" } else { "s" };
    out.emit(&format!("pi.pparse_at {} {} {} {}", ty, pre, base, hex(s.as_bytes())), &imp, &ora, true);
}
fn emit_both(out: &mut Out, ty: &str, s: &str) {
    emit_parse(out, ty, s);
    emit_pparse(out, ty, s);
}

// ------------------------------------------------------------------------------------------------
// decimal strings (numbers beyond u128 are needed around u128::MAX and for the extra-digit forms)
// ------------------------------------------------------------------------------------------------

fn dec_norm(mut v: Vec<u8>) -> String {
    while v.len() > 1 && v[0] == 0 {
        v.remove(0);
    }
    v.iter().map(|d| (b'0' + d) as char).collect()
}
fn dec_digits(s: &str) -> Vec<u8> {
    s.bytes().map(|c| c - b'0').collect()
}
/// mag * k + add   (k, add small)
fn dec_mul_add(mag: &str, k: u32, add: u32) -> String {
    let mut d = dec_digits(mag);
    let mut carry = add;
    for x in d.iter_mut().rev() {
        let t = *x as u32 * k + carry;
        *x = (t % 10) as u8;
        carry = t / 10;
    }
    while carry > 0 {
        d.insert(0, (carry % 10) as u8);
        carry /= 10;
    }
    dec_norm(d)
}
/// mag - k if that is >= 0
fn dec_sub(mag: &str, k: u32) -> Option<String> {
    if mag.len() <= 9 && mag.parse::<u32>().unwrap() < k {
        return None;
    }
    let mut d = dec_digits(mag);
    let mut borrow = k;
    for x in d.iter_mut().rev() {
        if borrow == 0 {
            break;
        }
        let sub = borrow % 10;
        borrow /= 10;
        if (*x as u32) >= sub {
            *x -= sub as u8;
        } else {
            *x = (*x as u32 + 10 - sub) as u8;
            borrow += 1;
        }
    }
    Some(dec_norm(d))
}
fn pow2(bits: u32) -> String {
    let mut s = "1".to_string();
    for _ in 0..bits {
        s = dec_mul_add(&s, 2, 0);
    }
    s
}
/// signed number (neg, mag) + delta
fn sadd(neg: bool, mag: &str, delta: i32) -> (bool, String) {
    let towards_zero = (delta < 0) != neg; // delta reduces the magnitude
    let k = delta.unsigned_abs();
    if !towards_zero || k == 0 {
        (neg, dec_mul_add(mag, 1, k))
    } else {
        match dec_sub(mag, k) {
            Some(m) => (neg && m != "0", m),
            None => {
                let m = k - mag.parse::<u32>().unwrap();
                (!neg, m.to_string())
            }
        }
    }
}
fn show_signed(neg: bool, mag: &str) -> String {
    if neg {
        format!("-{}", mag)
    } else {
        mag.to_string()
    }
}

fn bits_of(ty: &str) -> u32 {
    match ty {
        "u8" | "i8" => 8,
        "u16" | "i16" => 16,
        "u32" | "i32" => 32,
        "u64" | "i64" | "usize" | "isize" => 64,
        _ => 128,
    }
}

const SUFFIXES: [&str; 14] = ["", "a", " ", "-", "+", "٣", "-1", ".5", "e3", "_0", "\0", "/", ":", " 7"];

// ------------------------------------------------------------------------------------------------
// generators
// ------------------------------------------------------------------------------------------------

/// every value of the 8- and 16-bit types (and a margin around their ranges): plain, with leading
/// zeros, with "-0"; whole and prefix (suffix rotating)
fn gen_small_values(out: &mut Out, thorough: bool) {
    let mut n = 0usize;
    // 8-bit neighbourhood against every integer type
    for v in -400i32..=400 {
        let plain = v.to_string();
        let (sign, digits) = if v < 0 { ("-", &plain[1..]) } else { ("", &plain[..]) };
        let forms = [plain.clone(), format!("{}0{}", sign, digits), format!("{}000{}", sign, digits), format!("-{}", plain)];
        for ty in INT_TYPES {
            for f in &forms {
                emit_parse(out, ty, f);
                n += 1;
                let t = format!("{}{}", f, SUFFIXES[n % SUFFIXES.len()]);
                emit_pparse(out, ty, &t);
            }
        }
    }
    for ty in INT_TYPES {
        for z in ["-0", "-00", "-000", "0", "00", "-", "--0", "-0-", "0-0", "-0x"] {
            emit_both(out, ty, z);
        }
    }
    // every value of the 16-bit types
    for (ty, lo, hi) in [("u16", -300i32, 65535 + 300), ("i16", -32768 - 300, 32767 + 300)] {
        for v in lo..=hi {
            let plain = v.to_string();
            emit_parse(out, ty, &plain);
            n += 1;
            let t = format!("{}{}", plain, SUFFIXES[n % SUFFIXES.len()]);
            emit_pparse(out, ty, &t);
            let (sign, digits) = if v < 0 { ("-", &plain[1..]) } else { ("", &plain[..]) };
            if thorough || v % 3 == 0 || (v - lo) < 700 || (hi - v) < 700 || v.abs() < 400 {
                let z = format!("{}{}{}", sign, "0".repeat(1 + (n % 4)), digits);
                emit_parse(out, ty, &z);
                if thorough {
                    emit_pparse(out, ty, &format!("{}{}", z, SUFFIXES[(n / 3) % SUFFIXES.len()]));
                }
            }
        }
    }
    // the 16-bit ranges seen by the 8-bit types and the wider ones (thorough)
    if thorough {
        for v in (-66000i32..=66000).step_by(1) {
            let plain = v.to_string();
            for ty in ["u8", "i8", "u32", "i32"] {
                emit_parse(out, ty, &plain);
            }
        }
    }
}

/// all strings up to length k over {0,1,9,-,+,a,' ',٣}
fn gen_words(out: &mut Out, thorough: bool) {
    let alphabet: [&[u8]; 8] = [b"0", b"1", b"9", b"-", b"+", b"a", b" ", "٣".as_bytes()];
    let k = if thorough { 5 } else { 4 };
    let at_k = if thorough { 4 } else { 3 };
    let words = all_words(&alphabet, k + 1);
    let nletters = |w: &Vec<u8>| String::from_utf8_lossy(w).chars().count();
    for w in &words {
        let s = std::str::from_utf8(w).unwrap();
        let len = nletters(w);
        for ty in INT_TYPES {
            // the longest words only for a narrow, a wide signed and the widest unsigned type
            if len > k && !(ty == "u8" || ty == "i8" || (thorough && (ty == "i64" || ty == "u128"))) {
                continue;
            }
            emit_both(out, ty, s);
            if len <= 3 {
                emit_pwith(out, ty, s, len % 2 == 0);
            }
            if len <= at_k {
                for base in [0usize, 7] {
                    for from_end in [false, true] {
                        emit_at(out, ty, from_end, base, s);
                    }
                }
            }
        }
        if len <= 2 {
            emit_both(out, "bool", s);
        }
    }
    // the neighbours of the digit range in ASCII ('/' = '0'-1, ':' = '9'+1) and other classes
    let edge: [&[u8]; 6] = [b"5", b"/", b":", b"-", b"8", "٠".as_bytes()];
    for w in all_words(&edge, 3) {
        let s = std::str::from_utf8(&w).unwrap();
        for ty in INT_TYPES {
            emit_both(out, ty, s);
            emit_at(out, ty, false, 3, s);
        }
    }
}

/// MIN/MAX ±2, wrap points of the unsigned twin, powers of ten, each plain / with leading zeros /
/// with one more digit / negated, whole and with suffixes
fn gen_neighbourhoods(out: &mut Out, thorough: bool) {
    let mut n = 0usize;
    for ty in INT_TYPES {
        let bits = bits_of(ty);
        let signed = ty.starts_with('i');
        let full = pow2(bits); // 2^bits      (wrap point of the unsigned twin)
        let half = pow2(bits - 1); // 2^(bits-1)  (|MIN| of the signed type)
        let mut centres: Vec<(bool, String)> = vec![(false, "0".into()), (false, full.clone()), (true, full.clone())];
        centres.push((false, half.clone()));
        centres.push((true, half.clone()));
        centres.push((false, dec_mul_add(&full, 2, 0)));
        centres.push((false, dec_mul_add(&full, 10, 0)));
        centres.push((true, dec_mul_add(&full, 10, 0)));
        // MAX/10 and MAX/10+1 region: where `overflowing_mul(10)` starts to fire
        let tenth = {
            let f = if signed { &half } else { &full };
            f[..f.len() - 1].to_string()
        };
        centres.push((false, tenth.clone()));
        centres.push((true, tenth));
        let ndig = full.len();
        for k in [1usize, 2, ndig - 2, ndig - 1, ndig, ndig + 1] {
            let p = format!("1{}", "0".repeat(k));
            centres.push((false, p.clone()));
            centres.push((true, p));
        }
        for (cneg, cmag) in &centres {
            for delta in -2i32..=2 {
                let (neg, mag) = sadd(*cneg, cmag, delta);
                let mut forms: Vec<String> = vec![show_signed(neg, &mag)];
                let sign = if neg { "-" } else { "" };
                for z in [1usize, 3, 40] {
                    forms.push(format!("{}{}{}", sign, "0".repeat(z), mag));
                }
                for d in 0..10u32 {
                    // one extra digit at the end
                    forms.push(format!("{}{}{}", sign, mag, d));
                }
                for d in ["1", "9"] {
                    // one extra digit in front
                    forms.push(format!("{}{}{}", sign, d, mag));
                }
                if !neg {
                    forms.push(format!("-{}", mag));
                    forms.push(format!("+{}", mag));
                    forms.push(format!("-+{}", mag));
                    forms.push(format!("--{}", mag));
                }
                for f in &forms {
                    emit_parse(out, ty, f);
                    if thorough {
                        for suf in SUFFIXES {
                            emit_pparse(out, ty, &format!("{}{}", f, suf));
                        }
                    } else {
                        for j in 0..3 {
                            n += 1;
                            emit_pparse(out, ty, &format!("{}{}", f, SUFFIXES[(n + j * 5) % SUFFIXES.len()]));
                        }
                    }
                    n += 1;
                    if n % 4 == 0 {
                        emit_at(out, ty, n % 8 == 0, 5, &format!("{}{}", f, SUFFIXES[n % SUFFIXES.len()]));
                        emit_pwith(out, ty, &format!("{}{}", f, SUFFIXES[(n / 4) % SUFFIXES.len()]), n % 16 == 0);
                    }
                }
            }
        }
    }
}

fn gen_bool(out: &mut Out, thorough: bool) {
    let alphabet: [&[u8]; 8] = [b"true", b"false", b"t", b"e", b"T", b"1", b" ", "é".as_bytes()];
    let mut words = all_words(&alphabet, if thorough { 4 } else { 3 });
    for base in ["true", "false", "truefalse", "falsetrue", "truee", "falsee"] {
        let b = base.as_bytes();
        for i in 0..=b.len() {
            words.push(b[..i].to_vec()); // every prefix
            for c in [b'a', b'e', b't', b'T', b'f', b'u', b'\0', b'r', b's', b'l', b'F', b'E'] {
                let mut ins = b.to_vec();
                ins.insert(i, c);
                words.push(ins);
                if i < b.len() {
                    let mut rep = b.to_vec();
                    rep[i] = c;
                    words.push(rep);
                }
            }
            if i < b.len() {
                let mut del = b.to_vec();
                del.remove(i);
                words.push(del);
                if i + 1 < b.len() {
                    let mut sw = b.to_vec();
                    sw.swap(i, i + 1);
                    words.push(sw);
                }
            }
        }
    }
    for w in ["TRUE", "True", "FALSE", "1", "0", "yes", "tru\u{65}", "trüe", "ｔｒｕｅ", " true", "true ", "false\n"] {
        words.push(w.as_bytes().to_vec());
    }
    for w in &words {
        let s = std::str::from_utf8(w).unwrap();
        emit_both(out, "bool", s);
        emit_at(out, "bool", false, 0, s);
        emit_at(out, "bool", true, 9, s);
        emit_pwith(out, "bool", s, w.len() % 2 == 0);
    }
    // integers never accept bool text and vice versa
    for ty in INT_TYPES {
        for s in ["true", "false", "1true", "-false"] {
            emit_both(out, ty, s);
        }
    }
}

/// seeded stream of larger structured inputs
fn gen_random(out: &mut Out, thorough: bool, seed: u64) {
    let mut rng = Rng(seed ^ 0xC12C12);
    let count = if thorough { 400_000 } else { 40_000 };
    let mixed: [&str; 20] =
        ["0", "1", "2", "5", "9", "7", "-", "+", " ", "a", "_", ".", "e", "٣", "٠", "１", "\0", "/", ":", "x"];
    for i in 0..count {
        let ty = INT_TYPES[rng.below(12) as usize];
        let bits = bits_of(ty);
        let ndig = pow2(bits).len();
        let mut s = String::new();
        match rng.below(4) {
            0 | 1 => {
                // random digit string around the type's width
                if rng.below(3) == 0 {
                    s.push('-');
                }
                for _ in 0..rng.below(4) {
                    if rng.below(2) == 0 {
                        s.push('0');
                    }
                }
                let len = (ndig as u64 - 3 + rng.below(6)).max(1);
                for _ in 0..len {
                    s.push((b'0' + rng.below(10) as u8) as char);
                }
            }
            2 => {
                // k * 2^bits + r : where a dropped overflow flag would wrap to a plausible value
                if rng.below(2) == 0 {
                    s.push('-');
                }
                let base = if rng.below(3) == 0 { pow2(bits - 1) } else { pow2(bits) };
                let m = dec_mul_add(&base, 1 + rng.below(12) as u32, rng.below(300) as u32);
                s.push_str(&m);
            }
            _ => {
                for _ in 0..rng.below(9) {
                    s.push_str(mixed[rng.below(mixed.len() as u64) as usize]);
                }
            }
        }
        emit_parse(out, ty, &s);
        let suf = SUFFIXES[rng.below(SUFFIXES.len() as u64) as usize];
        let t = format!("{}{}", s, suf);
        emit_pparse(out, ty, &t);
        if i % 8 == 0 {
            emit_at(out, ty, rng.below(2) == 0, rng.below(1000) as usize, &t);
        }
    }
}

/// seeded stream of LONG / RARE numerals for every integer type: digit strings of 1..=45 digits
/// (far beyond every type's width) with and without '-', 0..=30 leading zeros, narrow bands around
/// 10^k (k up to 44) and around MAX/10, MAX/10*10, MIN/10, MIN/10*10, MAX, MIN, random suffixes
fn gen_large(out: &mut Out, thorough: bool, seed: u64) {
    let mut rng = Rng(seed ^ 0xC12_1A26E);
    let m = if thorough { 10 } else { 1 };
    let mut n = 0usize;
    let mut emit = |out: &mut Out, rng: &mut Rng, ty: &str, neg: bool, mag: &str| {
        // leading zeros: none, a few, many (0..=30)
        let z = match rng.below(4) {
            0 | 1 => 0,
            2 => 1 + rng.below(3) as usize,
            _ => rng.below(31) as usize,
        };
        let f = format!("{}{}{}", if neg { "-" } else { "" }, "0".repeat(z), mag);
        emit_parse(out, ty, &f);
        let t = format!("{}{}", f, SUFFIXES[rng.below(SUFFIXES.len() as u64) as usize]);
        emit_pparse(out, ty, &t);
        n += 1;
        if n % 6 == 0 {
            emit_at(out, ty, n % 12 == 0, rng.below(1000) as usize, &t);
        }
        if n % 9 == 0 {
            emit_pwith(out, ty, &t, n % 18 == 0);
        }
    };
    for ty in INT_TYPES {
        let bits = bits_of(ty);
        let signed = ty.starts_with('i');
        // 1. random digit strings of 1..=45 digits
        for _ in 0..60 * m {
            let len = 1 + rng.below(45) as usize;
            let mut mag = String::new();
            for i in 0..len {
                let lo = if i == 0 { 1 } else { 0 };
                mag.push((b'0' + lo + rng.below(10 - lo as u64) as u8) as char);
            }
            let neg = rng.below(3) == 0;
            emit(out, &mut rng, ty, neg, &mag);
        }
        // 2. narrow bands around 10^k
        for _ in 0..50 * m {
            let k = 1 + rng.below(44) as usize;
            let p = format!("1{}", "0".repeat(k));
            let cneg = rng.below(3) == 0;
            let (neg, mag) = sadd(cneg, &p, rng.below(7) as i32 - 3);
            emit(out, &mut rng, ty, neg, &mag);
        }
        // 3. bands around MAX/10, MAX/10*10, MIN/10, MIN/10*10, MAX, MIN (and the unsigned twin's)
        let full = pow2(bits);
        let half = pow2(bits - 1);
        let max = dec_sub(if signed { &half } else { &full }, 1).unwrap();
        let max10 = max[..max.len() - 1].to_string();
        let min_mag = if signed { half.clone() } else { "0".to_string() };
        let min10 = if signed { half[..half.len() - 1].to_string() } else { "0".to_string() };
        let centres: Vec<(bool, String)> = vec![
            (false, max10.clone()),
            (false, format!("{}0", max10)),
            (true, min10.clone()),
            (true, format!("{}0", min10)),
            (false, max.clone()),
            (true, min_mag.clone()),
            (true, max10.clone()),
            (false, min10.clone()),
            (false, dec_sub(&full, 1).unwrap()),
            (false, full[..full.len() - 1].to_string()),
        ];
        for _ in 0..90 * m {
            let (cneg, cmag) = &centres[rng.below(centres.len() as u64) as usize];
            let delta = if rng.below(2) == 0 { rng.below(5) as i32 - 2 } else { rng.below(41) as i32 - 20 };
            let (neg, mag) = sadd(*cneg, cmag, delta);
            emit(out, &mut rng, ty, neg, &mag);
        }
    }
}

pub fn run(tier: &str, seed: u64, out: &mut Out) {
    // the driver maps usize/isize to 64 bits (registry assumption); anything else is a broken check
    assert_eq!(usize::BITS, 64, "C12: the model instance for usize/isize is the 64-bit one");
    let thorough = tier == "thorough";
    gen_words(out, thorough);
    gen_bool(out, thorough);
    gen_neighbourhoods(out, thorough);
    gen_small_values(out, thorough);
    gen_random(out, thorough, seed);
    gen_large(out, thorough, seed);
}
