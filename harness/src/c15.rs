//! C15: ownership ledger of the by-value APIs. All ArrayConsumer histories (front/back takes, clone,
//! drop / forget / assert_is_empty) on lengths 0..=4 with a drop-logging element, against a `VecDeque`;
//! the ArrayBuilder histories of C11 (their ledger column); by-value map_!/from_fn_! with a
//! well-behaved closure.  destructure! shapes and early-exit closures are generated programs
//! (vlib/progs/c15.py).
use crate::c11::{histories, run_builder, with_n};
use crate::util::elog::{self, E};
use crate::util::*;
use konst::array::ArrayConsumer;
use std::collections::VecDeque;
use std::mem::ManuallyDrop;
use std::panic::{catch_unwind, AssertUnwindSafe};

fn slice_ids(s: &[E]) -> String {
    elog::ids(&s.iter().map(elog::peek).collect::<Vec<_>>())
}

fn opt_id(x: Option<ManuallyDrop<E>>) -> String {
    match x {
        None => "none".to_string(),
        Some(e) => format!("some:{}", elog::take(ManuallyDrop::into_inner(e))),
    }
}

fn cons_hist<const N: usize>(empty: bool, ops: &[u8]) -> String {
    elog::reset();
    let mut cur: Option<ArrayConsumer<E, N>> = Some(if empty {
        ArrayConsumer::empty()
    } else {
        ArrayConsumer::new(core::array::from_fn(|_| elog::new()))
    });
    let mut steps: Vec<String> = Vec::new();
    let mut fin = String::new();
    for &op in ops {
        let res;
        match op {
            b'f' => res = opt_id(cur.as_mut().unwrap().next()),
            b'b' => res = opt_id(cur.as_mut().unwrap().next_back()),
            b'c' => {
                let old = cur.take().unwrap();
                let new = old.clone();
                drop(old);
                cur = Some(new);
                res = "ok".to_string();
            }
            b'k' => {
                drop(cur.as_ref().unwrap().clone());
                res = "ok".to_string();
            }
            b'0'..=b'9' => {
                // `E::clone` panics on its j-th call inside `ArrayConsumer::clone`; unwinding drops the
                // half-built clone; the original is only borrowed
                elog::arm_clone_panic((op - b'0') as u32);
                let c = cur.as_ref().unwrap();
                let r = catch_unwind(AssertUnwindSafe(|| c.clone()));
                elog::disarm_clone_panic();
                res = if r.is_ok() { "ok" } else { "panic" }.to_string();
                drop(r);
            }
            b'd' => {
                drop(cur.take());
                fin = "d".to_string();
                break;
            }
            b'g' => {
                std::mem::forget(cur.take());
                fin = "g".to_string();
                break;
            }
            b'e' => {
                let c = cur.take().unwrap();
                fin = if catch_unwind(AssertUnwindSafe(move || c.assert_is_empty())).is_ok() { "e=ok" } else { "e=panic" }.to_string();
                break;
            }
            _ => return "bad-op".to_string(),
        }
        let c = cur.as_mut().unwrap();
        let sl = slice_ids(c.as_slice());
        let slm = slice_ids(c.as_mut_slice());
        steps.push(format!("{}={},{}", op as char, res, if sl == slm { sl } else { "MUTDIFF".to_string() }));
    }
    std::mem::forget(cur);
    format!("{}|{}|L={}|leak={}", if steps.is_empty() { "-".to_string() } else { steps.join(";") }, fin, elog::log(), elog::leaked())
}

fn cons_hist_ref(n: usize, empty: bool, ops: &[u8]) -> String {
    elog::reset();
    let mut cur: VecDeque<E> = if empty { VecDeque::new() } else { (0..n).map(|_| elog::new()).collect() };
    let mut steps: Vec<String> = Vec::new();
    let mut fin = String::new();
    let show = |x: Option<E>| match x {
        None => "none".to_string(),
        Some(e) => format!("some:{}", elog::take(e)),
    };
    for &op in ops {
        let res;
        match op {
            b'f' => res = show(cur.pop_front()),
            b'b' => res = show(cur.pop_back()),
            b'c' => {
                let new = cur.clone();
                cur = new;
                res = "ok".to_string();
            }
            b'k' => {
                drop(cur.clone());
                res = "ok".to_string();
            }
            b'0'..=b'9' => {
                elog::arm_clone_panic((op - b'0') as u32);
                let r = catch_unwind(AssertUnwindSafe(|| cur.clone()));
                elog::disarm_clone_panic();
                res = if r.is_ok() { "ok" } else { "panic" }.to_string();
                drop(r);
            }
            b'd' => {
                cur.clear();
                fin = "d".to_string();
                break;
            }
            b'g' => {
                std::mem::forget(std::mem::take(&mut cur));
                fin = "g".to_string();
                break;
            }
            b'e' => {
                fin = if cur.is_empty() { "e=ok" } else { "e=panic" }.to_string();
                cur.clear();
                break;
            }
            _ => return "bad-op".to_string(),
        }
        cur.make_contiguous();
        steps.push(format!("{}={},{}", op as char, res, slice_ids(cur.as_slices().0)));
    }
    std::mem::forget(cur);
    format!("{}|{}|L={}|leak={}", if steps.is_empty() { "-".to_string() } else { steps.join(";") }, fin, elog::log(), elog::leaked())
}

/// the same histories over a ZERO-SIZED element with a destructor (`elog::Z`): a ZST cannot carry an id, so the
/// observation is counts (`Z=<created>,<dropped>,<moved>`) and the remaining length after every step
/// (added after seeded change C15-r5-2: a `Drop` that walked `ptr..end` dropped nothing when `ptr == end`)
fn cons_zhist<const N: usize>(ops: &[u8]) -> String {
    elog::reset();
    let mut cur: Option<ArrayConsumer<elog::Z, N>> = Some(ArrayConsumer::new(core::array::from_fn(|_| elog::znew())));
    let mut steps: Vec<String> = Vec::new();
    let mut fin = String::new();
    let show = |x: Option<ManuallyDrop<elog::Z>>| match x {
        None => "none".to_string(),
        Some(z) => {
            elog::ztake(ManuallyDrop::into_inner(z));
            "some".to_string()
        }
    };
    for &op in ops {
        let res;
        match op {
            b'f' => res = show(cur.as_mut().unwrap().next()),
            b'b' => res = show(cur.as_mut().unwrap().next_back()),
            b'c' => {
                let old = cur.take().unwrap();
                let new = old.clone();
                drop(old);
                cur = Some(new);
                res = "ok".to_string();
            }
            b'k' => {
                drop(cur.as_ref().unwrap().clone());
                res = "ok".to_string();
            }
            b'd' => {
                drop(cur.take());
                fin = "d".to_string();
                break;
            }
            b'g' => {
                std::mem::forget(cur.take());
                fin = "g".to_string();
                break;
            }
            _ => return "bad-op".to_string(),
        }
        steps.push(format!("{}={},{}", op as char, res, cur.as_ref().unwrap().as_slice().len()));
    }
    std::mem::forget(cur);
    format!("{}|{}|{}", if steps.is_empty() { "-".to_string() } else { steps.join(";") }, fin, elog::zcounts())
}

fn cons_zhist_ref(n: usize, ops: &[u8]) -> String {
    elog::reset();
    let mut cur: VecDeque<elog::Z> = (0..n).map(|_| elog::znew()).collect();
    let mut steps: Vec<String> = Vec::new();
    let mut fin = String::new();
    let show = |x: Option<elog::Z>| match x {
        None => "none".to_string(),
        Some(z) => {
            elog::ztake(z);
            "some".to_string()
        }
    };
    for &op in ops {
        let res;
        match op {
            b'f' => res = show(cur.pop_front()),
            b'b' => res = show(cur.pop_back()),
            b'c' => {
                let new = cur.clone();
                cur = new;
                res = "ok".to_string();
            }
            b'k' => {
                drop(cur.clone());
                res = "ok".to_string();
            }
            b'd' => {
                cur.clear();
                fin = "d".to_string();
                break;
            }
            b'g' => {
                std::mem::forget(std::mem::take(&mut cur));
                fin = "g".to_string();
                break;
            }
            _ => return "bad-op".to_string(),
        }
        steps.push(format!("{}={},{}", op as char, res, cur.len()));
    }
    std::mem::forget(cur);
    format!("{}|{}|{}", if steps.is_empty() { "-".to_string() } else { steps.join(";") }, fin, elog::zcounts())
}

fn led_value<const N: usize>(out: &mut Out) {
    // map_!: inputs 0..N-1, the closure consumes its input (`c`) and creates output N+k
    elog::reset();
    let imp = catch(|| {
        let inp: [E; N] = core::array::from_fn(|_| elog::new());
        let r = konst::array::map_!(inp, |e: E| {
            elog::take_as(e, "c");
            elog::new()
        });
        let ids: Vec<u32> = r.iter().map(elog::peek).collect();
        let log = elog::log();
        std::mem::forget(r);
        format!("{}|L={}|leak=[]", elog::ids(&ids), log)
    });
    elog::reset();
    let ora = catch(|| {
        let inp: [E; N] = core::array::from_fn(|_| elog::new());
        let r = inp.map(|e: E| {
            elog::take_as(e, "c");
            elog::new()
        });
        let ids: Vec<u32> = r.iter().map(elog::peek).collect();
        let log = elog::log();
        std::mem::forget(r);
        format!("{}|L={}|leak=[]", elog::ids(&ids), log)
    });
    out.emit(&format!("led.map_ {} none", N), &imp, &ora, true);
    elog::reset();
    let imp = catch(|| {
        let r: [E; N] = konst::array::from_fn_!(|_i| elog::new());
        let ids: Vec<u32> = r.iter().map(elog::peek).collect();
        let log = elog::log();
        std::mem::forget(r);
        format!("{}|L={}|leak=[]", elog::ids(&ids), log)
    });
    elog::reset();
    let ora = catch(|| {
        let r: [E; N] = core::array::from_fn(|_i| elog::new());
        let ids: Vec<u32> = r.iter().map(elog::peek).collect();
        let log = elog::log();
        std::mem::forget(r);
        format!("{}|L={}|leak=[]", elog::ids(&ids), log)
    });
    out.emit(&format!("led.from_fn_ {} none", N), &imp, &ora, true);
}

pub fn run(tier: &str, _seed: u64, out: &mut Out) {
    let depth = if tier == "thorough" { 8 } else if tier == "small" { 4 } else { 6 };
    for n in 0..=4usize {
        for h in histories(b"fbck", b"dge", depth - 1) {
            let imp = with_n!(n, cons_hist, false, &h);
            let ora = cons_hist_ref(n, false, &h);
            out.emit(&format!("cons.hist new {} {}", n, String::from_utf8_lossy(&h)), &imp, &ora, true);
        }
        for h in histories(b"fbck", b"dge", 3) {
            let imp = with_n!(n, cons_hist, true, &h);
            let ora = cons_hist_ref(n, true, &h);
            out.emit(&format!("cons.hist empty {} {}", n, String::from_utf8_lossy(&h)), &imp, &ora, true);
        }
    }
    // a longer array: alternating ends
    for h in [&b"fbfbfbd"[..], b"ffffffe", b"bbbbbbe", b"fbfcbfbd", b"bbkffg", b"ffbbffbbe"] {
        let imp = cons_hist::<6>(false, h);
        let ora = cons_hist_ref(6, false, h);
        out.emit(&format!("cons.hist new 6 {}", String::from_utf8_lossy(h)), &imp, &ora, true);
    }
    // an element `Clone` that PANICS on its j-th call inside `ArrayConsumer::clone` (letters 0..3; j beyond the
    // remaining slice = the clone completes and is dropped), mixed with takes and ordinary clones
    let pdepth = if tier == "thorough" { 5 } else if tier == "small" { 2 } else { 4 };
    for n in 0..=4usize {
        let mut alpha: Vec<u8> = b"fbc".to_vec();
        for j in 0..=n.min(3) {
            alpha.push(b'0' + j as u8);
        }
        for h in histories(&alpha, b"dge", pdepth) {
            if !h.iter().any(|c| c.is_ascii_digit()) {
                continue;
            }
            let imp = with_n!(n, cons_hist, false, &h);
            let ora = cons_hist_ref(n, false, &h);
            out.emit(&format!("cons.hist new {} {}", n, String::from_utf8_lossy(&h)), &imp, &ora, true);
        }
    }
    for h in [&b"0d"[..], b"1d", b"f0e", b"2g"] {
        for n in [0usize, 2, 4] {
            let imp = with_n!(n, cons_hist, true, h);
            let ora = cons_hist_ref(n, true, h);
            out.emit(&format!("cons.hist empty {} {}", n, String::from_utf8_lossy(h)), &imp, &ora, true);
        }
    }
    for h in [&b"5d"[..], b"ff3bd", b"fb0f3e", b"4c2g", b"bbb2fd"] {
        let imp = cons_hist::<6>(false, h);
        let ora = cons_hist_ref(6, false, h);
        out.emit(&format!("cons.hist new 6 {}", String::from_utf8_lossy(h)), &imp, &ora, true);
    }
    // zero-sized elements with a destructor (implementation vs `VecDeque`; the model's ledger is by element id)
    let zdepth = if tier == "thorough" { 6 } else if tier == "small" { 3 } else { 5 };
    for n in 0..=4usize {
        for h in histories(b"fbck", b"dg", zdepth - 1) {
            let imp = with_n!(n, cons_zhist, &h);
            let ora = cons_zhist_ref(n, &h);
            out.emit(&format!("cons.zhist {} {}", n, String::from_utf8_lossy(&h)), &imp, &ora, true);
        }
    }
    run_builder(tier, out);
    led_value::<0>(out);
    led_value::<1>(out);
    led_value::<2>(out);
    led_value::<3>(out);
    led_value::<4>(out);
}
