//! C07: chars / char_indices (double-ended, `rev`, `copy`, `as_str`), encode_utf8, from_u32 vs std.
use crate::util::*;
use konst::{chr, string as kstr};

fn item_c(x: Option<char>) -> String {
    match x {
        None => "none".into(),
        Some(c) => format!("c:{}", c as u32),
    }
}
fn item_ci(x: Option<(usize, char)>) -> String {
    match x {
        None => "none".into(),
        Some((o, c)) => format!("ci:{}:{}", o, c as u32),
    }
}

/// one history on konst's `Chars` (by value; every step on a `.copy()`) and on std's `Chars`
fn run_chars(s: &str, h: &str, hist: &[u8], out: &mut Out) {
    let imp = catch(|| {
        let mut it = kstr::chars(s);
        let mut v = Vec::new();
        let first = view_str(s, it.as_str());
        for &d in hist {
            let r = if d == b'f' { it.copy().next() } else { it.copy().next_back() };
            let x = match r {
                Some((c, n)) => {
                    it = n;
                    Some(c)
                }
                None => None,
            };
            v.push(format!("{}@{}", item_c(x), view_str(s, it.as_str())));
        }
        format!("{}|[{}]", first, v.join(";"))
    });
    let ora = {
        let mut it = s.chars();
        let mut v = Vec::new();
        let first = view_str(s, it.as_str());
        for &d in hist {
            let x = if d == b'f' { it.next() } else { it.next_back() };
            v.push(format!("{}@{}", item_c(x), view_str(s, it.as_str())));
        }
        format!("{}|[{}]", first, v.join(";"))
    };
    out.emit(&format!("chars.chars {} {}", hex(s.as_bytes()), h), &imp, &ora, true);
}

fn run_char_indices(s: &str, h: &str, hist: &[u8], out: &mut Out) {
    let imp = catch(|| {
        let mut it = kstr::char_indices(s);
        let mut v = Vec::new();
        let first = view_str(s, it.as_str());
        for &d in hist {
            let r = if d == b'f' { it.copy().next() } else { it.copy().next_back() };
            let x = match r {
                Some((c, n)) => {
                    it = n;
                    Some(c)
                }
                None => None,
            };
            v.push(format!("{}@{}", item_ci(x), view_str(s, it.as_str())));
        }
        format!("{}|[{}]", first, v.join(";"))
    });
    let ora = {
        let mut it = s.char_indices();
        let mut v = Vec::new();
        let first = view_str(s, it.as_str());
        for &d in hist {
            let x = if d == b'f' { it.next() } else { it.next_back() };
            v.push(format!("{}@{}", item_ci(x), view_str(s, it.as_str())));
        }
        format!("{}|[{}]", first, v.join(";"))
    };
    out.emit(&format!("chars.char_indices {} {}", hex(s.as_bytes()), h), &imp, &ora, true);
}

/// `.rev()` first (RChars); `as_str` is read through `.copy().rev()`; oracle `s.chars().rev()`
fn run_rchars(s: &str, h: &str, hist: &[u8], out: &mut Out) {
    let imp = catch(|| {
        let mut it = kstr::chars(s).rev();
        let mut v = Vec::new();
        let first = view_str(s, it.copy().rev().as_str());
        for &d in hist {
            let r = if d == b'f' { it.copy().next() } else { it.copy().next_back() };
            let x = match r {
                Some((c, n)) => {
                    it = n;
                    Some(c)
                }
                None => None,
            };
            v.push(format!("{}@{}", item_c(x), view_str(s, it.copy().rev().as_str())));
        }
        format!("{}|[{}]", first, v.join(";"))
    });
    let ora = {
        // items from `Rev<Chars>`; `Rev` has no `as_str`, so the remaining string is read from a
        // forward `Chars` driven with the opposite calls (which is what `Rev` wraps)
        let mut it = s.chars().rev();
        let mut inner = s.chars();
        let mut v = Vec::new();
        let first = view_str(s, inner.as_str());
        for &d in hist {
            let x = if d == b'f' { it.next() } else { it.next_back() };
            let y = if d == b'f' { inner.next_back() } else { inner.next() };
            assert_eq!(x, y);
            v.push(format!("{}@{}", item_c(x), view_str(s, inner.as_str())));
        }
        format!("{}|[{}]", first, v.join(";"))
    };
    out.emit(&format!("chars.rchars {} {}", hex(s.as_bytes()), h), &imp, &ora, true);
}

fn run_rchar_indices(s: &str, h: &str, hist: &[u8], out: &mut Out) {
    let imp = catch(|| {
        let mut it = kstr::char_indices(s).rev();
        let mut v = Vec::new();
        let first = view_str(s, it.copy().rev().as_str());
        for &d in hist {
            let r = if d == b'f' { it.copy().next() } else { it.copy().next_back() };
            let x = match r {
                Some((c, n)) => {
                    it = n;
                    Some(c)
                }
                None => None,
            };
            v.push(format!("{}@{}", item_ci(x), view_str(s, it.copy().rev().as_str())));
        }
        format!("{}|[{}]", first, v.join(";"))
    });
    let ora = {
        let mut it = s.char_indices().rev();
        let mut inner = s.char_indices();
        let mut v = Vec::new();
        let first = view_str(s, inner.as_str());
        for &d in hist {
            let x = if d == b'f' { it.next() } else { it.next_back() };
            let y = if d == b'f' { inner.next_back() } else { inner.next() };
            assert_eq!(x, y);
            v.push(format!("{}@{}", item_ci(x), view_str(s, inner.as_str())));
        }
        format!("{}|[{}]", first, v.join(";"))
    };
    out.emit(&format!("chars.rchar_indices {} {}", hex(s.as_bytes()), h), &imp, &ora, true);
}

/// all histories over {f,b} of exactly `depth` steps (every shorter history is a prefix of one of
/// them and each step is observed, so these cover all histories up to `depth`)
fn histories(depth: usize) -> Vec<String> {
    (0..(1u32 << depth)).map(|m| (0..depth).map(|i| if m >> i & 1 == 0 { 'f' } else { 'b' }).collect()).collect()
}

fn enc_one(c: char, out: &mut Out) {
    let e = chr::encode_utf8(c);
    // as_bytes and as_str must agree; the std oracle is char::encode_utf8 / len_utf8
    let imp = format!("{}|{}", hex(e.as_bytes()), e.as_str().len());
    let mut buf = [0u8; 4];
    let o = c.encode_utf8(&mut buf);
    let ora = format!("{}|{}", hex(o.as_bytes()), c.len_utf8());
    out.emit(&format!("chr.enc {}", c as u32), &imp, &ora, true);
}

fn from_u32_one(n: u32, out: &mut Out) {
    let f = |x: Option<char>| match x {
        None => "none".to_string(),
        Some(c) => format!("some:{}", c as u32),
    };
    out.emit(&format!("chr.from_u32 {}", n), &f(chr::from_u32(n)), &f(char::from_u32(n)), true);
}

const EDGES: [u32; 12] = [0, 0x7F, 0x80, 0x7FF, 0x800, 0xD7FF, 0xD800, 0xDFFF, 0xE000, 0xFFFF, 0x10000, 0x10FFFF];
const EXTREME: [char; 9] = ['\u{7F}', '\u{80}', '\u{7FF}', '\u{800}', '\u{D7FF}', '\u{E000}', '\u{FFFF}', '\u{10000}', '\u{10FFFF}'];

pub fn run(tier: &str, seed: u64, out: &mut Out) {
    let thorough = tier == "thorough";
    // --- encode_utf8 / from_u32
    let mut near: Vec<u32> = Vec::new();
    for e in EDGES {
        for d in 0..=2u32 {
            near.push(e.saturating_sub(d));
            near.push(e + d);
        }
    }
    near.extend_from_slice(&[0x110000, 0x110001, 0x11FFFF, 0x120000, 0x1FFFFF, 0x200000, 0x7FFF_FFFF, 0x8000_0000, 0x8000_0001, u32::MAX - 1, u32::MAX]);
    if thorough {
        for n in 0..0x120000u32 {
            from_u32_one(n, out);
            if let Some(c) = char::from_u32(n) {
                enc_one(c, out);
            }
        }
    } else {
        let mut n = 0u32;
        while n < 0x120000 {
            from_u32_one(n, out);
            if let Some(c) = char::from_u32(n) {
                enc_one(c, out);
            }
            n += 17;
        }
    }
    for &n in &near {
        from_u32_one(n, out);
        if let Some(c) = char::from_u32(n) {
            enc_one(c, out);
        }
    }
    // --- iterators: exhaustive strings x exhaustive histories
    let alpha: [&[u8]; 4] = ["a".as_bytes(), "ñ".as_bytes(), "€".as_bytes(), "😀".as_bytes()];
    let (max_chars, depth) = if thorough { (6, 8) } else { (5, 7) };
    let hs = histories(depth);
    for w in all_words(&alpha, max_chars) {
        let s = std::str::from_utf8(&w).unwrap();
        let nch = s.chars().count();
        for h in &hs {
            run_chars(s, h, h.as_bytes(), out);
            run_char_indices(s, h, h.as_bytes(), out);
            // the reversed twins share the two blocks; their exhaustive scope is one character shorter
            if nch + 1 <= max_chars {
                run_rchars(s, h, h.as_bytes(), out);
                run_rchar_indices(s, h, h.as_bytes(), out);
            }
        }
    }
    // strings over the characters with extreme lead / continuation bytes (decoder masks)
    let ext: Vec<String> = EXTREME.iter().map(|c| c.to_string()).collect();
    let ext_b: Vec<&[u8]> = ext.iter().map(|s| s.as_bytes()).collect();
    let hs4 = histories(4);
    for w in all_words(&ext_b, if thorough { 3 } else { 2 }) {
        let s = std::str::from_utf8(&w).unwrap();
        for h in &hs4 {
            run_chars(s, h, h.as_bytes(), out);
            run_char_indices(s, h, h.as_bytes(), out);
            run_rchars(s, h, h.as_bytes(), out);
            run_rchar_indices(s, h, h.as_bytes(), out);
        }
    }
    // seeded random: longer strings of random scalar values, random histories
    let mut rng = Rng(seed ^ 0xC07);
    let n = if thorough { 20000 } else { 2000 };
    for _ in 0..n {
        let k = rng.below(12) as usize;
        let mut s = String::new();
        for _ in 0..k {
            let c = loop {
                let v = match rng.below(5) {
                    0 => rng.below(0x80),
                    1 => 0x80 + rng.below(0x800 - 0x80),
                    2 => 0x800 + rng.below(0x10000 - 0x800),
                    3 => 0x10000 + rng.below(0x110000 - 0x10000),
                    _ => EXTREME[rng.below(9) as usize] as u64,
                } as u32;
                if let Some(c) = char::from_u32(v) {
                    break c;
                }
            };
            s.push(c);
        }
        let d = rng.below(16) as usize;
        let h: String = (0..d).map(|_| if rng.below(2) == 0 { 'f' } else { 'b' }).collect();
        let hh = if h.is_empty() { "-".to_string() } else { h.clone() };
        run_chars(&s, &hh, h.as_bytes(), out);
        run_char_indices(&s, &hh, h.as_bytes(), out);
        run_rchars(&s, &hh, h.as_bytes(), out);
        run_rchar_indices(&s, &hh, h.as_bytes(), out);
    }
    run_large(thorough, seed, out);
}

/// seeded stream of LARGE / RARE inputs: strings of 10..=40 chars from the whole scalar range (the
/// edge scalars over-represented) under histories of 12..=60 steps (usually longer than the string:
/// exhaustion is crossed and the iterator is polled after it), u32 values from the whole 32-bit
/// range for `from_u32`, random chars for `encode_utf8`
fn run_large(thorough: bool, seed: u64, out: &mut Out) {
    let mut rng = Rng(seed ^ 0xC07_1A26E);
    let m = if thorough { 10 } else { 1 };
    for i in 0..260 * m {
        let s = rand_string(&mut rng, 10, 40);
        let nch = s.chars().count();
        let d = if i % 2 == 0 { (nch + 2 + rng.below(10) as usize).min(60) } else { 12 + rng.below(49) as usize };
        // bias of the front/back choice: all front, all back, mostly one end, even
        let pf = [0u64, 8, 1, 7, 4, 4, 2, 6][rng.below(8) as usize];
        let h: String = (0..d).map(|_| if rng.below(8) < pf { 'f' } else { 'b' }).collect();
        run_chars(&s, &h, h.as_bytes(), out);
        run_char_indices(&s, &h, h.as_bytes(), out);
        run_rchars(&s, &h, h.as_bytes(), out);
        run_rchar_indices(&s, &h, h.as_bytes(), out);
    }
    // LONG strings (260..=700 bytes): byte offsets beyond 255 / 511, a few steps from either end
    for i in 0..24 * m {
        let s = rand_string(&mut rng, 180, 260);
        let d = 4 + rng.below(8) as usize;
        let pf = [0u64, 8, 4, 2, 6][i % 5];
        let h: String = (0..d).map(|_| if rng.below(8) < pf { 'f' } else { 'b' }).collect();
        run_chars(&s, &h, h.as_bytes(), out);
        run_char_indices(&s, &h, h.as_bytes(), out);
        run_rchars(&s, &h, h.as_bytes(), out);
        run_rchar_indices(&s, &h, h.as_bytes(), out);
    }
    for i in 0..2000 * m {
        let r = rng.next();
        let n: u32 = match i % 8 {
            // the whole 32-bit range
            0 | 1 | 2 => r as u32,
            // below / just above the scalar range
            3 => (r % 0x120000) as u32,
            // the surrogate gap and its neighbourhood
            4 => 0xD000 + (r % 0x1800) as u32,
            // a valid scalar with high garbage bits (a truncating / masking conversion would accept it)
            5 => ((r % 0x110000) as u32) | (1u32 << (21 + (r >> 32) % 11)),
            // multiples of the range size away from a valid scalar
            6 => ((r % 0x110000) as u32).wrapping_add(0x110000u32.wrapping_mul(1 + ((r >> 32) % 3000) as u32)),
            _ => (r as u32) | 0x8000_0000,
        };
        from_u32_one(n, out);
    }
    for _ in 0..2500 * m {
        enc_one(rand_char(&mut rng), out);
    }
}
