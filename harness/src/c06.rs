//! C06: konst::string::{split, rsplit, split_terminator, rsplit_terminator} (+ rev, next_back,
//! remainder) vs str::split / rsplit / split_terminator and konst's documented rsplit_terminator.
//!
//! request:  sp.<it> <kind> <hayhex> <delimhex> [<hist>]
//! result:   [<piece-view>|<remainder-view>;…;none]          iteration to exhaustion
//!           [<piece-view or none>|<remainder-view>;…]       one entry per step of a f/b history
use crate::util::*;
use konst::string as ks;
use konst::string::Pattern;
use std::collections::VecDeque;

const MAX_STEPS: usize = 64;

fn join(v: Vec<String>) -> String {
    format!("[{}]", v.join(";"))
}

/// drive a by-value konst iterator to exhaustion through `next`, each step on a `.copy()`
macro_rules! drive {
    ($s:expr, $it:expr, $next:ident) => {{
        let s: &str = $s;
        catch(|| {
            let mut it = $it;
            let mut v = Vec::new();
            let mut n = 0usize;
            loop {
                match it.copy().$next() {
                    Some((p, nx)) => {
                        it = nx;
                        v.push(format!("{}|{}", view_str(s, p), view_str(s, it.remainder())));
                    }
                    None => {
                        v.push("none".to_string());
                        break;
                    }
                }
                n += 1;
                if n > s.len() + MAX_STEPS {
                    return "fuel".to_string();
                }
            }
            join(v)
        })
    }};
}

/// drive a front/back history on a double-ended konst iterator
macro_rules! drive_hist {
    ($s:expr, $it:expr, $hist:expr) => {{
        let s: &str = $s;
        let hist: &[u8] = $hist;
        catch(|| {
            let mut it = $it;
            let mut v = Vec::new();
            for &d in hist {
                let r = if d == b'f' { it.copy().next() } else { it.copy().next_back() };
                match r {
                    Some((p, nx)) => {
                        it = nx;
                        v.push(format!("{}|{}", view_str(s, p), view_str(s, it.remainder())));
                    }
                    None => v.push(format!("none|{}", view_str(s, it.remainder()))),
                }
            }
            join(v)
        })
    }};
}

/// expected steps of a forward iteration from std's pieces: the remainder after a piece is what
/// follows it and one delimiter ("" once the input is used up)
fn fwd_steps(s: &str, dl: usize, pieces: &[&str]) -> String {
    let mut v = Vec::new();
    let mut consumed = 0usize;
    for p in pieces {
        consumed += p.len() + dl;
        let rem = if consumed <= s.len() { &s[consumed..] } else { "" };
        v.push(format!("{}|{}", view_str(s, p), view_str(s, rem)));
    }
    v.push("none".to_string());
    join(v)
}

/// expected steps of a backward iteration (rsplit order)
fn bwd_steps(s: &str, dl: usize, pieces: &[&str]) -> String {
    let mut v = Vec::new();
    let mut consumed = 0usize;
    for p in pieces {
        consumed += p.len() + dl;
        let rem = if consumed <= s.len() { &s[..s.len() - consumed] } else { "" };
        v.push(format!("{}|{}", view_str(s, p), view_str(s, rem)));
    }
    v.push("none".to_string());
    join(v)
}

/// history on a deque of pieces (string order); `fwd_is_front`: `f` takes from the front
fn deque_hist(s: &str, dl: usize, pieces: Vec<&str>, hist: &[u8], fwd_is_front: bool) -> String {
    let mut q: VecDeque<&str> = pieces.into();
    let (mut fc, mut bc) = (0usize, 0usize);
    let mut v = Vec::new();
    let rem = |q: &VecDeque<&str>, fc: usize, bc: usize| -> String {
        if q.is_empty() {
            // nothing left: konst's remainder is "" (and std's iterator is finished)
            "v:_:0".to_string()
        } else {
            view_str(s, &s[fc..s.len() - bc])
        }
    };
    for &d in hist {
        let front = (d == b'f') == fwd_is_front;
        let x = if front { q.pop_front() } else { q.pop_back() };
        match x {
            Some(p) => {
                if front {
                    fc += p.len() + dl;
                } else {
                    bc += p.len() + dl;
                }
                v.push(format!("{}|{}", view_str(s, p), rem(&q, fc, bc)));
            }
            None => v.push(format!("none|{}", rem(&q, fc, bc))),
        }
    }
    join(v)
}

/// a proper non-empty prefix of `d` is also a suffix (occurrences can overlap)
fn has_border(d: &[u8]) -> bool {
    (1..d.len()).any(|k| d[..k] == d[d.len() - k..])
}

fn req(it: &str, kind: &str, s: &str, d: &[u8], hist: Option<&str>) -> String {
    match hist {
        None => format!("sp.{} {} {} {}", it, kind, hex(s.as_bytes()), hex(d)),
        Some(h) => format!("sp.{} {} {} {} {}", it, kind, hex(s.as_bytes()), hex(d), h),
    }
}

/// the six exhaustion runs for one (string, delimiter) — generic over konst's pattern kinds; the
/// std pieces are passed in (std's `Pattern` cannot be named on stable)
fn exhaust<'p, P: Pattern<'p>>(
    kind: &str,
    s: &str,
    d: P,
    db: &[u8],
    std_split: &[&str],
    std_rsplit: &[&str],
    std_split_term: &[&str],
    out: &mut Out,
) {
    let dl = db.len();
    let fwd = fwd_steps(s, dl, std_split);
    let bwd = bwd_steps(s, dl, std_rsplit);
    out.emit(&req("split", kind, s, db, None), &drive!(s, ks::split(s, d), next), &fwd, true);
    out.emit(&req("rsplit", kind, s, db, None), &drive!(s, ks::rsplit(s, d), next), &bwd, true);
    out.emit(&req("split.rev", kind, s, db, None), &drive!(s, ks::split(s, d).rev(), next), &bwd, true);
    out.emit(&req("rsplit.rev", kind, s, db, None), &drive!(s, ks::rsplit(s, d).rev(), next), &fwd, true);
    out.emit(
        &req("split_terminator", kind, s, db, None),
        &drive!(s, ks::split_terminator(s, d), next),
        &fwd_steps(s, dl, std_split_term),
        true,
    );
    // documented rule: rsplit's pieces without the empty piece that precedes a leading delimiter
    // (= rsplit's last piece when it is empty)
    let mut rt: Vec<&str> = std_rsplit.to_vec();
    if rt.last() == Some(&"") {
        rt.pop();
    }
    out.emit(
        &req("rsplit_terminator", kind, s, db, None),
        &drive!(s, ks::rsplit_terminator(s, d), next),
        &bwd_steps(s, dl, &rt),
        true,
    );
}

fn exhaust_str(s: &str, d: &str, out: &mut Out) {
    let a: Vec<&str> = s.split(d).collect();
    let b: Vec<&str> = s.rsplit(d).collect();
    let c: Vec<&str> = s.split_terminator(d).collect();
    exhaust("str", s, d, d.as_bytes(), &a, &b, &c, out);
}

fn exhaust_char(s: &str, d: char, out: &mut Out) {
    let a: Vec<&str> = s.split(d).collect();
    let b: Vec<&str> = s.rsplit(d).collect();
    let c: Vec<&str> = s.split_terminator(d).collect();
    let mut buf = [0u8; 4];
    let db = d.encode_utf8(&mut buf).as_bytes().to_vec();
    exhaust("char", s, d, &db, &a, &b, &c, out);
}

/// std's real double-ended `Split<char>` / `RSplit<char>` driven by the history; the remainder is
/// computed from the pieces taken so far
fn std_char_hist(s: &str, c: char, hist: &[u8], reversed: bool) -> String {
    let dl = c.len_utf8();
    let total = s.split(c).count();
    let mut sp = s.split(c);
    let mut rsp = s.rsplit(c);
    let (mut fc, mut bc, mut taken) = (0usize, 0usize, 0usize);
    let mut v = Vec::new();
    for &d in hist {
        let x = match (reversed, d == b'f') {
            (false, true) => sp.next(),
            (false, false) => sp.next_back(),
            (true, true) => rsp.next(),
            (true, false) => rsp.next_back(),
        };
        let from_front = (d == b'f') != reversed;
        if let Some(p) = x {
            taken += 1;
            if from_front {
                fc += p.len() + dl;
            } else {
                bc += p.len() + dl;
            }
        }
        let rem = if taken == total { "".to_string() } else { view_str(s, &s[fc..s.len() - bc]) };
        let rem = if rem.is_empty() { "v:_:0".to_string() } else { rem };
        match x {
            Some(p) => v.push(format!("{}|{}", view_str(s, p), rem)),
            None => v.push(format!("none|{}", rem)),
        }
    }
    join(v)
}

fn hists_str(s: &str, d: &str, h: &str, out: &mut Out) {
    let hb = h.as_bytes();
    let db = d.as_bytes();
    // std's `Split<&str>` is not double-ended: for delimiters whose occurrences cannot overlap the
    // oracle is a deque of std's pieces, otherwise only implementation vs model is compared
    let has_oracle = !d.is_empty() && !has_border(db);
    let all_f = hb.iter().all(|c| *c == b'f');
    let all_b = hb.iter().all(|c| *c == b'b');
    let ora = |front: bool| -> String {
        if has_oracle {
            deque_hist(s, db.len(), s.split(d).collect(), hb, front)
        } else if all_f || all_b {
            // a history that only ever takes from ONE end has an oracle for every delimiter: std's `split` for the
            // front end, std's `rsplit` for the back end (added after seeded change C06-r4-1: `next_back` of an
            // empty delimiter walked from the front)
            let from_front = if front { all_f } else { all_b };
            let pieces: Vec<&str> = if from_front {
                s.split(d).collect()
            } else {
                let mut v: Vec<&str> = s.rsplit(d).collect();
                v.reverse();
                v
            };
            deque_hist(s, db.len(), pieces, hb, front)
        } else {
            "?".to_string()
        }
    };
    out.emit(&req("split", "str", s, db, Some(h)), &drive_hist!(s, ks::split(s, d), hb), &ora(true), true);
    out.emit(&req("rsplit", "str", s, db, Some(h)), &drive_hist!(s, ks::rsplit(s, d), hb), &ora(false), true);
    out.emit(&req("split.rev", "str", s, db, Some(h)), &drive_hist!(s, ks::split(s, d).rev(), hb), &ora(false), true);
    out.emit(&req("rsplit.rev", "str", s, db, Some(h)), &drive_hist!(s, ks::rsplit(s, d).rev(), hb), &ora(true), true);
}

fn hists_char(s: &str, c: char, h: &str, out: &mut Out) {
    let hb = h.as_bytes();
    let mut buf = [0u8; 4];
    let db = c.encode_utf8(&mut buf).as_bytes().to_vec();
    let fwd = std_char_hist(s, c, hb, false);
    let bwd = std_char_hist(s, c, hb, true);
    // the deque oracle must agree with std's own double-ended iteration
    assert_eq!(fwd, deque_hist(s, db.len(), s.split(c).collect(), hb, true));
    assert_eq!(bwd, deque_hist(s, db.len(), s.split(c).collect(), hb, false));
    out.emit(&req("split", "char", s, &db, Some(h)), &drive_hist!(s, ks::split(s, c), hb), &fwd, true);
    out.emit(&req("rsplit", "char", s, &db, Some(h)), &drive_hist!(s, ks::rsplit(s, c), hb), &bwd, true);
    out.emit(&req("split.rev", "char", s, &db, Some(h)), &drive_hist!(s, ks::split(s, c).rev(), hb), &bwd, true);
    out.emit(&req("rsplit.rev", "char", s, &db, Some(h)), &drive_hist!(s, ks::rsplit(s, c).rev(), hb), &fwd, true);
}

fn all_hists(depth: usize) -> Vec<String> {
    let mut v = Vec::new();
    for m in 0..(1u32 << depth) {
        let mut h = String::new();
        for i in 0..depth {
            h.push(if (m >> i) & 1 == 0 { 'f' } else { 'b' });
        }
        v.push(h);
    }
    v
}

fn to_strs(v: Vec<Vec<u8>>) -> Vec<String> {
    v.into_iter().map(|b| String::from_utf8(b).unwrap()).collect()
}

pub fn run(tier: &str, seed: u64, out: &mut Out) {
    let thorough = tier == "thorough";

    // 0. the inputs that failed before the byte-search repair 116b24e (self-overlapping delimiters,
    //    a failed partial match followed by a real one) and a few pinned shapes — first
    for (s, d) in [
        ("aaab", "aab"), ("aaabaab", "aab"), ("abbb", "abb"), ("aabaab", "aab"), ("ababab", "abab"),
        ("aaa", "aa"), ("aaaa", "aa"), ("ñññ", "ññ"), ("aañaaña", "aña"), ("", ""), ("", "a"),
        ("a", "a"), ("aa", "a"), (",a,,b,", ","), ("a,b", ",,"),
    ] {
        exhaust_str(s, d, out);
        for h in all_hists(4) {
            hists_str(s, d, &h, out);
        }
    }

    // 1. exhaustive: every string over {a, b, ñ} x every delimiter over the same alphabet
    let alpha: [&[u8]; 3] = [b"a", b"b", "ñ".as_bytes()];
    let strs = to_strs(all_words(&alpha, if thorough { 6 } else { 5 }));
    let delims = to_strs(all_words(&alpha, 3));
    let cdelims = ['a', 'b', 'ñ'];
    for s in &strs {
        for d in &delims {
            exhaust_str(s, d, out);
        }
        for &c in &cdelims {
            exhaust_char(s, c, out);
        }
    }

    // 2. every front/back history on the double-ended Split / RSplit (and their rev())
    let hs = to_strs(all_words(&alpha, 4));
    let hists = all_hists(if thorough { 6 } else { 5 });
    for s in &hs {
        for d in &delims {
            for h in &hists {
                hists_str(s, d, h, out);
            }
        }
        for &c in &cdelims {
            for h in &hists {
                hists_char(s, c, h, out);
            }
        }
    }
    if thorough {
        let hs5: Vec<&String> = strs.iter().filter(|s| s.chars().count() == 5).collect();
        let hists5 = all_hists(5);
        for s in hs5 {
            for d in &delims {
                for h in &hists5 {
                    hists_str(s, d, h, out);
                }
            }
            for &c in &cdelims {
                for h in &hists5 {
                    hists_char(s, c, h, out);
                }
            }
        }
    }

    // 3. characters of every UTF-8 length as text and as delimiters (str and char kinds)
    let wide: [&[u8]; 5] = [b"x", "é".as_bytes(), "€".as_bytes(), "😀".as_bytes(), b","];
    let wstrs = to_strs(all_words(&wide, if thorough { 5 } else { 4 }));
    let wdelims = ["", ",", "é", "€", "😀", "€,", ",😀", "éé", "x€x", "😀😀"];
    let hists4 = all_hists(4);
    for s in &wstrs {
        for d in &wdelims {
            exhaust_str(s, d, out);
        }
        for c in ['x', 'é', '€', '😀', ',', '\u{7ff}', '\u{800}', '\u{ffff}', '\u{10000}', '\u{10ffff}'] {
            exhaust_char(s, c, out);
        }
        if s.chars().count() <= 3 {
            for h in &hists4 {
                for c in ['é', '€', '😀', ','] {
                    hists_char(s, c, h, out);
                }
                for d in ["", "€,", "éé", "😀"] {
                    hists_str(s, d, h, out);
                }
            }
        }
    }

    // 4. seeded random: longer strings with planted delimiters, near misses and overlaps
    let mut rng = Rng(seed ^ 0xC06);
    let letters = ["a", "b", "ab", "ñ", "€", "😀", ",", "--", "a"];
    let rdelims = ["", "a", "ab", "aa", "aba", "abab", ",", "--", "-", "ñ", "ññ", "€", "a€a", "😀", "b,"];
    let n = if thorough { 20000 } else { 2500 };
    for _ in 0..n {
        let d = rdelims[rng.below(rdelims.len() as u64) as usize];
        let len = rng.below(14) as usize;
        let mut s = String::new();
        for _ in 0..len {
            match rng.below(10) {
                0..=2 => s.push_str(d),
                3 => {
                    // near miss: the delimiter without its last char
                    let mut cs: Vec<char> = d.chars().collect();
                    cs.pop();
                    s.extend(cs);
                }
                _ => s.push_str(letters[rng.below(letters.len() as u64) as usize]),
            }
        }
        exhaust_str(&s, d, out);
        let mut h = String::new();
        for _ in 0..(1 + rng.below(9)) {
            h.push(if rng.below(2) == 0 { 'f' } else { 'b' });
        }
        hists_str(&s, d, &h, out);
        let mut it = d.chars();
        if let (Some(c), None) = (it.next(), it.next()) {
            exhaust_char(&s, c, out);
            hists_char(&s, c, &h, out);
        }
    }
}
