//! C03: string slicing / char-boundary functions vs std str indexing.
use crate::util::*;
use konst::string as kstr;

fn indices(len: usize) -> Vec<usize> {
    let mut v: Vec<usize> = (0..=len + 2).collect();
    v.push(usize::MAX);
    v
}

fn pair(a: String, b: String) -> String {
    format!("{}|{}", a, b)
}

/// every C03 function on one string, all indices / index pairs (incl. i > j)
fn run_string(s: &str, out: &mut Out) {
    run_string_idx(s, indices(s.len()), out)
}

/// every C03 function on one string, the given indices / all pairs of them
fn run_string_idx(s: &str, idx: Vec<usize>, out: &mut Out) {
    let h = hex(s.as_bytes());
    let len = s.len();
    for &i in &idx {
        out.emit(&format!("str.is_char_boundary {} {}", h, i), b(kstr::is_char_boundary(s, i)), b(s.is_char_boundary(i)), true);
        out.emit(&format!("str.get_from {} {}", h, i), &opt_view_str(s, kstr::get_from(s, i)), &opt_view_str(s, s.get(i..)), true);
        out.emit(&format!("str.get_up_to {} {}", h, i), &opt_view_str(s, kstr::get_up_to(s, i)), &opt_view_str(s, s.get(..i)), true);
        let c = i.min(len);
        out.emit(&format!("str.str_from {} {}", h, i), &catch(|| view_str(s, kstr::str_from(s, i))), &catch(|| view_str(s, &s[c..])), true);
        out.emit(&format!("str.str_up_to {} {}", h, i), &catch(|| view_str(s, kstr::str_up_to(s, i))), &catch(|| view_str(s, &s[..c])), true);
        out.emit(
            &format!("str.split_at {} {}", h, i),
            &catch(|| {
                let (l, r) = kstr::split_at(s, i);
                pair(view_str(s, l), view_str(s, r))
            }),
            &catch(|| {
                let (l, r) = s.split_at(c);
                pair(view_str(s, l), view_str(s, r))
            }),
            true,
        );
        for &j in &idx {
            out.emit(&format!("str.get_range {} {} {}", h, i, j), &opt_view_str(s, kstr::get_range(s, i, j)), &opt_view_str(s, s.get(i..j)), true);
            let e = j.min(len);
            out.emit(
                &format!("str.str_range {} {} {}", h, i, j),
                &catch(|| view_str(s, kstr::str_range(s, i, j))),
                // documented: indices beyond the length act as the length, start > end gives "",
                // an in-range index inside a character panics
                &catch(|| {
                    if !s.is_char_boundary(c) || !s.is_char_boundary(e) {
                        panic!("not on a char boundary")
                    }
                    if c > e {
                        view_str(s, "")
                    } else {
                        view_str(s, &s[c..e])
                    }
                }),
                true,
            );
        }
    }
}

/// characters whose encodings contain the extreme lead / continuation bytes
/// (7F | C2 80 | DF BF | E0 A0 80 | ED 9F BF | EE 80 80 | EF BF BF | F0 90 80 80 | F4 8F BF BF)
const EXTREME: [char; 9] = ['\u{7F}', '\u{80}', '\u{7FF}', '\u{800}', '\u{D7FF}', '\u{E000}', '\u{FFFF}', '\u{10000}', '\u{10FFFF}'];

pub fn run(tier: &str, seed: u64, out: &mut Out) {
    let thorough = tier == "thorough";
    // exhaustive: all strings over {a, ñ, €, 😀}
    let alpha: [&[u8]; 4] = ["a".as_bytes(), "ñ".as_bytes(), "€".as_bytes(), "😀".as_bytes()];
    for w in all_words(&alpha, if thorough { 6 } else { 4 }) {
        run_string(std::str::from_utf8(&w).unwrap(), out);
    }
    // exhaustive: all strings over the extreme characters
    let ext: Vec<String> = EXTREME.iter().map(|c| c.to_string()).collect();
    let ext_b: Vec<&[u8]> = ext.iter().map(|s| s.as_bytes()).collect();
    for w in all_words(&ext_b, if thorough { 3 } else { 2 }) {
        run_string(std::str::from_utf8(&w).unwrap(), out);
    }
    // seeded random: longer strings of random scalar values of all four lengths
    let mut rng = Rng(seed ^ 0xC03);
    let n = if thorough { 3000 } else { 300 };
    for _ in 0..n {
        let k = rng.below(if thorough { 14 } else { 9 }) as usize;
        let mut s = String::new();
        for _ in 0..k {
            let c = loop {
                let v = match rng.below(5) {
                    0 => rng.below(0x80),
                    1 => 0x80 + rng.below(0x800 - 0x80),
                    2 => 0x800 + rng.below(0x10000 - 0x800),
                    3 => 0x10000 + rng.below(0x110000 - 0x10000),
                    _ => EXTREME[rng.below(9) as usize] as u64,
                } as u32;
                if let Some(c) = char::from_u32(v) {
                    break c;
                }
            };
            s.push(c);
        }
        run_string(&s, out);
    }
    run_large(thorough, seed, out);
}

/// seeded stream of LONG strings (10..=60 chars of all four encoded lengths, the rare lead /
/// continuation bytes over-represented) with a few random indices each: on / inside characters,
/// late in the string, at and beyond the length, huge
fn run_large(thorough: bool, seed: u64, out: &mut Out) {
    let mut rng = Rng(seed ^ 0xC03_1A26E);
    let n = if thorough { 280 } else { 28 };
    for _ in 0..n {
        let s = rand_string(&mut rng, 10, 60);
        let len = s.len();
        let bounds: Vec<usize> = s.char_indices().map(|(i, _)| i).collect();
        let mut idx: Vec<usize> = Vec::new();
        // two boundaries, two positions inside (or just behind) a character, one anywhere, one late
        for k in 0..6 {
            let bnd = bounds[rng.below(bounds.len() as u64) as usize];
            idx.push(match k {
                0 | 1 => bnd,
                2 | 3 => bnd + 1 + rng.below(3) as usize,
                4 => rng.below(len as u64 + 1) as usize,
                _ => len - 1 - rng.below(4.min(len as u64)) as usize,
            });
        }
        idx.push(len);
        idx.push(len + 1 + rng.below(3) as usize);
        idx.push(match rng.below(5) {
            0 => usize::MAX,
            1 => isize::MAX as usize,
            2 => isize::MAX as usize + 1,
            3 => (rng.next() as usize) | (1 << 62),
            _ => len + rng.below(1 << 20) as usize,
        });
        run_string_idx(&s, idx, out);
    }
}
