//! C09: konst's range iterators (`a..b`, `a..=b`, `a..` over the 12 integer types and `char`) against
//! `core::ops::{Range, RangeInclusive, RangeFrom}`.
//!
//! requests (see lean/Driver/C09.lean):
//!   rg.range[.rev] <ty> <a> <b> <hist>        direct `next`/`next_back` on `into_iter!(a..b)[.rev()]`
//!   rg.rangeinc[.rev] <ty> <a> <b> <hist>
//!   rg.{range,rangeinc}.<via>[.rev|.irev] <ty> <a> <b>   whole iteration through `for_each!` (fe, range
//!        passed by value) or `iter::eval!` (ev, range passed by reference); `.rev` = the macro's `rev()`
//!        method, `.irev` = `into_iter!(..).rev()`; `zfe` = the range is the argument of `zip(..)` of a counter of
//!        the same length.  (`collect_const!` const items: vlib/progs/c09_cc.py)
//!   rg.rangefrom[.fe|.ev] <ty> <a> <k>        first k items of `a..` (`next` k times / `for_each!` with a
//!        `break` after k items / `eval!` with `take(k)`: k pulls each — `take` tests its countdown before the
//!        source is pulled, since /repo 9827f8a + 7ecb606)
//!   rg.rftop.<via> <ty> <a> <k>            `a..` with a close to the type's MAX, driven up to and past MAX:
//!        what a consumer observes step by step, `[v:<x>;…]` followed by `panic` (a step panicked) or `end`
//!        (the iteration ENDED although the consumer wanted more); <via> ∈ next (k calls of `next`), fe
//!        (`for_each!` + `break` after k items), take / evtake (`for_each!`/`eval!` with `take(k)`), zip
//!        (`a.., zip(0..k)`), zipin (`0..k, zip(a..)`), nth (`eval!(a.., nth(k))`), evnext (`eval!(a.., next())`)
//!   rg.rftop.find <ty> <a> <target>        `eval!(a.., find(|x| x == target))`
//!        oracle: std's `RangeFrom` under `catch_unwind` in this same build profile (overflow checks on:
//!        values up to MAX-1, then the step that would have to compute MAX+1 panics; it never ends)
//! values in decimal, chars as their u32 scalar value.
use crate::util::*;

/// run `f`, which pushes one observation per step into the vector; a panic becomes the final observation
/// `panic` (or `runaway` when it was the harness's own guard against an iteration that does not stop)
pub fn steps<F: FnOnce(&mut Vec<String>, &std::cell::Cell<bool>)>(f: F) -> String {
    let mut v: Vec<String> = Vec::new();
    let runaway = std::cell::Cell::new(false);
    let r = std::panic::catch_unwind(std::panic::AssertUnwindSafe(|| f(&mut v, &runaway)));
    if r.is_err() {
        v.push(if runaway.get() { "runaway" } else { "panic" }.to_string());
    }
    fin(v)
}

/// the consumer wanted `k` items: fewer without a panic means the iteration ended
pub fn want(v: &mut Vec<String>, k: usize) {
    if v.len() < k {
        v.push("end".to_string());
    }
}

/// panics (→ the token `panic`) when an iteration macro yields more than `limit` items
pub fn guard(v: &Vec<String>, limit: usize) {
    if v.len() > limit {
        panic!("iteration does not stop");
    }
}

pub fn fin(v: Vec<String>) -> String {
    format!("[{}]", v.join(";"))
}

/// all front/back histories of exactly `n` steps
pub fn histories(n: usize) -> Vec<String> {
    (0..(1u32 << n))
        .map(|m| (0..n).map(|i| if m >> i & 1 == 0 { 'f' } else { 'b' }).collect())
        .collect()
}

pub const MIXED: [&str; 6] = [
    "fbfbfbfbfbfb",
    "bfbfbfbfbfbf",
    "ffbbffbbffbb",
    "bbbffffbbbbf",
    "fffffbbbbbbb",
    "bbbbbbffffff",
];

/// konst side of a history: by-value `next`/`next_back` (through `copy()`, since a `None` consumes the iterator)
macro_rules! drive_konst {
    ($it:expr, $h:expr) => {{
        let mut it = $it;
        let mut v: Vec<String> = Vec::new();
        for d in $h.chars() {
            let r = if d == 'f' { it.copy().next() } else { it.copy().next_back() };
            match r {
                Some((x, n)) => {
                    it = n;
                    v.push(show(x));
                }
                None => v.push("none".to_string()),
            }
        }
        fin(v)
    }};
}

macro_rules! drive_std {
    ($it:expr, $h:expr) => {{
        let mut it = $it;
        let mut v: Vec<String> = Vec::new();
        for d in $h.chars() {
            let r = if d == 'f' { it.next() } else { it.next_back() };
            match r {
                Some(x) => v.push(show(x)),
                None => v.push("none".to_string()),
            }
        }
        fin(v)
    }};
}

/// run `$body` (which fills `$v` from the range `$r`) on `a..b` or `a..=b` and emit the row
macro_rules! both {
    ($emit:ident, $inc:ident, $a:ident, $b:ident, $via:expr, $ora:expr, |$r:ident, $v:ident| $body:expr) => {
        if $inc {
            $emit($via, catch(|| { let $r = $a..=$b; let mut $v: Vec<String> = Vec::new(); $body; fin($v) }), $ora);
        } else {
            $emit($via, catch(|| { let $r = $a..$b; let mut $v: Vec<String> = Vec::new(); $body; fin($v) }), $ora);
        }
    };
}

macro_rules! ty_mod {
    (
        $m:ident, $T:ty, $name:literal,
        show = |$x:ident| $show:expr,
        min = $min:expr, max = $max:expr,
        neigh = |$w:ident| $neigh:expr,
        all = $all:expr,
        rand = |$rng:ident| $rand:expr,
        offset = |$oa:ident, $od:ident| $offset:expr
    ) => {
        pub mod $m {
            use super::{fin, guard, histories, steps, want, MIXED};
            use crate::util::*;
            use konst::iter;

            pub const NAME: &str = $name;
            pub fn show($x: $T) -> String {
                $show
            }
            pub fn neigh($w: i64) -> Vec<$T> {
                let mut v: Vec<$T> = $neigh;
                v.sort();
                v.dedup();
                v
            }
            fn rand_val($rng: &mut Rng) -> $T {
                $rand
            }
            fn offset($oa: $T, $od: i64) -> Option<$T> {
                $offset
            }

            /// `rg.range[.rev]` / `rg.rangeinc[.rev]` with a history
            pub fn hist(inc: bool, rev: bool, a: $T, b: $T, h: &str, out: &mut Out) {
                let (imp, ora) = match (inc, rev) {
                    (false, false) => (catch(|| drive_konst!(iter::into_iter!(a..b), h)), drive_std!(a..b, h)),
                    (false, true) => (catch(|| drive_konst!(iter::into_iter!(a..b).rev(), h)), drive_std!((a..b).rev(), h)),
                    (true, false) => (catch(|| drive_konst!(iter::into_iter!(a..=b), h)), drive_std!(a..=b, h)),
                    (true, true) => (catch(|| drive_konst!(iter::into_iter!(a..=b).rev(), h)), drive_std!((a..=b).rev(), h)),
                };
                let req = format!(
                    "rg.{}{} {} {} {} {}",
                    if inc { "rangeinc" } else { "range" },
                    if rev { ".rev" } else { "" },
                    NAME,
                    show(a),
                    show(b),
                    if h.is_empty() { "-" } else { h }
                );
                out.emit(&req, &imp, &ora, true);
            }

            /// number of items std yields
            pub fn count(inc: bool, a: $T, b: $T) -> usize {
                if inc { (a..=b).count() } else { (a..b).count() }
            }

            /// whole iteration through `for_each!` (by value) and `iter::eval!` (by reference)
            pub fn macros(inc: bool, a: $T, b: $T, out: &mut Out) {
                let kind = if inc { "rangeinc" } else { "range" };
                // a broken iterator must not hang the harness: more items than std yields (+2) is a panic
                let limit = count(inc, a, b) + 2;
                let fwd: String = if inc { fin((a..=b).map(show).collect()) } else { fin((a..b).map(show).collect()) };
                let bwd: String =
                    if inc { fin((a..=b).rev().map(show).collect()) } else { fin((a..b).rev().map(show).collect()) };
                let mut emit = |via: &str, imp: String, ora: &str| {
                    out.emit(&format!("rg.{}.{} {} {} {}", kind, via, NAME, show(a), show(b)), &imp, ora, true);
                };
                both!(emit, inc, a, b, "fe", &fwd, |r, v| iter::for_each! {x in r => { v.push(show(x)); guard(&v, limit); }});
                both!(emit, inc, a, b, "fe.rev", &bwd, |r, v| iter::for_each! {x in r, rev() => { v.push(show(x)); guard(&v, limit); }});
                both!(emit, inc, a, b, "fe.irev", &bwd, |r, v| iter::for_each! {x in iter::into_iter!(r).rev() => { v.push(show(x)); guard(&v, limit); }});
                both!(emit, inc, a, b, "ev", &fwd, |r, v| iter::eval!(&r, for_each(|x| { v.push(show(x)); guard(&v, limit) })));
                both!(emit, inc, a, b, "ev.rev", &bwd, |r, v| iter::eval!(&r, rev(), for_each(|x| { v.push(show(x)); guard(&v, limit) })));
                both!(emit, inc, a, b, "ev.irev", &bwd, |r, v| iter::eval!(iter::into_iter!(&r).rev(), for_each(|x| { v.push(show(x)); guard(&v, limit) })));
                // the range as the ARGUMENT of `zip` (of a counter of the same length, so that std's and konst's
                // pairing of a reversed zip coincide): it is walked by the same `next`/`next_back` as the source
                // (added after seeded change C09-r4-1: the zipped iterator always stepped with `next`)
                let n = count(inc, a, b);
                both!(emit, inc, a, b, "zfe", &fwd, |r, v| iter::for_each! {(_, x) in 0..n, zip(r) => { v.push(show(x)); guard(&v, limit); }});
                both!(emit, inc, a, b, "zfe.rev", &bwd, |r, v| iter::for_each! {(_, x) in 0..n, zip(r), rev() => { v.push(show(x)); guard(&v, limit); }});
            }

            /// `a..` : first k items; in scope while every item the consumer asks for stays below MAX (beyond that
            /// std's own `RangeFrom` overflows; `rg.rftop` compares that region step by step)
            pub fn from(a: $T, k: usize, out: &mut Out) {
                let max: $T = $max;
                // number of values strictly between a (inclusive) and MAX (exclusive), capped
                let room = (a..max).take(k + 2).count();
                let ora = catch(|| {
                    let mut it = a..;
                    let mut v: Vec<String> = Vec::new();
                    for _ in 0..k {
                        v.push(show(it.next().unwrap()));
                    }
                    fin(v)
                });
                let imp = catch(|| {
                    let mut it = iter::into_iter!(a..);
                    let mut v: Vec<String> = Vec::new();
                    for _ in 0..k {
                        let (x, n) = it.copy().next().unwrap();
                        it = n;
                        v.push(show(x));
                    }
                    fin(v)
                });
                out.emit(&format!("rg.rangefrom {} {} {}", NAME, show(a), k), &imp, &ora, k <= room);
                let imp = catch(|| {
                    let mut v: Vec<String> = Vec::new();
                    if k > 0 {
                        iter::for_each! {x in a.. => {
                            v.push(show(x));
                            if v.len() == k { break; }
                        }}
                    }
                    fin(v)
                });
                out.emit(&format!("rg.rangefrom.fe {} {} {}", NAME, show(a), k), &imp, &ora, k <= room);
                // `take(k)` pulls exactly k items from its source (the countdown is tested at the top of the loop,
                // `__cim_take_guard!`), so the boundary `k == room` — the k-th item is MAX-1, the next step would be
                // the one at MAX — is in scope like for the two consumers above
                let imp = catch(|| {
                    let mut v: Vec<String> = Vec::new();
                    iter::eval!(&(a..), take(k), for_each(|x| v.push(show(x))));
                    fin(v)
                });
                let ora = catch(|| fin((a..).take(k).map(show).collect()));
                out.emit(&format!("rg.rangefrom.ev {} {} {}", NAME, show(a), k), &imp, &ora, k <= room);
            }


            fn tok(x: $T) -> String {
                format!("v:{}", show(x))
            }

            /// `a..` driven up to and past MAX (see the module header): every consumer, k items wanted
            pub fn from_top(a: $T, k: usize, out: &mut Out) {
                // (below, d = the number of values in `a..MAX`: what `a..` yields before the step that has to go
                // beyond MAX; every consumer is in scope for every k, whether k < d, k == d or k > d)
                let mut emit = |via: &str, arg: String, imp: String, ora: String, scope: bool| {
                    out.emit(&format!("rg.rftop.{} {} {} {}", via, NAME, show(a), arg), &imp, &ora, scope);
                };
                // k calls of `next`
                let imp = steps(|v, _| {
                    let mut it = iter::into_iter!(a..);
                    for _ in 0..k {
                        match it.copy().next() {
                            Some((x, n)) => {
                                it = n;
                                v.push(tok(x));
                            }
                            None => {
                                v.push("end".to_string());
                                break;
                            }
                        }
                    }
                });
                let ora = steps(|v, _| {
                    let mut it = a..;
                    for _ in 0..k {
                        match it.next() {
                            Some(x) => v.push(tok(x)),
                            None => {
                                v.push("end".to_string());
                                break;
                            }
                        }
                    }
                });
                emit("next", k.to_string(), imp, ora, true);
                // `for_each!` with a `break` after k items
                if k > 0 {
                    let imp = steps(|v, _| {
                        iter::for_each! {x in a.. => {
                            v.push(tok(x));
                            if v.len() == k { break; }
                        }}
                        want(v, k);
                    });
                    let ora = steps(|v, _| {
                        for x in a.. {
                            v.push(tok(x));
                            if v.len() == k {
                                break;
                            }
                        }
                        want(v, k);
                    });
                    emit("fe", k.to_string(), imp, ora, true);
                }
                // `take(k)`: like std's `Take`, konst's emitted loop stops BEFORE pulling a (k+1)-th item (countdown
                // tested at the top of the loop), so also for k == d — where that pull would be the step at MAX and
                // panic, as it did up to /repo 9827f8a~1 — both yield the k values and nothing else: in scope for all k
                let ora = steps(|v, _| {
                    for x in (a..).take(k) {
                        v.push(tok(x));
                    }
                    want(v, k);
                });
                let imp = steps(|v, _| {
                    iter::for_each! {x in a.., take(k) => { v.push(tok(x)); }}
                    want(v, k);
                });
                emit("take", k.to_string(), imp, ora.clone(), true);
                let imp = steps(|v, _| {
                    iter::eval!(&(a..), take(k), for_each(|x| v.push(tok(x))));
                    want(v, k);
                });
                emit("evtake", k.to_string(), imp, ora, true);
                // zip with a k-item iterator: `a..` first (konst and std both pull k+1 items from it) / second (k items)
                let imp = steps(|v, _| {
                    iter::for_each! {(x, _) in a.., zip(0..k) => { v.push(tok(x)); }}
                    want(v, k);
                });
                let ora = steps(|v, _| {
                    for (x, _) in (a..).zip(0..k) {
                        v.push(tok(x));
                    }
                    want(v, k);
                });
                emit("zip", k.to_string(), imp, ora, true);
                let imp = steps(|v, _| {
                    iter::for_each! {(_, x) in 0..k, zip(a..) => { v.push(tok(x)); }}
                    want(v, k);
                });
                let ora = steps(|v, _| {
                    for (_, x) in (0..k).zip(a..) {
                        v.push(tok(x));
                    }
                    want(v, k);
                });
                emit("zipin", k.to_string(), imp, ora, true);
                // `nth(k)` / `next()` as consumers
                let one = |r: Option<$T>| match r {
                    Some(x) => tok(x),
                    None => "end".to_string(),
                };
                let imp = steps(|v, _| v.push(one(iter::eval!(a.., nth(k)))));
                let ora = steps(|v, _| v.push(one((a..).nth(k))));
                emit("nth", k.to_string(), imp, ora, true);
                if k == 1 {
                    let imp = steps(|v, _| v.push(one(iter::eval!(a.., next()))));
                    let ora = steps(|v, _| v.push(one((a..).next())));
                    emit("evnext", k.to_string(), imp, ora, true);
                }
                // `find`: the k-th value after a, or (beyond MAX) a value the iteration never reaches
                let target: $T = match offset(a, k as i64) {
                    Some(t) => t,
                    None => $min,
                };
                let limit = 24usize; // = `findLimit` of the driver
                let imp = steps(|v, runaway| {
                    let mut calls = 0usize;
                    let r = iter::eval!(a.., find(|x| {
                        calls += 1;
                        if calls > limit {
                            runaway.set(true);
                            panic!("iteration does not stop");
                        }
                        *x == target
                    }));
                    v.push(one(r));
                });
                let ora = steps(|v, runaway| {
                    let mut calls = 0usize;
                    let r = (a..).find(|x| {
                        calls += 1;
                        if calls > limit {
                            runaway.set(true);
                            panic!("iteration does not stop");
                        }
                        *x == target
                    });
                    v.push(one(r));
                });
                emit("find", show(target), imp, ora, true);
            }

            /// the starts of the `rg.rftop` requests: MAX-w+1..=MAX
            pub fn top_starts(w: i64) -> Vec<$T> {
                let max: $T = $max;
                let mut v: Vec<$T> = (0..w).filter_map(|i| offset(max, -i)).collect();
                v.sort();
                v
            }

            pub fn run(tier: &str, seed: u64, out: &mut Out) {
                let thorough = tier == "thorough";
                let min: $T = $min;
                let max: $T = $max;
                let _ = (min, max);
                let all: Vec<$T> = $all;
                // (2) boundary neighbourhoods: every history of depth d on every pair
                let (w, d) = if thorough { (4, 8) } else { (3, 6) };
                let nb = neigh(w);
                let hs = histories(d);
                for &a in &nb {
                    for &b in &nb {
                        for inc in [false, true] {
                            for h in &hs {
                                hist(inc, false, a, b, h, out);
                                hist(inc, true, a, b, h, out);
                            }
                            // whole iteration where it is short
                            let short = if inc { (a..=b).take(40).count() } else { (a..b).take(40).count() } < 40;
                            if short {
                                macros(inc, a, b, out);
                                let n = count(inc, a, b) + 2;
                                hist(inc, false, a, b, &"f".repeat(n), out);
                                hist(inc, false, a, b, &"b".repeat(n), out);
                                hist(inc, true, a, b, &"f".repeat(n), out);
                                hist(inc, true, a, b, &"b".repeat(n), out);
                            }
                        }
                    }
                }
                // (3) `a..`
                for &a in &nb {
                    for k in 0..=(if thorough { 9 } else { 6 }) {
                        from(a, k, out);
                    }
                }
                for &a in &all {
                    for k in [1usize, 3, 8] {
                        from(a, k, out);
                    }
                }
                // (3b) `a..` up to and past MAX
                let (tw, tk) = if thorough { (8, 11) } else { (5, 7) };
                for a in top_starts(tw) {
                    for k in 0..=tk {
                        from_top(a, k, out);
                    }
                }
                // (1) [after the short requests, so that a replay starts with small cases] complete: every pair of bounds of the 8-bit types
                for &a in &all {
                    for &b in &all {
                        for inc in [false, true] {
                            let n = count(inc, a, b) + 2;
                            let f: String = "f".repeat(n);
                            let bk: String = "b".repeat(n);
                            hist(inc, false, a, b, &f, out);
                            hist(inc, false, a, b, &bk, out);
                            if thorough || n <= 14 {
                                hist(inc, true, a, b, &f, out);
                                hist(inc, true, a, b, &bk, out);
                            }
                            for (i, h) in MIXED.iter().enumerate() {
                                if thorough || i == 0 || i == 3 {
                                    hist(inc, false, a, b, h, out);
                                }
                                if thorough || i == 2 {
                                    hist(inc, true, a, b, h, out);
                                }
                            }
                            // the macros on every short range and on the empty/inverted ones close by
                            if n <= (if thorough { 40 } else { 8 }) && (n > 2 || count(true, b, a) <= 3) {
                                macros(inc, a, b, out);
                            }
                        }
                    }
                }
                // (5) seeded random stream: bounds anywhere in the type, a short distance apart
                let mut rng = Rng(seed ^ 0xC09 ^ (NAME.len() as u64) << 32 ^ (NAME.as_bytes()[0] as u64) << 40);
                let n_rand = if thorough { 6000 } else { 600 };
                for i in 0..n_rand {
                    let a = if i % 7 == 0 { nb[rng.below(nb.len() as u64) as usize] } else { rand_val(&mut rng) };
                    let dist = rng.below(44) as i64 - 4;
                    let b = match offset(a, dist) {
                        Some(b) => b,
                        None => continue,
                    };
                    let len = 1 + rng.below(48) as usize;
                    let h: String = (0..len).map(|_| if rng.below(2) == 0 { 'f' } else { 'b' }).collect();
                    let inc = rng.below(2) == 0;
                    hist(inc, rng.below(3) == 0, a, b, &h, out);
                    if i % 4 == 0 {
                        macros(inc, a, b, out);
                        from(a, rng.below(12) as usize, out);
                    }
                    if i % 8 == 0 {
                        // a start up to 11 below MAX, up to 15 items wanted
                        let a = offset(max, -(rng.below(12) as i64)).unwrap();
                        from_top(a, rng.below(16) as usize, out);
                    }
                }
            }
        }
    };
}

macro_rules! int_mod {
    ($m:ident, $T:ty, $name:literal, all = $all:expr, rand = |$rng:ident| $rand:expr) => {
        ty_mod! {
            $m, $T, $name,
            show = |x| x.to_string(),
            min = <$T>::MIN, max = <$T>::MAX,
            neigh = |w| {
                let mut v: Vec<$T> = Vec::new();
                for i in 0..w {
                    v.push(<$T>::MIN + i as $T);
                    v.push(<$T>::MAX - i as $T);
                }
                if <$T>::MIN != 0 {
                    // signed: around zero
                    for i in 0..w {
                        v.push(i as $T);
                        v.push((0 as $T).wrapping_sub(i as $T));
                    }
                }
                v
            },
            all = $all,
            rand = |$rng| $rand,
            offset = |a, d| if d >= 0 { a.checked_add(d as $T) } else { a.checked_sub((-d) as $T) }
        }
    };
}

int_mod! {t_u8, u8, "u8", all = (u8::MIN..=u8::MAX).collect(), rand = |r| r.next() as u8}
int_mod! {t_i8, i8, "i8", all = (i8::MIN..=i8::MAX).collect(), rand = |r| r.next() as i8}
int_mod! {t_u16, u16, "u16", all = Vec::new(), rand = |r| r.next() as u16}
int_mod! {t_i16, i16, "i16", all = Vec::new(), rand = |r| r.next() as i16}
int_mod! {t_u32, u32, "u32", all = Vec::new(), rand = |r| r.next() as u32}
int_mod! {t_i32, i32, "i32", all = Vec::new(), rand = |r| r.next() as i32}
int_mod! {t_u64, u64, "u64", all = Vec::new(), rand = |r| r.next()}
int_mod! {t_i64, i64, "i64", all = Vec::new(), rand = |r| r.next() as i64}
int_mod! {t_u128, u128, "u128", all = Vec::new(), rand = |r| ((r.next() as u128) << 64) | r.next() as u128}
int_mod! {t_i128, i128, "i128", all = Vec::new(), rand = |r| (((r.next() as u128) << 64) | r.next() as u128) as i128}
int_mod! {t_usize, usize, "usize", all = Vec::new(), rand = |r| r.next() as usize}
int_mod! {t_isize, isize, "isize", all = Vec::new(), rand = |r| r.next() as isize}

ty_mod! {
    t_char, char, "char",
    show = |x| (x as u32).to_string(),
    min = '\0', max = char::MAX,
    neigh = |w| {
        let mut v: Vec<char> = Vec::new();
        for i in 0..w as u32 {
            v.push(char::from_u32(i).unwrap());
            v.push(char::from_u32(0xD7FF - i).unwrap());
            v.push(char::from_u32(0xE000 + i).unwrap());
            v.push(char::from_u32(0x10FFFF - i).unwrap());
        }
        v
    },
    all = Vec::new(),
    rand = |r| loop {
        // half of the stream close to the surrogate gap
        let n = if r.below(2) == 0 { 0xD7C0 + r.below(0x880) as u32 } else { r.below(0x110000) as u32 };
        if let Some(c) = char::from_u32(n) {
            break c;
        }
    },
    offset = |a, d| {
        // `d` scalar values further (skipping the gap), like `Step::forward`
        let mut n = a as u32 as i64 + d;
        if (a as u32) < 0xD800 && n >= 0xD800 {
            n += 0x800;
        }
        if (a as u32) >= 0xE000 && n < 0xE000 {
            n -= 0x800;
        }
        if n < 0 { None } else { char::from_u32(n as u32) }
    }
}

/// char ranges crossing the surrogate gap, walked completely from either end and alternately
fn char_gap(tier: &str, out: &mut Out) {
    let w = if tier == "thorough" { 24 } else { 10 };
    for i in 0..w {
        for j in 0..w {
            let a = char::from_u32(0xD7FF - i).unwrap();
            let b = char::from_u32(0xE000 + j).unwrap();
            for inc in [false, true] {
                let n = t_char::count(inc, a, b) + 2;
                let alt: String = (0..n).map(|k| if k % 2 == 0 { 'f' } else { 'b' }).collect();
                let alt2: String = (0..n).map(|k| if k % 3 == 0 { 'b' } else { 'f' }).collect();
                for rev in [false, true] {
                    t_char::hist(inc, rev, a, b, &"f".repeat(n), out);
                    t_char::hist(inc, rev, a, b, &"b".repeat(n), out);
                    t_char::hist(inc, rev, a, b, &alt, out);
                    t_char::hist(inc, rev, a, b, &alt2, out);
                    // inverted
                    t_char::hist(inc, rev, b, a, "fbfb", out);
                }
                t_char::macros(inc, a, b, out);
            }
        }
    }
    // a sweep over the whole gap neighbourhood and one to the maximum
    let c = |n: u32| char::from_u32(n).unwrap();
    for (a, b) in [(c(0xD700), c(0xE100)), (c(0x10FF00), c(0x10FFFF)), (c(0), c(0x200))] {
        for inc in [false, true] {
            let n = t_char::count(inc, a, b) + 2;
            t_char::hist(inc, false, a, b, &"f".repeat(n), out);
            t_char::hist(inc, false, a, b, &"b".repeat(n), out);
            t_char::hist(inc, true, a, b, &"f".repeat(n), out);
            t_char::macros(inc, a, b, out);
        }
    }
    for a in [c(0xD7F0), c(0xD7FF), c(0xE000), c(0x10FFF0)] {
        for k in [0usize, 1, 15, 16, 17, 40] {
            t_char::from(a, k, out);
        }
    }
    // `a..` observed step by step across the gap (never near char::MAX: values only) and from 0x10FFF0 to the top
    for a in [c(0xD7FC), c(0xD7FD), c(0xD7FE), c(0xD7FF), c(0xE000), c(0xE001)] {
        for k in 0..=7 {
            t_char::from_top(a, k, out);
        }
    }
    for k in [14usize, 15, 16, 17, 20] {
        t_char::from_top(c(0x10FFF0), k, out);
    }
}

/// `konst::for_range!{x in a..b => ..}` (integer types): the values bound, vs std's `a..b`
macro_rules! for_range_ty {
    ($T:ty, $name:literal, $out:ident) => {{
        let min = <$T>::MIN;
        let max = <$T>::MAX;
        let mut vals: Vec<$T> = vec![min, min + 1, min + 2, max - 2, max - 1, max, 0 as $T, 1 as $T, 2 as $T, 5 as $T, 100 as $T];
        #[allow(unused_comparisons)]
        if min < 0 as $T {
            vals.extend_from_slice(&[(0 as $T).wrapping_sub(1), (0 as $T).wrapping_sub(2), (0 as $T).wrapping_sub(100)]);
        }
        vals.sort();
        vals.dedup();
        for &a in &vals {
            for &b in &vals {
                let n = (a..b).take(130).count();
                if n >= 130 {
                    continue;
                }
                let ora = fin((a..b).map(|x| x.to_string()).collect());
                let imp = catch(|| {
                    let mut v: Vec<String> = Vec::new();
                    konst::for_range! {x in a..b =>
                        v.push(x.to_string());
                        guard(&v, n + 2);
                    }
                    fin(v)
                });
                $out.emit(&format!("rg.range.fr {} {} {}", $name, a, b), &imp, &ora, true);
            }
        }
    }};
}

fn for_range_all(out: &mut Out) {
    for_range_ty!(u8, "u8", out);
    for_range_ty!(i8, "i8", out);
    for_range_ty!(u16, "u16", out);
    for_range_ty!(i16, "i16", out);
    for_range_ty!(u32, "u32", out);
    for_range_ty!(i32, "i32", out);
    for_range_ty!(u64, "u64", out);
    for_range_ty!(i64, "i64", out);
    for_range_ty!(u128, "u128", out);
    for_range_ty!(i128, "i128", out);
    for_range_ty!(usize, "usize", out);
    for_range_ty!(isize, "isize", out);
}

pub fn run(tier: &str, seed: u64, out: &mut Out) {
    for_range_all(out);
    t_u8::run(tier, seed, out);
    t_i8::run(tier, seed, out);
    t_u16::run(tier, seed, out);
    t_i16::run(tier, seed, out);
    t_u32::run(tier, seed, out);
    t_i32::run(tier, seed, out);
    t_u64::run(tier, seed, out);
    t_i64::run(tier, seed, out);
    t_u128::run(tier, seed, out);
    t_i128::run(tier, seed, out);
    t_usize::run(tier, seed, out);
    t_isize::run(tier, seed, out);
    t_char::run(tier, seed, out);
    char_gap(tier, out);
}
