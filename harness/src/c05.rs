//! C05: starts_with / ends_with / strip_prefix / strip_suffix / trim_*_matches / whitespace trimming
//! on byte slices (`b.`) and strs (`st.`) vs std.
use crate::c04::{as_char, kinds_for, kinds_for_big, random_case, with_bpat, with_spat, Alpha, Kind};
use crate::util::*;
use konst::slice as ks;
use konst::string as kst;

/// byte-slice oracle for `trim_start_matches` (std only has it on `str`): strip whole repetitions
fn naive_trim_start<'a>(mut h: &'a [u8], n: &[u8]) -> &'a [u8] {
    if n.is_empty() {
        return h;
    }
    while let Some(r) = h.strip_prefix(n) {
        h = r;
    }
    h
}
fn naive_trim_end<'a>(mut h: &'a [u8], n: &[u8]) -> &'a [u8] {
    if n.is_empty() {
        return h;
    }
    while let Some(r) = h.strip_suffix(n) {
        h = r;
    }
    h
}

fn bytes_case(h: &[u8], n: &[u8], kind: Kind, out: &mut Out) {
    let k = kind.name();
    let (hh, nh) = (hex(h), hex(n));
    let req = |f: &str| format!("b.{} {} {} {}", f, k, hh, nh);

    let imp = catch(|| b(with_bpat!(kind, n, |p| ks::bytes_start_with(h, p))).to_string());
    out.emit(&req("starts_with"), &imp, b(h.starts_with(n)), true);
    let imp = catch(|| b(with_bpat!(kind, n, |p| ks::bytes_end_with(h, p))).to_string());
    out.emit(&req("ends_with"), &imp, b(h.ends_with(n)), true);
    let imp = catch(|| opt_view(h, with_bpat!(kind, n, |p| ks::bytes_strip_prefix(h, p))));
    out.emit(&req("strip_prefix"), &imp, &opt_view(h, h.strip_prefix(n)), true);
    let imp = catch(|| opt_view(h, with_bpat!(kind, n, |p| ks::bytes_strip_suffix(h, p))));
    out.emit(&req("strip_suffix"), &imp, &opt_view(h, h.strip_suffix(n)), true);
    let imp = catch(|| view(h, with_bpat!(kind, n, |p| ks::bytes_trim_start_matches(h, p))));
    out.emit(&req("trim_start_matches"), &imp, &view(h, naive_trim_start(h, n)), true);
    let imp = catch(|| view(h, with_bpat!(kind, n, |p| ks::bytes_trim_end_matches(h, p))));
    out.emit(&req("trim_end_matches"), &imp, &view(h, naive_trim_end(h, n)), true);
    let imp = catch(|| view(h, with_bpat!(kind, n, |p| ks::bytes_trim_matches(h, p))));
    out.emit(&req("trim_matches"), &imp, &view(h, naive_trim_end(naive_trim_start(h, n), n)), true);
}

fn str_case(h: &str, n: &[u8], kind: Kind, out: &mut Out) {
    let k = kind.name();
    let (hh, nh) = (hex(h.as_bytes()), hex(n));
    let req = |f: &str| format!("st.{} {} {} {}", f, k, hh, nh);
    let ns = std::str::from_utf8(n).unwrap();
    // std oracle with the same kind of pattern.  `str::trim_matches` needs a double-ended searcher
    // (not available for `&str` patterns): konst documents "start, then end", which is the oracle.
    let (sw, ew, sp, ss, ts, te, tm) = match kind {
        Kind::Char => {
            let c = as_char(n).unwrap();
            (h.starts_with(c), h.ends_with(c), h.strip_prefix(c), h.strip_suffix(c),
             h.trim_start_matches(c), h.trim_end_matches(c), h.trim_start_matches(c).trim_end_matches(c))
        }
        _ => (h.starts_with(ns), h.ends_with(ns), h.strip_prefix(ns), h.strip_suffix(ns),
              h.trim_start_matches(ns), h.trim_end_matches(ns), h.trim_start_matches(ns).trim_end_matches(ns)),
    };
    if let Kind::Char = kind {
        // for a char pattern std's own trim_matches exists and must agree with "start, then end"
        assert_eq!(h.trim_matches(as_char(n).unwrap()), tm);
    }

    let imp = catch(|| b(with_spat!(kind, n, |p| kst::starts_with(h, p))).to_string());
    out.emit(&req("starts_with"), &imp, b(sw), true);
    let imp = catch(|| b(with_spat!(kind, n, |p| kst::ends_with(h, p))).to_string());
    out.emit(&req("ends_with"), &imp, b(ew), true);
    let imp = catch(|| opt_view_str(h, with_spat!(kind, n, |p| kst::strip_prefix(h, p))));
    out.emit(&req("strip_prefix"), &imp, &opt_view_str(h, sp), true);
    let imp = catch(|| opt_view_str(h, with_spat!(kind, n, |p| kst::strip_suffix(h, p))));
    out.emit(&req("strip_suffix"), &imp, &opt_view_str(h, ss), true);
    let imp = catch(|| view_str(h, with_spat!(kind, n, |p| kst::trim_start_matches(h, p))));
    out.emit(&req("trim_start_matches"), &imp, &view_str(h, ts), true);
    let imp = catch(|| view_str(h, with_spat!(kind, n, |p| kst::trim_end_matches(h, p))));
    out.emit(&req("trim_end_matches"), &imp, &view_str(h, te), true);
    let imp = catch(|| view_str(h, with_spat!(kind, n, |p| kst::trim_matches(h, p))));
    out.emit(&req("trim_matches"), &imp, &view_str(h, tm), true);
}

fn str_kinds(n: &[u8]) -> Vec<Kind> {
    let mut v = vec![Kind::Str];
    if as_char(n).is_some() {
        v.push(Kind::Char);
    }
    v
}

fn ws_bytes(h: &[u8], out: &mut Out) {
    let hh = hex(h);
    out.emit(&format!("b.trim {}", hh), &catch(|| view(h, ks::bytes_trim(h))), &view(h, h.trim_ascii()), true);
    out.emit(&format!("b.trim_start {}", hh), &catch(|| view(h, ks::bytes_trim_start(h))), &view(h, h.trim_ascii_start()), true);
    out.emit(&format!("b.trim_end {}", hh), &catch(|| view(h, ks::bytes_trim_end(h))), &view(h, h.trim_ascii_end()), true);
}

fn ws_str(h: &str, out: &mut Out) {
    let hh = hex(h.as_bytes());
    out.emit(&format!("st.trim {}", hh), &catch(|| view_str(h, kst::trim(h))), &view_str(h, h.trim_ascii()), true);
    out.emit(&format!("st.trim_start {}", hh), &catch(|| view_str(h, kst::trim_start(h))), &view_str(h, h.trim_ascii_start()), true);
    out.emit(&format!("st.trim_end {}", hh), &catch(|| view_str(h, kst::trim_end(h))), &view_str(h, h.trim_ascii_end()), true);
}

/// LARGE strip/trim case: a needle of 3..=12 letters (random, or with internal periodicity: a unit
/// repeated, possibly plus a partial unit, e.g. "abab", "aba", "aabaab") and a haystack
/// `needle^k1 ++ partial ++ middle ++ partial ++ needle^k2` with k up to 12
fn large_rep_case(rng: &mut Rng, alpha: Alpha) -> (Vec<u8>, Vec<u8>) {
    let nl = 3 + rng.below(10) as usize;
    let needle: Vec<Vec<u8>> = if rng.below(2) == 0 {
        (0..nl).map(|_| alpha.letter(rng)).collect()
    } else {
        let p = 1 + rng.below(1 + nl as u64 / 2) as usize;
        let unit: Vec<Vec<u8>> = (0..p).map(|_| alpha.letter(rng)).collect();
        (0..nl).map(|i| unit[i % p].clone()).collect()
    };
    let reps = |rng: &mut Rng| match rng.below(4) {
        0 => 0,
        1 => 1 + rng.below(2) as usize,
        _ => 3 + rng.below(10) as usize,
    };
    let mut hay: Vec<Vec<u8>> = Vec::new();
    for _ in 0..reps(rng) {
        hay.extend(needle.iter().cloned());
    }
    // a partial repetition behind the leading ones (a prefix of the needle; sometimes a suffix)
    let k = rng.below(nl as u64 + 1) as usize;
    if rng.below(4) == 0 {
        hay.extend(needle[k..].iter().cloned());
    } else {
        hay.extend(needle[..k].iter().cloned());
    }
    match rng.below(4) {
        0 => {}
        1 => hay.push(alpha.letter(rng)),
        _ => {
            for _ in 0..rng.below(30) {
                hay.push(alpha.letter(rng));
            }
        }
    }
    let k = rng.below(nl as u64 + 1) as usize;
    if rng.below(4) == 0 {
        hay.extend(needle[..k].iter().cloned());
    } else {
        hay.extend(needle[k..].iter().cloned());
    }
    for _ in 0..reps(rng) {
        hay.extend(needle.iter().cloned());
    }
    (hay.concat(), needle.concat())
}

/// bytes 0x00..=0x20, 0x7F, 0x85, 0xA0: the five ASCII whitespace bytes and their non-whitespace
/// neighbours (incl. 0x0B, 0x1C..0x1F, NEL and NBSP, which `trim_ascii` leaves alone)
fn ctl_byte(rng: &mut Rng) -> u8 {
    match rng.below(36) {
        k @ 0..=32 => k as u8,
        33 => 0x7F,
        34 => 0x85,
        _ => 0xA0,
    }
}
fn ws_byte(rng: &mut Rng) -> u8 {
    [b' ', b'\t', b'\n', 0x0c, b'\r'][rng.below(5) as usize]
}

/// a run of 10..=40 bytes for one end of the input: mostly a long run of real whitespace with
/// non-whitespace control bytes mixed in at a random depth (`outer_first`: the whitespace run is on
/// the outer side)
fn ws_run(rng: &mut Rng) -> Vec<u8> {
    let len = 10 + rng.below(31) as usize;
    // position (from the outer side) of the first byte that may be non-whitespace
    let clean = match rng.below(4) {
        0 => len,
        1 => rng.below(3) as usize,
        _ => rng.below(len as u64 + 1) as usize,
    };
    (0..len).map(|i| if i < clean || rng.below(3) != 0 { ws_byte(rng) } else { ctl_byte(rng) }).collect()
}

/// bytes >= 0x80 re-encoded as the two-byte UTF-8 form of the same code point (U+0085, U+00A0)
fn latin1_to_utf8(b: &[u8]) -> String {
    b.iter().map(|&x| x as char).collect()
}

fn run_large(thorough: bool, seed: u64, out: &mut Out) {
    let mut rng = Rng(seed ^ 0xC05_1A26E);
    let cases = if thorough { 1500 } else { 150 };
    for i in 0..cases {
        let alpha = [Alpha::Two, Alpha::Four, Alpha::Raw256, Alpha::Utf4, Alpha::AnyChar, Alpha::Two][i % 6];
        let (h, n) = large_rep_case(&mut rng, alpha);
        let kinds = kinds_for_big(&n);
        bytes_case(&h, &n, kinds[(i / 6) % kinds.len()], out);
        if let (Ok(hs), true) = (std::str::from_utf8(&h), std::str::from_utf8(&n).is_ok()) {
            let sk = str_kinds(&n);
            str_case(hs, &n, sk[(i / 6) % sk.len()], out);
        }
    }
    // NEAR MISSES with long patterns (16..=40 bytes): the haystack starts / ends with the pattern except for
    // 0..=2 changed bytes; pairs of changes sit at positions that agree modulo 8 or 16 and carry the same wrong
    // letter (a word-wise comparison that folds differences must still see them)
    let ncases = if thorough { 3000 } else { 300 };
    for i in 0..ncases {
        let alpha = [Alpha::Two, Alpha::Four, Alpha::Two, Alpha::Raw256][i % 4];
        let pl = 16 + rng.below(25) as usize;
        let pat: Vec<u8> = (0..pl).flat_map(|_| alpha.letter(&mut rng)).take(pl).collect();
        let mut window = pat.clone();
        match rng.below(5) {
            0 => {}
            1 => {
                let k = rng.below(pl as u64) as usize;
                window[k] = alpha.letter(&mut rng)[0];
            }
            _ => {
                let k = rng.below(pl as u64) as usize;
                let step = [8usize, 16][rng.below(2) as usize];
                let x = alpha.letter(&mut rng)[0];
                window[k] = x;
                if k + step < pl {
                    window[k + step] = x;
                } else if k >= step {
                    window[k - step] = x;
                }
            }
        }
        let filler: Vec<u8> = (0..rng.below(6)).flat_map(|_| alpha.letter(&mut rng)).collect();
        let mut h_suffix = filler.clone();
        h_suffix.extend_from_slice(&window);
        let mut h_prefix = window.clone();
        h_prefix.extend_from_slice(&filler);
        for h in [h_suffix, h_prefix, window.clone()] {
            let kinds = kinds_for_big(&pat);
            bytes_case(&h, &pat, kinds[i % kinds.len()], out);
            if let (Ok(hs), true) = (std::str::from_utf8(&h), std::str::from_utf8(&pat).is_ok()) {
                let sk = str_kinds(&pat);
                str_case(hs, &pat, sk[i % sk.len()], out);
            }
        }
    }
    // whitespace runs of 10..=40 bytes at both ends
    let wcases = if thorough { 4000 } else { 400 };
    for _ in 0..wcases {
        let mut w = ws_run(&mut rng);
        match rng.below(8) {
            0 => {} // nothing but the two runs (often all whitespace)
            1 => w.push(ctl_byte(&mut rng)),
            _ => {
                for _ in 0..1 + rng.below(12) {
                    w.push(if rng.below(3) == 0 { ctl_byte(&mut rng) } else { b'a' + rng.below(26) as u8 });
                }
            }
        }
        let mut tail = ws_run(&mut rng);
        tail.reverse();
        w.extend_from_slice(&tail);
        ws_bytes(&w, out);
        match std::str::from_utf8(&w) {
            Ok(s) => ws_str(s, out),
            Err(_) => {
                // the same with NEL / NBSP as the chars U+0085 / U+00A0
                let s = latin1_to_utf8(&w);
                ws_str(&s, out);
                ws_bytes(s.as_bytes(), out);
            }
        }
    }
}

pub fn run(tier: &str, seed: u64, out: &mut Out) {
    let thorough = tier == "thorough";
    let (max_h, max_n) = if thorough { (11, 5) } else { (8, 4) };

    // 0. the inputs on which the pre-cebbc85 whitespace set failed (form feed), first
    for h in [&b"\x0c"[..], b"\x0cx", b"x\x0c", b"\x0cx\x0c", b" \x0c x \x0c ", b"\x0c\x0c"] {
        ws_bytes(h, out);
        ws_str(std::str::from_utf8(h).unwrap(), out);
    }

    // 1. whitespace trimming: every byte value at both ends (and alone, doubled, behind a space)
    for v in 0..=255u8 {
        for h in [vec![v], vec![v, b'x'], vec![b'x', v], vec![v, b'x', v], vec![v, v], vec![v, v, b'x', b'y', v, v],
                  vec![b' ', v, b'x', v, b' '], vec![v, b' ', b'x', b' ', v], vec![b'x', v, b'y']] {
            ws_bytes(&h, out);
            if let Ok(s) = std::str::from_utf8(&h) {
                ws_str(s, out);
            }
        }
    }
    // every char up to U+00FF and some whitespace-like non-ASCII chars at both ends of a str
    // (std's trim_ascii leaves U+0085, U+00A0, U+2003, U+3000 alone)
    let mut chars: Vec<char> = (0u32..=0xff).filter_map(char::from_u32).collect();
    chars.extend(['\u{2003}', '\u{3000}', '\u{2028}', '\u{feff}', '😀']);
    for c in chars {
        for s in [format!("{c}"), format!("{c}x{c}"), format!(" {c} x {c} "), format!("{c} x {c}"), format!("\t{c}\n")] {
            ws_str(&s, out);
            ws_bytes(s.as_bytes(), out);
        }
    }
    // all strings over {space, tab, \n, \x0b (NOT whitespace), \x0c, \r, x} up to 4 (5)
    let ws_alpha: [&[u8]; 7] = [b" ", b"\t", b"\n", b"\x0b", b"\x0c", b"\r", b"x"];
    for h in all_words(&ws_alpha, if thorough { 5 } else { 4 }) {
        ws_bytes(&h, out);
        ws_str(std::str::from_utf8(&h).unwrap(), out);
    }

    // 2. exhaustive: all haystacks over {a,b} up to max_h x all needles up to max_n
    let hays = all_words(&[b"a", b"b"], max_h);
    let needles = all_words(&[b"a", b"b"], max_n);
    let mut rot = 0usize;
    for h in &hays {
        let hs = std::str::from_utf8(h).unwrap();
        for n in &needles {
            let kinds = kinds_for(n);
            if h.len() <= 8 {
                for &kind in &kinds {
                    bytes_case(h, n, kind, out);
                }
                for kind in str_kinds(n) {
                    str_case(hs, n, kind, out);
                }
            } else {
                rot += 1;
                bytes_case(h, n, kinds[rot % kinds.len()], out);
                let sk = str_kinds(n);
                str_case(hs, n, sk[rot % sk.len()], out);
            }
        }
    }

    // 3. strs over {a, ñ} x needles over {a, ñ} (char kind for one-char needles), and byte needles
    //    that cut characters apart through the byte-slice functions
    let enye = "ñ".as_bytes();
    let hays2 = all_words(&[b"a", enye], if thorough { 6 } else { 5 });
    let needles2 = all_words(&[b"a", enye], 3);
    let needles2b = all_words(&[b"a", &enye[0..1], &enye[1..2]], 3);
    for h in &hays2 {
        let hs = std::str::from_utf8(h).unwrap();
        for n in &needles2 {
            for kind in str_kinds(n) {
                str_case(hs, n, kind, out);
            }
            for kind in kinds_for(n) {
                bytes_case(h, n, kind, out);
            }
        }
        for n in &needles2b {
            if std::str::from_utf8(n).is_ok() {
                continue;
            }
            for kind in kinds_for(n) {
                bytes_case(h, n, kind, out);
            }
        }
    }
    for h in ["€", "a€", "€a", "😀", "a😀b", "€😀€", "😀😀", "😀😀a😀", "€€€ñ€€", "\u{7ff}\u{800}", "\u{ffff}\u{10000}", "\u{10ffff}a\u{10ffff}"] {
        for n in ["€", "😀", "ñ", "a", "€😀", "€€", "\u{7ff}", "\u{800}", "\u{ffff}", "\u{10000}", "\u{10ffff}", "\u{80}"] {
            for kind in str_kinds(n.as_bytes()) {
                str_case(h, n.as_bytes(), kind, out);
            }
            for kind in kinds_for(n.as_bytes()) {
                bytes_case(h.as_bytes(), n.as_bytes(), kind, out);
            }
        }
    }

    // 4. seeded random: long inputs made of needle repetitions at both ends with a partial
    //    repetition next to them, and random planted needles
    let mut rng = Rng(seed ^ 0xC05);
    let cases = if thorough { 20000 } else { 3000 };
    for i in 0..cases {
        let (h, n) = if i % 2 == 0 {
            let alpha: [&[u8]; 3] = [b"a", b"b", enye];
            let nl = 1 + rng.below(5) as usize;
            let n: Vec<u8> = (0..nl).flat_map(|_| alpha[rng.below(3) as usize].to_vec()).collect();
            let mut h = Vec::new();
            for _ in 0..rng.below(6) {
                h.extend_from_slice(&n);
            }
            // a partial repetition (always on a char boundary of the needle's letters)
            let cut = (0..=n.len()).filter(|&k| std::str::from_utf8(&n[..k]).is_ok()).collect::<Vec<_>>();
            h.extend_from_slice(&n[..cut[rng.below(cut.len() as u64) as usize]]);
            for _ in 0..rng.below(8) {
                h.extend_from_slice(alpha[rng.below(3) as usize]);
            }
            let cut2 = (0..=n.len()).filter(|&k| std::str::from_utf8(&n[k..]).is_ok()).collect::<Vec<_>>();
            h.extend_from_slice(&n[cut2[rng.below(cut2.len() as u64) as usize]..]);
            for _ in 0..rng.below(6) {
                h.extend_from_slice(&n);
            }
            (h, n)
        } else {
            random_case(&mut rng, &[b"a", b"b"], 60, 6)
        };
        let kinds = kinds_for(&n);
        bytes_case(&h, &n, kinds[i % kinds.len()], out);
        let hs = std::str::from_utf8(&h).unwrap();
        let sk = str_kinds(&n);
        str_case(hs, &n, sk[i % sk.len()], out);
        if i % 4 == 0 {
            // whitespace padding around random content
            let wsb = [b' ', b'\t', b'\n', 0x0c, b'\r', 0x0b, 0x1c, 0x85, 0xa0, 0];
            let mut w = Vec::new();
            for _ in 0..rng.below(5) {
                w.push(wsb[rng.below(5) as usize]);
            }
            if rng.below(3) == 0 {
                w.push(wsb[rng.below(wsb.len() as u64) as usize]);
            }
            w.extend_from_slice(&h);
            if rng.below(3) == 0 {
                w.push(wsb[rng.below(wsb.len() as u64) as usize]);
            }
            for _ in 0..rng.below(5) {
                w.push(wsb[rng.below(5) as usize]);
            }
            ws_bytes(&w, out);
            if let Ok(s) = std::str::from_utf8(&w) {
                ws_str(s, out);
            }
        }
    }
    run_large(thorough, seed, out);
}
