//! kharness: calls the real konst code (path dependency on /repo/konst, rebuilt from the working
//! tree on every run) and std on generated inputs; one transcript line per request:
//!   request <TAB> implementation <TAB> oracle <TAB> in|out
mod util;
mod c02;
mod c08;
mod c12;
mod c03;
mod c07;
mod c04;
mod c05;
mod c16;
mod c20;
mod c11;
mod c15;
mod c09;
mod c06;
mod c13;
mod c01;

fn main() {
    std::panic::set_hook(Box::new(|_| {}));
    let args: Vec<String> = std::env::args().collect();
    if args.len() < 4 {
        eprintln!("usage: kharness <family> <quick|thorough> <seed>");
        std::process::exit(2);
    }
    let (fam, tier) = (args[1].as_str(), args[2].as_str());
    let seed: u64 = args[3].parse().unwrap_or(0);
    let mut out = util::Out::new();
    match fam {
        "c02" => c02::run(tier, seed, &mut out),
        "c08" => c08::run(tier, seed, &mut out),
        "c12" => c12::run(tier, seed, &mut out),
        "c03" => c03::run(tier, seed, &mut out),
        "c07" => c07::run(tier, seed, &mut out),
        "c04" => c04::run(tier, seed, &mut out),
        "c05" => c05::run(tier, seed, &mut out),
        "c16" => c16::run(tier, seed, &mut out),
        "c20" => c20::run(tier, seed, &mut out),
        "c11" => c11::run(tier, seed, &mut out),
        "c15" => c15::run(tier, seed, &mut out),
        "c09" => c09::run(tier, seed, &mut out),
        "c06" => c06::run(tier, seed, &mut out),
        "c13" => c13::run(tier, seed, &mut out),
        "c14" => c13::run_c14(tier, seed, &mut out),
        "c01" => c01::run(tier, seed, &mut out),
        _ => {
            eprintln!("unknown family {}", fam);
            std::process::exit(2);
        }
    }
    out.finish();
}
